"""Registry of contracts and bounded stand-ins, keyed by property id."""

from __future__ import annotations

from dataclasses import dataclass, field

CONTRACTS: dict = {}
BOUNDED: dict = {}
STATIC: dict = {}


@dataclass
class Spec:
    prop: str
    name: str
    fn: object
    tiers: tuple = ("quick", "thorough")
    timeout: float = 60.0
    samples: int = 3
    solvers: tuple = ("z3", "z3-new", "cvc5")
    max_paths: int = 400
    replayable: bool = True  # False: atoms of stubbed callees -> model cannot be replayed natively
    witness: object = None  # optional fn(rng, label) -> dict|None : native witness search for stub-based contracts
    notes: str = ""
    normal_form: bool = False  # try the canonical polynomial normal form (vk.sym.Expander) on equalities before SMT
    nf_limit: int = 200000
    soft: tuple = ()  # label globs: if the solvers cannot decide these, a passing native witness search stands in (reported as bounded, never as discharged)
    soft_timeout: float = 30.0


def contract(prop, name, **kw):
    def deco(fn):
        CONTRACTS.setdefault(prop, []).append(Spec(prop, name, fn, **kw))
        return fn

    return deco


@dataclass
class BoundedSpec:
    prop: str
    name: str
    fn: object  # fn(tier, seed) -> dict(cases=int, distinct=int, failures=[{what, input}], bound=str)
    tiers: tuple = ("quick", "thorough")


def bounded(prop, name, **kw):
    def deco(fn):
        BOUNDED.setdefault(prop, []).append(BoundedSpec(prop, name, fn, **kw))
        return fn

    return deco


@dataclass
class StaticSpec:
    """Obligations decided by something other than SNE+SMT inside this kit
    (e.g. an AST frame analysis or an LIA encoding built by the contract
    itself).  fn(tier) -> list of dict(name, ok(bool|None), backend, show, replay(optional dict))"""

    prop: str
    name: str
    fn: object
    tiers: tuple = ("quick", "thorough")


def static(prop, name, **kw):
    def deco(fn):
        STATIC.setdefault(prop, []).append(StaticSpec(prop, name, fn, **kw))
        return fn

    return deco
