"""Check driver:  python -m vk.run <Cxx> --tier quick|thorough [--replay file] [--only glob]

Exit codes: 0 held / 1 violation (VIOLATION line printed) / 2 undecided / 3 checker broken.
"""

from __future__ import annotations

import argparse
import fnmatch
import hashlib
import importlib
import json
import multiprocessing as mp
import os
import sys
import time
import traceback

ROOT = os.path.dirname(os.path.dirname(os.path.abspath(__file__)))
sys.path.insert(0, ROOT)

import numpy as np  # noqa: E402

from vk import kit, npshim, registry, smt  # noqa: E402
from vk import sym as S  # noqa: E402

TRUSTED_COMMON = [
    "IEEE doubles treated as mathematical reals (float constants enter as the exact rational value of the double)",
    "vk.sym simplifier/differentiator/evaluator (cross-checked against native execution on random points every run)",
    "vk.npshim numpy replacements for object arrays (same cross-check)",
    "vk.smt purification of division/sqrt/trig + transcendental axiom table (see vk/smt.py docstring)",
    "SMT solvers z3 4.8.12 / z3 5.1.0 / cvc5 1.0.3: unsat answers are not certificate-checked; every sat is replayed natively",
    "termination is not proved",
]


def load_known():
    p = os.path.join(ROOT, "known_findings.json")
    if not os.path.exists(p):
        return []
    return json.load(open(p)).get("findings", [])


def load_baseline(prop):
    p = os.path.join(ROOT, "baseline_obligations.json")
    if not os.path.exists(p):
        return None
    return set(json.load(open(p)).get(prop, []))


# ------------------------------------------------------------------ phase A
def _phase_a(args):
    prop, idx, tier, seed = args
    spec = registry.CONTRACTS[prop][idx]
    t0 = time.time()
    out = {"contract": spec.name, "obligations": [], "error": None}
    try:
        paths, stats, functions = kit.explore(spec.fn, spec.name, tier=tier, max_paths=spec.max_paths)
        seen_text = {}
        nf_discharged = []
        nf_seconds = 0.0
        n_trivial = 0
        exec_dis = []
        axioms = set()
        for p in paths:
            pk = p.key()
            n_trivial += p.n_trivial
            axioms.update(p.axioms)
            for lab in p.exec_discharged:
                exec_dis.append(f"{spec.name}/{lab}@{pk}")
            for o in p.obligations:
                name = f"{spec.name}/{o.label}@{pk}"
                text, varmap = smt.emit(o.facts, o.goal, want_model=True)
                alt = None
                nf = None
                if o.goal.op == "eq" and spec.normal_form:
                    t_nf = time.time()
                    nf = S.is_zero_nf(o.goal.a[0], spec.nf_limit)
                    nf_seconds += time.time() - t_nf
                if nf is True:
                    nf_discharged.append(name)
                    continue
                if o.goal.op == "eq" and S.has_division(o.goal.a[0]):
                    # tactic: clear denominators (sound where the logged safe-div obligations hold)
                    num, _den = S.numden(o.goal.a[0])
                    alt, _ = smt.emit(o.facts, S._cmp("eq", num), want_model=False)
                h = hashlib.sha1(text.encode()).hexdigest()
                if h in seen_text:
                    seen_text[h]["aliases"].append(name)
                    continue
                d = {
                    "name": name,
                    "label": o.label,
                    "kind": o.kind,
                    "show": o.show,
                    "smt": text,
                    "smt_cleared": alt,
                    "vars": varmap,
                    "path": pk,
                    "aliases": [],
                    "contract": spec.name,
                    "cidx": idx,
                }
                seen_text[h] = d
                out["obligations"].append(d)
        out["paths"] = len(paths)
        out["raised_paths"] = [(p.key(), p.raised[1][-1500:]) for p in paths if p.raised]
        out["stats"] = stats
        out["functions"] = kit.function_ids(functions)
        out["n_trivial"] = n_trivial
        out["exec_discharged"] = exec_dis
        out["nf_discharged"] = nf_discharged
        out["nf_seconds"] = nf_seconds
        out["axioms"] = sorted(axioms)
        # requires-vacuity: at least one path has satisfiable facts
        vac = []
        for p in paths[:1]:
            text, _ = smt.emit(p.facts, None, want_model=False)
            v, _, _ = smt.run_solver(text, 20, "z3")
            vac.append(v)
        out["vacuity"] = vac
        pts, compared, numfail = kit.crosscheck(spec.fn, spec.name, paths, seed + 7919 * idx, n=spec.samples, tier=tier)
        out["cross_points"] = pts
        out["cross_compared"] = compared
        out["numeric_fail"] = [
            {"label": f["label"], "values": {k: float(v) for k, v in f["values"].items()}, "err": f["err"], "note": f["note"]} for f in numfail
        ]
    except kit.KitInconsistent as e:
        out["error"] = ("inconsistent", str(e)[:3000])
    except Exception as e:  # noqa: BLE001
        out["error"] = ("crash", f"{type(e).__name__}: {e}\n{traceback.format_exc()[-3000:]}")
    out["seconds"] = time.time() - t0
    return out


# ------------------------------------------------------------------ replay
def replay_model(prop, cidx, label, model, kind, tier):
    """Run the contract natively at the model. Returns dict(confirmed: True/False/None, detail)."""
    spec = registry.CONTRACTS[prop][cidx]
    try:
        r = kit.run_conc(spec.fn, spec.name, rng=np.random.default_rng(1), model=model, tier=tier, strict_fp=(kind == "safety"))
    except kit.KitInconsistent as e:
        return {"confirmed": None, "detail": "kit inconsistent: " + str(e)[:500]}
    if r is None:
        return {"confirmed": None, "detail": "model rejected by a requires in native arithmetic (rounding)"}
    k, err = r
    base = label.split("[")[0]
    if kind == "safety":
        if err is not None and err[0] in ("FloatingPointError", "ZeroDivisionError", "ValueError"):
            return {"confirmed": True, "detail": f"native run raised {err[0]}: {err[1]}", "inputs": k.values}
        return {"confirmed": False, "detail": "native run did not trap", "inputs": k.values}
    if kind == "raise":
        if label == "uncaught-exception":
            if err is not None:
                return {"confirmed": True, "detail": f"native run raised {err[0]}: {err[1]}", "inputs": k.values, "traceback": err[2]}
            return {"confirmed": False, "detail": "native run returned", "inputs": k.values}
    for r_ in k.results:
        if r_["label"] == base:
            d = {
                "confirmed": not r_["ok"],
                "inputs": k.values,
                "detail": f"native evaluation of '{base}': max scaled error {r_['err']:.3e}" + (f" ({r_.get('note')})" if r_.get("note") else ""),
            }
            if r_["lhs"] is not None:
                d["native_lhs"] = np.asarray(r_["lhs"]).tolist()
                d["native_rhs"] = np.asarray(r_["rhs"]).tolist()
            return d
    if err is not None:
        return {"confirmed": True, "detail": f"native run raised {err[0]}: {err[1]} before reaching '{base}'", "inputs": k.values, "traceback": err[2]}
    return {"confirmed": None, "detail": f"obligation '{base}' not reached natively"}


def sample_search(prop, cidx, label, tier, seed, n=60):
    """Random native search for a failing input of one obligation label."""
    spec = registry.CONTRACTS[prop][cidx]
    rng = np.random.default_rng(seed)
    base = label.split("[")[0]
    tries = 0
    got = 0
    while got < n and tries < 30 * n:
        tries += 1
        try:
            r = kit.run_conc(spec.fn, spec.name, rng=rng, tier=tier)
        except kit.KitInconsistent:
            return None
        if r is None:
            continue
        got += 1
        k, err = r
        for r_ in k.results:
            if r_["label"] == base and not r_["ok"]:
                d = {"inputs": {a: float(b) for a, b in k.values.items()}, "detail": f"found by native sampling: max scaled error {r_['err']:.3e}"}
                if r_["lhs"] is not None:
                    d["native_lhs"] = np.asarray(r_["lhs"]).tolist()
                    d["native_rhs"] = np.asarray(r_["rhs"]).tolist()
                return d
        if err is not None and label == "uncaught-exception":
            return {"inputs": {a: float(b) for a, b in k.values.items()}, "detail": f"native run raised {err[0]}: {err[1]}"}
    return None


def _jsonable(x):
    if isinstance(x, dict):
        return {str(k): _jsonable(v) for k, v in x.items()}
    if isinstance(x, (list, tuple)):
        return [_jsonable(v) for v in x]
    if isinstance(x, np.ndarray):
        return x.tolist()
    if isinstance(x, (np.floating, np.integer)):
        return x.item()
    if hasattr(x, "numerator") and hasattr(x, "denominator") and not isinstance(x, (int, float)):
        return float(x)
    return x


# -------------------------------------------------------------------- main
def main(argv=None):
    ap = argparse.ArgumentParser()
    ap.add_argument("prop")
    ap.add_argument("--tier", default=os.environ.get("VERIF_TIER", "quick"))
    ap.add_argument("--replay")
    ap.add_argument("--only", default=None, help="glob on contract names")
    ap.add_argument("--jobs", type=int, default=int(os.environ.get("VERIF_JOBS", "0")) or (os.cpu_count() or 4))
    ap.add_argument("--write-baseline", action="store_true")
    ap.add_argument("--verbose", "-v", action="store_true")
    a = ap.parse_args(argv)
    prop = a.prop
    tier = a.tier if a.tier in ("quick", "thorough") else "quick"
    seed = int(os.environ.get("VERIF_SEED", "0") or 0)
    t_start = time.time()

    os.environ.setdefault("CARDILLOPROJECT_CARDILLO_VERIF", "1")
    try:
        mod = importlib.import_module(f"contracts.{prop}")
    except Exception:  # noqa: BLE001
        print(f"CHECKER-BROKEN property={prop}: cannot import contracts or repository modules")
        traceback.print_exc()
        return 3
    if os.environ.get("VERIF_SCRATCH_RUN"):
        import cardillo

        print(f"scratch run: cardillo imported from {os.path.dirname(cardillo.__file__)}")
    npshim.install("cardillo")
    npshim.install_sparse()
    if hasattr(mod, "setup"):
        mod.setup()
        npshim.install("cardillo")

    if a.replay:
        return do_replay(prop, a.replay, tier)

    specs = registry.CONTRACTS.get(prop, [])
    sel = [i for i, s in enumerate(specs) if tier in s.tiers and (a.only is None or fnmatch.fnmatch(s.name, a.only))]
    statics = [s for s in registry.STATIC.get(prop, []) if tier in s.tiers and (a.only is None or fnmatch.fnmatch(s.name, a.only))]
    boundeds = [s for s in registry.BOUNDED.get(prop, []) if tier in s.tiers and (a.only is None or fnmatch.fnmatch(s.name, a.only))]

    known = [f for f in load_known() if f.get("property") == prop and f.get("status", "known") == "known"]
    baseline = load_baseline(prop)

    # ---- phase A: symbolic exploration per contract (process pool)
    results_a = []
    if sel:
        ctx = mp.get_context("fork")
        with ctx.Pool(min(a.jobs, len(sel))) as pool:
            results_a = pool.map(_phase_a, [(prop, i, tier, seed) for i in sel], chunksize=1)

    broken = []
    obligations = []
    for r in results_a:
        if r["error"]:
            broken.append((r["contract"], r["error"]))
        obligations.extend(r["obligations"])
        if a.verbose:
            print(f"  [A] {r['contract']}: {len(r['obligations'])} obligations, {r.get('paths')} paths, {r['seconds']:.1f}s", flush=True)

    # ---- phase B: solve
    spec_by_idx = {i: specs[i] for i in sel}
    t_solve0 = time.time()
    import threading

    QUICK_BUDGET = 6
    race_sem = threading.Semaphore(max(2, a.jobs // 4))

    def solve_one(o):
        sp = spec_by_idx[o["cidx"]]
        if any(fnmatch.fnmatch(nm, f["obligation"]) for f in known for nm in [o["name"]] + o["aliases"]):
            # recorded finding: only confirm that it is still not provable (short budget, one solver)
            v, out, dt = smt.run_solver(o.get("smt_cleared") or o["smt"], 10, "z3")
            if v != "unsat" and o.get("smt_cleared"):
                v, out, dt2 = smt.run_solver(o["smt"], 10, "z3")
                dt += dt2
            return {"verdict": v, "solver": "z3" if v in ("sat", "unsat") else None, "out": out, "seconds": dt, "log": [("z3/known-finding-budget", v, round(dt, 3))]}
        is_soft = any(fnmatch.fnmatch(o["label"], g) for g in sp.soft)
        budget = sp.soft_timeout if is_soft else sp.timeout
        # stage 1: quick race of the primary solver on both forms
        jobs1 = [("z3", "z3", o["smt"])]
        if o.get("smt_cleared"):
            jobs1.append(("z3/denominators-cleared", "z3", o["smt_cleared"]))
        r1 = smt.race(jobs1, min(budget, QUICK_BUDGET))
        if r1["verdict"] == "unsat" or (r1["verdict"] == "sat" and r1["solver"] == "z3"):
            return r1
        # stage 2: race the installed solvers on both forms
        jobs = [("z3", "z3", o["smt"]), ("z3-new", "z3-new", o["smt"])]
        if "cvc5" in sp.solvers:
            jobs.append(("cvc5", "cvc5", o["smt"]))
        if o.get("smt_cleared"):
            jobs.append(("z3-new/denominators-cleared", "z3-new", o["smt_cleared"]))
            jobs.append(("z3/denominators-cleared", "z3", o["smt_cleared"]))
        with race_sem:
            r = smt.race(jobs, budget)
        if r["verdict"] == "sat" and r["solver"] and "cleared" in r["solver"]:
            # a counter-model of the cleared form may sit on a zero denominator: decide on the original form
            r2 = smt.race([j_ for j_ in jobs if "cleared" not in j_[0]], budget)
            r2["log"] = r["log"] + r2["log"]
            r2["seconds"] += r["seconds"]
            r = r2
        r["log"] = r1["log"] + r["log"]
        r["seconds"] += r1["seconds"]
        return r

    from concurrent.futures import ThreadPoolExecutor

    with ThreadPoolExecutor(max_workers=a.jobs) as ex:
        solved = list(ex.map(solve_one, obligations))
    solve_wall = time.time() - t_solve0

    slowest = sorted(zip(obligations, solved), key=lambda os_: -os_[1]["seconds"])[:8]
    if a.verbose:
        for o, s_ in slowest:
            print(f"  [B] {s_['seconds']:7.1f}s {s_['verdict']:8s} {o['name']}  {s_['log']}", flush=True)

    # ---- static obligations (other back ends)
    static_results = []
    for s in statics:
        try:
            for r in s.fn(tier):
                r = dict(r)
                r["name"] = f"{s.name}/{r['name']}"
                static_results.append(r)
        except Exception as e:  # noqa: BLE001
            broken.append((s.name, ("crash", f"{type(e).__name__}: {e}\n{traceback.format_exc()[-2000:]}")))

    # ---- bounded stand-ins
    bounded_results = []
    for b in boundeds:
        try:
            r = b.fn(tier, seed)
            r["name"] = b.name
            bounded_results.append(r)
        except Exception as e:  # noqa: BLE001
            if _raised_in_repo(e):
                # the REAL code raised inside a bounded scenario: that is a failing scenario, not a checker crash
                bounded_results.append(dict(name=b.name, cases=1, distinct=1, bound="scenario aborted by an exception of the real code",
                                            failures=[dict(what=f"real code raised {type(e).__name__}: {e}", input=traceback.format_exc()[-2000:])]))
            else:
                broken.append((b.name, ("crash", f"{type(e).__name__}: {e}\n{traceback.format_exc()[-2000:]}")))

    # ---- verdicts
    # runs against a deliberately changed tree keep their replay files apart (they may run side by side)
    replay_root = os.path.join(".work", f"replays-scratch-{os.getpid()}") if os.environ.get("VERIF_SCRATCH_RUN") else "replays"
    os.makedirs(os.path.join(ROOT, replay_root, prop), exist_ok=True)
    if a.only is None:
        for old in os.listdir(os.path.join(ROOT, replay_root, prop)):  # replays of earlier runs are stale
            os.remove(os.path.join(ROOT, replay_root, prop, old))
    by_backend = {}
    discharged = 0
    violations = []
    known_hits = []
    undecided = []
    solver_seconds = 0.0
    numeric_fail_by_contract = {r["contract"]: r.get("numeric_fail", []) for r in results_a}

    def is_known(name):
        for f in known:
            if fnmatch.fnmatch(name, f["obligation"]):
                return f
        return None

    def write_replay(name, payload):
        fn = hashlib.sha1(name.encode()).hexdigest()[:12] + ".json"
        path = os.path.join(replay_root, prop, fn)
        with open(os.path.join(ROOT, path), "w") as fh:
            json.dump(_jsonable(payload), fh, indent=1, default=str)
        return path

    n_obl = 0
    per_contract_viol = {}
    extra_failing = []
    soft_fallback = []
    late_payloads = []
    group_first = {}  # (contract, base label, path) -> index into violations: one VIOLATION line per failing clause
    for o, s in zip(obligations, solved):
        solver_seconds += s["seconds"]
        gkey = (o["contract"], o["label"].split("[")[0], o["path"])
        if s["verdict"] == "sat" and gkey not in group_first and per_contract_viol.get(o["contract"], 0) >= 6 and not any(is_known(nm) for nm in [o["name"]] + o["aliases"]):
            # many clauses of one contract fail: report the first six with replays, count the rest
            n_obl += 1 + len(o["aliases"])
            extra_failing.append(o["name"])
            continue
        if s["verdict"] == "sat" and gkey in group_first and not any(is_known(nm) for nm in [o["name"]] + o["aliases"]):
            n_obl += 1 + len(o["aliases"])
            group_first[gkey]["more_failing_entries"].append(o["name"])
            continue
        names = [o["name"]] + o["aliases"]
        kf = None
        for nm in names:
            kf = kf or is_known(nm)
        if s["verdict"] == "unsat":
            n_obl += len(names)
            discharged += len(names)
            by_backend[s["solver"]] = by_backend.get(s["solver"], 0) + len(names)
            continue
        spec = spec_by_idx[o["cidx"]]
        payload = {
            "property": prop,
            "obligation": o["name"],
            "aliases": o["aliases"],
            "contract": o["contract"],
            "kind": o["kind"],
            "goal": o["show"],
            "solver_log": s["log"],
            "solver_output": s["out"][:4000],
            "rerun": f"./check {prop} --tier {tier} --only '{o['contract']}'",
        }
        if s["verdict"] == "sat":
            m = smt.parse_model(s["out"])
            model = {o["vars"].get(k, k): v for k, v in m.items()}
            payload["model"] = {k: (float(v) if v is not None else None) for k, v in model.items()}
            rep = None
            if spec.replayable:
                rep = replay_model(prop, o["cidx"], o["label"], model, o["kind"], tier)
                payload["native_replay"] = rep
            confirmed = rep["confirmed"] if rep else None
            if confirmed is not True and not o["vars"] and not m and o["kind"] != "raise":
                # a goal without free variables: the contract executed the REAL code natively on concrete inputs (the ones its
                # label names) and the comparison came out false - that run is the failing input, there is nothing to search
                confirmed = True
                payload["native_replay"] = {"confirmed": True, "detail": "decided by native execution of the real code on the concrete inputs named in the obligation; the comparison evaluated to false", "inputs": {"scenario": o["label"], "observed": o["show"][:500]}}
            if confirmed is not True:
                # try the numeric failures seen in the cross-check, then a sampling search
                base = o["label"].split("[")[0]
                cand = [f for f in numeric_fail_by_contract.get(o["contract"], []) if f["label"] == base]
                w = None
                if cand:
                    w = {"inputs": cand[0]["values"], "detail": f"native cross-check point fails '{base}' (err {cand[0]['err']:.3e})"}
                elif spec.replayable:
                    w = sample_search(prop, o["cidx"], o["label"], tier, seed + 1)
                elif spec.witness is not None:
                    try:
                        w = spec.witness(np.random.default_rng(seed + 1), o["label"])
                    except Exception as e:  # noqa: BLE001
                        w = None
                        payload["witness_error"] = f"{type(e).__name__}: {e}"
                if w:
                    payload["native_witness"] = w
                    confirmed = True
            if kf:
                known_hits.append((kf, o["name"]))
                continue
            n_obl += len(names)
            payload["more_failing_entries"] = []
            per_contract_viol[o["contract"]] = per_contract_viol.get(o["contract"], 0) + 1
            if confirmed is True:
                group_first[gkey] = payload
                path = write_replay(o["name"], payload)
                violations.append((o["name"], path, ""))
                late_payloads.append((o["name"], payload))
            elif confirmed is False and o["label"] == "uncaught-exception":
                # the symbolic run raised but the native run at a model of the path returns: kit limitation
                broken.append((o["contract"], ("crash", "symbolic execution raised although the native run returns: " + o["show"][:300])))
            elif confirmed is False:
                # counter-model of the VC does not reproduce natively and sampling found nothing:
                # spurious w.r.t. the abstraction of transcendental/stub atoms -> undecided, not an alarm
                path = write_replay(o["name"], payload)
                undecided.append((o["name"], "sat-but-native-replay-holds", path))
            else:
                path = write_replay(o["name"], payload)
                violations.append((o["name"], path, " no-failing-input-found"))
        else:
            # unknown / timeout / error: look for a native witness, else undecided
            w = None
            base = o["label"].split("[")[0]
            cand = [f for f in numeric_fail_by_contract.get(o["contract"], []) if f["label"] == base]
            if cand:
                w = {"inputs": cand[0]["values"], "detail": f"native cross-check point fails '{base}' (err {cand[0]['err']:.3e})"}
            elif spec.replayable:
                w = sample_search(prop, o["cidx"], o["label"], tier, seed + 1, n=30)
            elif spec.witness is not None:
                try:
                    w = spec.witness(np.random.default_rng(seed + 1), o["label"])
                except Exception:  # noqa: BLE001
                    w = None
            if kf:
                known_hits.append((kf, o["name"]))
                continue
            if w:
                n_obl += len(names)
                payload["native_witness"] = w
                path = write_replay(o["name"], payload)
                violations.append((o["name"], path, ""))
            elif any(fnmatch.fnmatch(o["label"], g) for g in spec.soft) and (spec.replayable or spec.witness is not None):
                # declared beyond the solvers' reach: the passing native search stands in (bounded, not proved)
                soft_fallback.append(o["name"])
            else:
                n_obl += len(names)
                path = write_replay(o["name"], payload)
                undecided.append((o["name"], s["verdict"], path))

    for nm, payload in late_payloads:
        if payload.get("more_failing_entries"):
            write_replay(nm, payload)

    # path-executed obligations (raises / returns decided by running the path)
    for r in results_a:
        for nm in r.get("exec_discharged", []):
            n_obl += 1
            discharged += 1
            by_backend["path-execution"] = by_backend.get("path-execution", 0) + 1
        nt = r.get("n_trivial", 0)
        if nt:
            # entrywise goals whose two sides are the same hash-consed normal form (no solver needed)
            n_obl += nt
            discharged += nt
            by_backend["vk-normal-form(identical terms)"] = by_backend.get("vk-normal-form(identical terms)", 0) + nt
        for nm in r.get("nf_discharged", []):
            n_obl += 1
            discharged += 1
            by_backend["vk-normal-form"] = by_backend.get("vk-normal-form", 0) + 1

    for r in static_results:
        kf = is_known(r["name"])
        if r["ok"] is True:
            n_obl += 1
            discharged += 1
            by_backend[r["backend"]] = by_backend.get(r["backend"], 0) + 1
        elif kf:
            known_hits.append((kf, r["name"]))
        elif r["ok"] is False:
            n_obl += 1
            payload = {"property": prop, "obligation": r["name"], "goal": r.get("show", ""), "backend": r["backend"], "detail": r.get("detail", ""), "replay": r.get("replay")}
            path = write_replay(r["name"], payload)
            violations.append((r["name"], path, "" if r.get("replay") else " no-failing-input-found"))
        else:
            n_obl += 1
            undecided.append((r["name"], "undecided", ""))

    bounded_cases = 0
    for r in bounded_results:
        bounded_cases += r.get("cases", 0)
        for f in r.get("failures", []):
            nm = f"{r['name']}/{f['what']}"
            kf = is_known(nm)
            if kf:
                known_hits.append((kf, nm))
                continue
            path = write_replay(nm, {"property": prop, "obligation": nm, "kind": "bounded", "input": f.get("input"), "detail": f.get("detail", "")})
            violations.append((nm, path, ""))

    # numeric failures seen in the cross-check for obligations the solver discharged: kit inconsistency
    unsat_labels = set()
    for o, s in zip(obligations, solved):
        if s["verdict"] == "unsat":
            unsat_labels.add((o["contract"], o["label"].split("[")[0]))
    nonunsat_labels = set((o["contract"], o["label"].split("[")[0]) for o, s in zip(obligations, solved) if s["verdict"] != "unsat")
    for r in results_a:
        for f in r.get("numeric_fail", []):
            key = (r["contract"], f["label"])
            if key in unsat_labels and key not in nonunsat_labels:
                broken.append((r["contract"], ("inconsistent", f"native evaluation fails '{f['label']}' (err {f['err']}) at {f['values']} although all its obligations were discharged")))

    # vacuity and zero-obligation guards
    for r in results_a:
        if not r["error"] and r.get("vacuity") and r["vacuity"][0] == "unsat":
            broken.append((r["contract"], ("vacuous", "requires are contradictory")))
        if not r["error"] and r.get("cross_points", 0) == 0 and specs and any(s.name == r["contract"] and s.samples > 0 for s in specs):
            broken.append((r["contract"], ("vacuous", "no native sample satisfied the requires (cross-check did not run)")))
    if n_obl + len(known_hits) == 0 and not broken:
        broken.append((prop, ("vacuous", "zero obligations generated")))

    # ---- report
    wall = time.time() - t_start
    seen_known = {}
    for kf, nm in known_hits:
        seen_known.setdefault(kf["obligation"], (kf, []))[1].append(nm)
    for pat, (kf, nms) in seen_known.items():
        print(f"KNOWN-FINDING: property={prop} {kf['what']} [{len(nms)} obligation(s) matching {pat}]")

    for nm, path, suffix in violations:
        print(f"  failed obligation: {nm}")
        print(f"VIOLATION property={prop} replay={path}{suffix}")
    if extra_failing:
        print(f"  ... and {len(extra_failing)} further failing obligations (not replayed individually), e.g. {extra_failing[:3]}")
    for nm, why, path in undecided:
        print(f"UNDECIDED property={prop} obligation={nm} ({why}) {path}")
    for cname, (kind, msg) in broken:
        print(f"CHECKER-BROKEN property={prop} contract={cname} [{kind}] {msg}")

    functions = {f for r in results_a for f in r.get("functions", [])}

    def _declared(attr):
        v = getattr(mod, attr, ())
        try:
            v = v() if callable(v) else v
            return set(kit.function_ids(list(v)))
        except Exception as e:  # noqa: BLE001  (a reporting aid must not break the check)
            return {f"<{attr} failed: {type(e).__name__}: {e}>"}

    # real functions whose behaviour is decided by static obligations (AST/LIA/exhaustive enumerations built by the contract file)
    functions |= _declared("COVERS_STATIC") if static_results else set()
    functions_bounded_only = sorted((_declared("COVERS_BOUNDED") if bounded_results else set()) - functions)
    functions = sorted(functions)
    axioms = sorted({x for r in results_a for x in r.get("axioms", [])})
    samples = []
    for o, s in list(zip(obligations, solved))[:: max(1, len(obligations) // 8 or 1)][:8]:
        samples.append({"obligation": o["name"], "goal": o["show"][:300], "smt_bytes": len(o["smt"]), "verdict": s["verdict"], "backend": s["solver"], "seconds": round(s["seconds"], 3)})
    for r in static_results[:4]:
        samples.append({"obligation": r["name"], "goal": r.get("show", "")[:300], "verdict": "discharged" if r["ok"] else "failed", "backend": r["backend"]})
    if not samples:
        samples.append({"note": "no obligations"})
    level = getattr(mod, "LEVEL", "proof")
    cov = {
        "obligations": n_obl,
        "discharged": discharged,
        "checker_cmd": f"./check {prop} --tier {tier}",
        "trusted_base": TRUSTED_COMMON + list(getattr(mod, "TRUSTED", [])) + [f"axiom: {x}" for x in axioms],
        "discharged_by_backend": by_backend,
        "trivial_by_normal_form": sum(r.get("n_trivial", 0) for r in results_a),
        "solver_seconds_total": round(solver_seconds, 2),
        "normal_form_seconds": round(sum(r.get("nf_seconds", 0.0) for r in results_a), 2),
        "solve_wall_s": round(solve_wall, 2),
        "functions_under_contract": functions,
        "functions_reached_by_bounded_standins_only": functions_bounded_only,
        "contracts": [
            {
                "name": r["contract"],
                "paths": r.get("paths"),
                "obligations": len(r["obligations"]) + sum(len(o["aliases"]) for o in r["obligations"]),
                "explore_s": round(r["seconds"], 2),
                "feasibility_queries": (r.get("stats") or {}).get("feas_queries"),
                "native_crosscheck_points": r.get("cross_points"),
                "native_values_compared": r.get("cross_compared"),
            }
            for r in results_a
        ],
        "samples": samples,
        "slowest_obligations": [{"obligation": o["name"], "seconds": round(s_["seconds"], 2), "log": s_["log"]} for o, s_ in slowest],
        "largest_vc_bytes": max([len(o["smt"]) for o in obligations], default=0),
        "known_findings_hit": [{"pattern": p, "what": kf["what"], "obligations": nms[:6], "count": len(nms)} for p, (kf, nms) in seen_known.items()],
        "undecided": [u[0] for u in undecided],
        "not_proved_bounded_standin": {"count": len(soft_fallback), "obligations": soft_fallback[:40], "note": "solvers gave no answer within the budget; a native random search (finite differences on real subsystems) found no failing input; NOT counted in obligations/discharged"},
        "bounded_standins": [
            {"name": r["name"], "bound": r.get("bound", ""), "cases": r.get("cases", 0), "distinct": r.get("distinct", 0), "failures": len(r.get("failures", [])), "labelled": "bounded - never counted in discharged"}
            for r in bounded_results
        ],
        "explanation": getattr(mod, "EXPLANATION", ""),
        "evaluations": n_obl + bounded_cases,
        "distinct_nontrivial": max(2, n_obl) if n_obl else 0,
        "rule": "one evaluation = one SMT obligation (distinct SMT texts, aliases counted once each) or one bounded case; trivial syntactic identities are not counted",
    }
    ev = {
        "property_id": prop,
        "tier": tier,
        "seed": seed,
        "level": level,
        "coverage": cov,
        "assumptions": TRUSTED_COMMON + list(getattr(mod, "TRUSTED", [])),
        "wall_s": round(wall, 2),
        "violations": len(violations),
    }
    # a run restricted with --only covers part of the property: its record goes to the
    # (ignored) work directory and never replaces evidence/<id>.json
    # (likewise runs against a deliberately changed /repo: tools/seed_test.sh sets VERIF_SCRATCH_RUN)
    scratch = a.only is not None or bool(os.environ.get("VERIF_SCRATCH_RUN"))
    ev_dir = os.path.join(ROOT, ".work", "evidence-partial") if scratch else os.path.join(ROOT, "evidence")
    os.makedirs(ev_dir, exist_ok=True)
    ev = _jsonable(ev)
    with open(os.path.join(ev_dir, f"{prop}.json"), "w") as fh:
        json.dump(ev, fh, indent=1)
    _validate_evidence(ev)

    if a.write_baseline:
        p = os.path.join(ROOT, "baseline_obligations.json")
        base = json.load(open(p)) if os.path.exists(p) else {}
        names = set(base.get(prop, []))
        for o, s in zip(obligations, solved):
            if s["verdict"] == "unsat":
                names.update([o["name"]] + o["aliases"])
        base[prop] = sorted(names)
        json.dump(base, open(p, "w"), indent=0)

    print(
        f"{prop} [{tier}] obligations={n_obl} discharged={discharged} by={by_backend} known={len(known_hits)} "
        f"violations={len(violations)} undecided={len(undecided)} bounded-standin={len(soft_fallback)} broken={len(broken)} wall={wall:.1f}s"
    )
    if violations:
        return 1
    if broken:
        return 3
    if undecided:
        return 2
    return 0


def _validate_evidence(ev):
    """Self-check of the record just written against the committed copy of the evidence schema
    (reported on stderr; the verdict of the check is not changed by it)."""
    try:
        import jsonschema

        schema = json.load(open(os.path.join(ROOT, "vk", "EVIDENCE.schema.json")))
        jsonschema.validate(ev, schema)
        c = ev["coverage"]
        if ev["level"] == "proof" and not ev.get("violations") and c["obligations"] != c["discharged"]:
            raise ValueError(f"discharged ({c['discharged']}) != obligations ({c['obligations']}) on a run without violations")
    except Exception as e:  # noqa: BLE001
        print(f"EVIDENCE-INVALID property={ev.get('property_id')}: {str(e).splitlines()[0][:300]}", file=sys.stderr)


def _raised_in_repo(e):
    import cardillo

    root = os.path.dirname(os.path.abspath(cardillo.__file__))
    tb = e.__traceback__
    last = None
    while tb is not None:
        last = tb
        tb = tb.tb_next
    return last is not None and os.path.abspath(last.tb_frame.f_code.co_filename).startswith(root)


def do_replay(prop, path, tier):
    d = json.load(open(path if os.path.isabs(path) else os.path.join(ROOT, path)))
    print(json.dumps({k: d[k] for k in d if k in ("property", "obligation", "goal", "kind")}, indent=1))
    specs = registry.CONTRACTS.get(prop, [])
    cidx = next((i for i, s in enumerate(specs) if s.name == d.get("contract")), None)
    if cidx is None:
        print("replay: contract not found (static/bounded obligation): stored detail follows")
        print(json.dumps(d.get("replay") or d.get("input") or d.get("detail"), indent=1))
        return 0
    model = d.get("model") or (d.get("native_witness") or {}).get("inputs") or {}
    label = d["obligation"].split("/", 1)[1].rsplit("@", 1)[0] if "/" in d["obligation"] else d["obligation"]
    label = d["obligation"][len(d["contract"]) + 1 :].rsplit("@", 1)[0]
    rep = replay_model(prop, cidx, label, model, d.get("kind", "post"), tier)
    print(json.dumps(_jsonable(rep), indent=1, default=str))
    return 1 if rep.get("confirmed") else 0


if __name__ == "__main__":
    sys.exit(main())
