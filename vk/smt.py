"""SMT-LIB2 emission for Sym/SymBool terms and a solver pool (CLI back ends).

Purification (all of it listed as trusted in the evidence):
  b^-k            fresh inv_b with inv_b*b = 1          (safety: b != 0 proved separately)
  sqrt(x)         fresh r, r >= 0, r*r = x              (safety: x >= 0 proved separately)
  sin/cos(x)      fresh s_x, c_x with s^2+c^2 = 1
  tan(x)          fresh t_x with t_x*c_x = s_x          (safety: c_x != 0)
  acos(e)         fresh th, 0 <= th <= pi  [cos(acos e)=e, sin(acos e)=sqrt(1-e^2) are
                  rewritten at construction in vk.sym]; for every trig argument x:
                  (e = c_x and 0 <= x <= pi) => th = x
  atan(e)         fresh ph, -pi/2 < ph < pi/2, trig atoms of ph with s = e*c, c > 0;
                  for every trig argument x: (e*c_x = s_x and c_x>0 and -pi/2<x<pi/2) => ph = x
  double angle    whenever two trig arguments satisfy x == 2*y syntactically:
                  s_x = 2 s_y c_y, c_x = c_y^2 - s_y^2
  sign table      0<x<pi => s_x>0 ; -pi/2<x<pi/2 => c_x>0 ; x=0 => s_x=0 and c_x=1
                  |s_x| <= |x|  (as  x>=0 => -x<=s_x<=x ; x<=0 => x<=s_x<=-x)
  congruence      for trig arguments x, y: x = y => sin/cos atoms equal; x = acos(e) => cos x = e, sin x >= 0
  pi              3.14159 < pi < 3.1416
  uf              uninterpreted function (congruence only)
"""

from __future__ import annotations

import os
import re
import subprocess
import time
from concurrent.futures import ThreadPoolExecutor
from fractions import Fraction

from . import sym as S

Z3 = "/usr/bin/z3"
Z3NEW = "z3-new"
CVC5 = "/usr/bin/cvc5"


def _q(fr: Fraction) -> str:
    n, d = fr.numerator, fr.denominator
    s = f"{abs(n)}.0" if d == 1 else f"(/ {abs(n)}.0 {d}.0)"
    return f"(- {s})" if n < 0 else s


def _san(name: str) -> str:
    return re.sub(r"[^A-Za-z0-9_.]", "_", name)


class Emitter:
    def __init__(self):
        self.decls: list[str] = []
        self.defs: list[str] = []
        self.axioms: list[str] = []
        self.names: dict = {}
        self.bnames: dict = {}
        self.varnames: dict = {}  # smt name -> Sym
        self.trig: dict = {}  # arg Sym -> (s name, c name)
        self.acos_nodes: list = []
        self.atan_nodes: list = []
        self.has_uf = False
        self.uf_decl: dict = {}
        self.has_pi = False

    # -- terms
    def term(self, t: S.Sym) -> str:
        n = self.names.get(t)
        if n is not None:
            return n
        # iterative post-order to avoid deep recursion
        stack = [(t, False)]
        while stack:
            node, done = stack.pop()
            if node in self.names:
                continue
            if not done:
                stack.append((node, True))
                for ch in _children(node):
                    if ch not in self.names:
                        stack.append((ch, False))
            else:
                self.names[node] = self._emit(node)
        return self.names[t]

    def _fresh(self, base, t):
        n = f"{base}{t.uid}"
        self.decls.append(f"(declare-const {n} Real)")
        return n

    def _trig(self, x: S.Sym):
        p = self.trig.get(x)
        if p is None:
            xn = self.names[x] if x in self.names else self.term(x)
            s = f"sin{x.uid}"
            c = f"cos{x.uid}"
            self.decls.append(f"(declare-const {s} Real)")
            self.decls.append(f"(declare-const {c} Real)")
            self.axioms.append(f"(= (+ (* {s} {s}) (* {c} {c})) 1.0)")
            self.trig[x] = p = (s, c, xn)
        return p

    def _emit(self, t: S.Sym) -> str:
        op = t.op
        if op == "c":
            return _q(t.a)
        if op in ("v", "f"):
            n = _san(t.a)
            if n in self.varnames and self.varnames[n] is not t:
                n = f"{n}__{t.uid}"
            self.varnames[n] = t
            self.decls.append(f"(declare-const {n} Real)")
            if t is S.PI:
                self.has_pi = True
                self.axioms.append(f"(and (< 3.14159 {n}) (< {n} 3.1416))")
            return n
        if op == "uf":
            self.has_uf = True
            name, args = t.a
            fn = _san(name)
            ar = len(args)
            if fn not in self.uf_decl:
                self.uf_decl[fn] = ar
                self.decls.append(f"(declare-fun {fn} ({' '.join(['Real'] * ar)}) Real)")
            expr = fn if ar == 0 else f"({fn} {' '.join(self.names[a] for a in args)})"
            return self._define(t, expr)
        if op == "+":
            c0, terms = t.a
            parts = [] if c0 == 0 else [_q(c0)]
            for c, s in terms:
                sn = self.names[s]
                if c == 1:
                    parts.append(sn)
                elif c == -1:
                    parts.append(f"(- {sn})")
                else:
                    parts.append(f"(* {_q(c)} {sn})")
            expr = parts[0] if len(parts) == 1 else "(+ " + " ".join(parts) + ")"
            return self._define(t, expr)
        if op == "*":
            parts = []
            for b, e in t.a:
                bn = self.names[b]
                if e > 0:
                    parts += [bn] * e
                else:
                    inv = self._inv(b)
                    parts += [inv] * (-e)
            expr = parts[0] if len(parts) == 1 else "(* " + " ".join(parts) + ")"
            return self._define(t, expr)
        x = t.a[0]
        xn = self.names[x]
        if op == "sqrt":
            r = self._fresh("sqrt", t)
            self.axioms.append(f"(>= {r} 0.0)")
            self.axioms.append(f"(= (* {r} {r}) {xn})")
            return r
        if op == "sin":
            return self._trig(x)[0]
        if op == "cos":
            return self._trig(x)[1]
        if op == "tan":
            s, c, _ = self._trig(x)
            tn = self._fresh("tan", t)
            self.axioms.append(f"(= (* {tn} {c}) {s})")
            return tn
        if op == "acos":
            th = self._fresh("acos", t)
            pi = self.term(S.PI)
            self.axioms.append(f"(and (<= 0.0 {th}) (<= {th} {pi}))")
            self.acos_nodes.append((t, th, xn))
            return th
        if op == "atan":
            ph = self._fresh("atan", t)
            pi = self.term(S.PI)
            self.axioms.append(f"(and (< (- (* 0.5 {pi})) {ph}) (< {ph} (* 0.5 {pi})))")
            self.atan_nodes.append((t, ph, xn))
            return ph
        raise S.KitError(f"emit op {op}")

    def _inv(self, b):
        key = ("inv", b)
        n = self.names.get(key)
        if n is None:
            n = f"inv{b.uid}"
            self.decls.append(f"(declare-const {n} Real)")
            self.axioms.append(f"(= (* {n} {self.names[b]}) 1.0)")
            self.names[key] = n
        return n

    def _define(self, t, expr):
        n = f"n{t.uid}"
        self.defs.append(f"(define-fun {n} () Real {expr})")
        return n

    # -- booleans
    def boolean(self, b: S.SymBool) -> str:
        op = b.op
        if op == "T":
            return "true"
        if op == "F":
            return "false"
        if op == "bv":
            n = _san(b.a[0])
            if b not in self.bnames:
                self.bnames[b] = n
                self.decls.append(f"(declare-const {n} Bool)")
            return n
        if op == "not":
            return f"(not {self.boolean(b.a[0])})"
        if op == "and":
            return f"(and {self.boolean(b.a[0])} {self.boolean(b.a[1])})"
        if op == "or":
            return f"(or {self.boolean(b.a[0])} {self.boolean(b.a[1])})"
        d = self.term(b.a[0])
        return {"lt": f"(< {d} 0.0)", "le": f"(<= {d} 0.0)", "eq": f"(= {d} 0.0)"}[op]

    def _late_axioms(self):
        """Axioms that relate purified atoms with each other (instantiated only
        for atoms present)."""
        out = []
        trig = list(self.trig.items())
        if trig or self.acos_nodes or self.atan_nodes:
            pi = self.term(S.PI)
        # atan nodes own trig atoms
        for t, ph, en in self.atan_nodes:
            s, c = f"sinA{t.uid}", f"cosA{t.uid}"
            self.decls.append(f"(declare-const {s} Real)")
            self.decls.append(f"(declare-const {c} Real)")
            out.append(f"(= (+ (* {s} {s}) (* {c} {c})) 1.0)")
            out.append(f"(> {c} 0.0)")
            out.append(f"(= {s} (* {en} {c}))")
            out.append(f"(=> (> {en} 0.0) (> {ph} 0.0))")
            out.append(f"(=> (< {en} 0.0) (< {ph} 0.0))")
            out.append(f"(=> (= {en} 0.0) (= {ph} 0.0))")
            for x, (sx, cx, xn) in trig:
                out.append(
                    f"(=> (and (= (* {en} {cx}) {sx}) (> {cx} 0.0) (< (- (* 0.5 {pi})) {xn}) (< {xn} (* 0.5 {pi}))) (= {ph} {xn}))"
                )
                # periodicity of tan: e = tan x  => atan e = x - k pi ;  e = -cot x = tan(x - pi/2) => atan e = x - pi/2 - k pi
                for kk in (-2, -1, 0, 1, 2, 3):
                    sh = f"(* {float(kk)} {pi})" if kk >= 0 else f"(- (* {float(-kk)} {pi}))"
                    out.append(
                        f"(=> (and (= (* {en} {cx}) {sx}) (not (= {cx} 0.0)) (< (- {sh} (* 0.5 {pi})) {xn}) (< {xn} (+ {sh} (* 0.5 {pi})))) (= {ph} (- {xn} {sh})))"
                    )
                    out.append(
                        f"(=> (and (= (* {en} {sx}) (- {cx})) (not (= {sx} 0.0)) (< {sh} {xn}) (< {xn} (+ {sh} {pi}))) (= {ph} (- (- {xn} (* 0.5 {pi})) {sh})))"
                    )
        for t, th, en in self.acos_nodes:
            out.append(f"(=> (= {en} 1.0) (= {th} 0.0))")
            out.append(f"(=> (= {th} 0.0) (= {en} 1.0))")
            out.append(f"(=> (= {en} (- 1.0)) (= {th} {pi}))")
            out.append(f"(=> (= {th} {pi}) (= {en} (- 1.0)))")
            for x, (sx, cx, xn) in trig:
                out.append(f"(=> (and (= {en} {cx}) (<= 0.0 {xn}) (<= {xn} {pi})) (= {th} {xn}))")
        for x, (s, c, xn) in trig:
            for kk in (-1, 1, 2):  # sign table on further periods
                lo = f"(* {float(2 * kk)} {pi})" if kk >= 0 else f"(- (* {float(-2 * kk)} {pi}))"
                out.append(f"(=> (and (< {lo} {xn}) (< {xn} (+ {lo} {pi}))) (> {s} 0.0))")
                out.append(f"(=> (and (< (+ {lo} {pi}) {xn}) (< {xn} (+ {lo} (* 2.0 {pi})))) (< {s} 0.0))")
                out.append(f"(=> (and (< (- {lo} (* 0.5 {pi})) {xn}) (< {xn} (+ {lo} (* 0.5 {pi})))) (> {c} 0.0))")
                out.append(f"(=> (and (< (+ {lo} (* 0.5 {pi})) {xn}) (< {xn} (+ {lo} (* 1.5 {pi})))) (< {c} 0.0))")
                out.append(f"(=> (= {xn} {lo}) (and (= {s} 0.0) (= {c} 1.0)))")
                out.append(f"(=> (= {xn} (+ {lo} {pi})) (and (= {s} 0.0) (= {c} (- 1.0))))")
                out.append(f"(=> (= {xn} (+ {lo} (* 0.5 {pi}))) (and (= {s} 1.0) (= {c} 0.0)))")
                out.append(f"(=> (= {xn} (+ {lo} (* 1.5 {pi}))) (and (= {s} (- 1.0)) (= {c} 0.0)))")
            out.append(f"(=> (= {xn} (* 0.5 {pi})) (and (= {s} 1.0) (= {c} 0.0)))")
            out.append(f"(=> (= {xn} (* 1.5 {pi})) (and (= {s} (- 1.0)) (= {c} 0.0)))")
            out.append(f"(=> (= {xn} (- (* 0.5 {pi}))) (and (= {s} (- 1.0)) (= {c} 0.0)))")
            out.append(f"(=> (and (< {pi} {xn}) (< {xn} (* 2.0 {pi}))) (< {s} 0.0))")
            out.append(f"(=> (and (< (* 1.5 {pi}) {xn}) (< {xn} (* 2.5 {pi}))) (> {c} 0.0))")
            out.append(f"(=> (and (< 0.0 {xn}) (< {xn} {pi})) (> {s} 0.0))")
            out.append(f"(=> (and (< (- {pi}) {xn}) (< {xn} 0.0)) (< {s} 0.0))")
            out.append(f"(=> (and (< (- (* 0.5 {pi})) {xn}) (< {xn} (* 0.5 {pi}))) (> {c} 0.0))")
            out.append(f"(=> (and (< (* 0.5 {pi}) {xn}) (< {xn} (* 1.5 {pi}))) (< {c} 0.0))")
            out.append(f"(=> (= {xn} 0.0) (and (= {s} 0.0) (= {c} 1.0)))")
            out.append(f"(=> (= {xn} {pi}) (and (= {s} 0.0) (= {c} (- 1.0))))")
            out.append(f"(=> (>= {xn} 0.0) (and (<= (- {xn}) {s}) (<= {s} {xn})))")
            out.append(f"(=> (<= {xn} 0.0) (and (<= {xn} {s}) (<= {s} (- {xn}))))")
            out.append(f"(=> (and (< 0.0 {xn}) (< {xn} (* 2.0 {pi}))) (< {c} 1.0))")
            out.append(f"(=> (> {xn} 0.0) (< {s} {xn}))")
        # congruence (Ackermann) between trig atoms whose arguments may be proved equal
        for i, (x, (sx, cx, xn)) in enumerate(trig):
            for y, (sy, cy, yn) in trig[i + 1 :]:
                out.append(f"(=> (= {xn} {yn}) (and (= {sx} {sy}) (= {cx} {cy})))")
        for t, th, en in self.acos_nodes:
            for x, (sx, cx, xn) in trig:
                out.append(f"(=> (= {xn} {th}) (and (= {cx} {en}) (>= {sx} 0.0)))")
        for i, (x, (sx, cx, _)) in enumerate(trig):
            for y, (sy, cy, _) in trig:
                if x is y:
                    continue
                d = x - 2 * y
                if d.op == "c" and d.a == 0:
                    out.append(f"(= {sx} (* 2.0 {sy} {cy}))")
                    out.append(f"(= {cx} (- (* {cy} {cy}) (* {sy} {sy})))")
        return out

    def script(self, hyps, goal, want_model=True, extra_axioms=()):
        hs = [self.boolean(h) for h in hyps]
        g = self.boolean(goal) if goal is not None else None
        ex = [self.boolean(a) for a in extra_axioms]
        late = self._late_axioms()
        logic = "QF_UFNRA" if (self.has_uf or self.bnames) else "QF_NRA"
        lines = [f"(set-logic {logic})"]
        lines += self.decls
        lines += self.defs
        for a in self.axioms + late:
            lines.append(f"(assert {a})")
        for a in ex:
            lines.append(f"(assert {a})")
        for h in hs:
            lines.append(f"(assert {h})")
        if g is not None:
            lines.append(f"(assert (not {g}))")
        lines.append("(check-sat)")
        if want_model and self.varnames:
            lines.append("(get-value (" + " ".join(self.varnames) + "))")
        return "\n".join(lines) + "\n"


def _children(t):
    op = t.op
    if op in ("c", "v", "f"):
        return ()
    if op == "uf":
        return t.a[1]
    if op == "+":
        return [s for _, s in t.a[1]]
    if op == "*":
        return [b for b, _ in t.a]
    return (t.a[0],)


def emit(hyps, goal, want_model=True):
    e = Emitter()
    text = e.script(hyps, goal, want_model)
    return text, {n: s.a for n, s in e.varnames.items()}


# ------------------------------------------------------------------ solving
_TOK = re.compile(r"\(|\)|[^\s()]+")


def _parse_sexprs(text):
    toks = _TOK.findall(text)
    pos = 0

    def rd():
        nonlocal pos
        t = toks[pos]
        pos += 1
        if t == "(":
            lst = []
            while toks[pos] != ")":
                lst.append(rd())
            pos += 1
            return lst
        return t

    out = []
    while pos < len(toks):
        out.append(rd())
    return out


def _val(e):
    if isinstance(e, str):
        if e.endswith("?"):
            e = e[:-1]
        try:
            return Fraction(e)
        except ValueError:
            return None
    if not e:
        return None
    h = e[0]
    if h == "-" and len(e) == 2:
        v = _val(e[1])
        return None if v is None else -v
    if h == "-" and len(e) == 3:
        a, b = _val(e[1]), _val(e[2])
        return None if a is None or b is None else a - b
    if h == "/":
        a, b = _val(e[1]), _val(e[2])
        return None if a is None or b is None or b == 0 else a / b
    if h == "+":
        vs = [_val(x) for x in e[1:]]
        return None if any(v is None for v in vs) else sum(vs)
    if h == "*":
        r = Fraction(1)
        for x in e[1:]:
            v = _val(x)
            if v is None:
                return None
            r *= v
        return r
    if h == "root-obj":
        return None
    return None


def parse_model(out: str):
    """Parse `(get-value ...)` output into {smtname: Fraction|float|None}."""
    i = out.find("(")
    if i < 0:
        return {}
    try:
        sx = _parse_sexprs(out[i:])
    except Exception:
        return {}
    model = {}
    for top in sx:
        if isinstance(top, list):
            for pair in top:
                if isinstance(pair, list) and len(pair) == 2 and isinstance(pair[0], str):
                    model[pair[0]] = _val(pair[1])
    return model


def run_solver(text: str, timeout: float, solver: str = "z3"):
    """Returns (verdict, raw_output, seconds). verdict in sat/unsat/unknown/timeout/error."""
    t0 = time.time()
    if solver == "z3":
        cmd = [Z3, "-in", f"-T:{max(1, int(timeout))}", "pp.decimal=true", "pp.decimal_precision=30"]
    elif solver == "z3-new":
        cmd = [Z3NEW, "-in", f"-T:{max(1, int(timeout))}", "pp.decimal=true", "pp.decimal_precision=30"]
    elif solver == "cvc5":
        cmd = [CVC5, "--lang=smt2", f"--tlimit={int(timeout * 1000)}", "--produce-models"]
    else:
        raise ValueError(solver)
    try:
        p = subprocess.run(cmd, input=text, capture_output=True, text=True, timeout=timeout + 10)
        out = p.stdout + p.stderr
    except subprocess.TimeoutExpired:
        return "timeout", "", time.time() - t0
    dt = time.time() - t0
    first = out.strip().split("\n", 1)[0].strip() if out.strip() else ""
    if first == "unsat":
        return "unsat", out, dt
    if first == "sat":
        return "sat", out, dt
    if first == "unknown":
        return "unknown", out, dt
    if "timeout" in out:
        return "timeout", out, dt
    return "error", out, dt


def _cmd(solver, timeout):
    if solver == "z3":
        return [Z3, "-in", f"-T:{max(1, int(timeout))}", "pp.decimal=true", "pp.decimal_precision=30"]
    if solver == "z3-new":
        return [Z3NEW, "-in", f"-T:{max(1, int(timeout))}", "pp.decimal=true", "pp.decimal_precision=30"]
    if solver == "cvc5":
        return [CVC5, "--lang=smt2", f"--tlimit={int(timeout * 1000)}", "--produce-models"]
    raise ValueError(solver)


def _classify(out):
    first = out.strip().split("\n", 1)[0].strip() if out.strip() else ""
    if first in ("unsat", "sat", "unknown"):
        return first
    if "timeout" in out:
        return "timeout"
    return "error"


def race(jobs, timeout):
    """jobs: list of (tag, solver, text). Runs all concurrently; the first sat/unsat
    answer wins and the others are killed. Returns dict like solve_portfolio."""
    import tempfile

    t0 = time.time()
    procs = []
    for tag, solver, text in jobs:
        f = tempfile.TemporaryFile(mode="w+")
        f.write(text)
        f.seek(0)
        p = subprocess.Popen(_cmd(solver, timeout), stdin=f, stdout=subprocess.PIPE, stderr=subprocess.STDOUT, text=True)
        procs.append([tag, p, f, None])
    log = []
    winner = None
    deadline = t0 + timeout + 5
    pending = len(procs)
    while pending and winner is None:
        for rec in procs:
            tag, p, f, res = rec
            if res is not None:
                continue
            rc = p.poll()
            if rc is None:
                continue
            out = p.stdout.read()
            v = _classify(out)
            rec[3] = (v, out)
            pending -= 1
            log.append((tag, v, round(time.time() - t0, 3)))
            if v in ("sat", "unsat") and winner is None:
                winner = (tag, v, out)
        if winner is None and pending:
            if time.time() > deadline:
                break
            time.sleep(0.02)
    for tag, p, f, res in procs:
        if res is None:
            try:
                p.kill()
                p.wait(timeout=5)
            except Exception:  # noqa: BLE001
                pass
            log.append((tag, "killed" if winner else "timeout", round(time.time() - t0, 3)))
        try:
            f.close()
            p.stdout.close()
        except Exception:  # noqa: BLE001
            pass
    dt = time.time() - t0
    if winner:
        return {"verdict": winner[1], "solver": winner[0], "out": winner[2], "seconds": dt, "log": log}
    verdicts = [r[3][0] for r in procs if r[3] is not None]
    v = "unknown" if "unknown" in verdicts else "timeout" if (not verdicts or "timeout" in verdicts) else verdicts[0]
    outs = "\n".join(f"[{r[0]}] {r[3][1][:600]}" for r in procs if r[3] is not None)
    return {"verdict": v, "solver": None, "out": outs, "seconds": dt, "log": log}


def solve_portfolio(text: str, timeout: float, solvers=("z3", "z3-new", "cvc5")):
    """Try solvers in order until one decides. Returns dict."""
    log = []
    total = 0.0
    for s in solvers:
        if s in ("z3-new", "cvc5") and "QF_UFNRA" in text[:40] and s == "cvc5":
            pass
        v, out, dt = run_solver(text, timeout if s == "z3" else min(timeout, 30 if s == "z3-new" else 20), s)
        total += dt
        log.append((s, v, round(dt, 3)))
        if v in ("sat", "unsat"):
            return {"verdict": v, "solver": s, "out": out, "seconds": total, "log": log}
    return {"verdict": log[-1][1] if log else "error", "solver": None, "out": out, "seconds": total, "log": log}


def solve_many(texts, timeout, jobs=None, solvers=("z3", "z3-new", "cvc5")):
    jobs = jobs or os.cpu_count() or 4
    with ThreadPoolExecutor(max_workers=jobs) as ex:
        return list(ex.map(lambda t: solve_portfolio(t, timeout, solvers), texts))
