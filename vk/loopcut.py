"""Loop cutting: an unbounded loop of a REAL function is replaced, by a mechanical
AST rewrite of the function's current source, with

    entry     : run the code before the loop, hand the state to the contract (Inv must hold), stop
    iter      : havoc every variable assigned in the loop, assume Inv, run the body ONCE on an
                arbitrary element (or, if the contract asks for it, a stated number of consecutive
                rounds - used for frame obligations "what round n stored is not touched by round n+1");
                at each back edge (end of body / `continue`) hand the state to the contract (Inv must
                hold again), after the last one stop; `break`, `return`, `raise` leave the loop
                with Python's own semantics and the rest of the function runs
    exhausted : havoc, assume Inv, bind the loop target to the last element, run `else:` and the rest

The rewritten FunctionDef is compiled in the original function's globals (closures and
defaults are re-attached), so everything except the back edge is the repository's code.
What is dropped: the back edge only.  Termination is not proved.

Loops are addressed by ordinal in source order inside the function (nested functions
are not entered).
"""

from __future__ import annotations

import ast
import copy
import hashlib
import inspect
import textwrap
import types


class Stop(Exception):
    """Raised by the rewritten code when the cut path ends (entry / back edge)."""


class _FindLoops(ast.NodeVisitor):
    def __init__(self):
        self.loops = []

    def visit_FunctionDef(self, node):
        if getattr(self, "_top", None) is None:
            self._top = node
            self.generic_visit(node)

    visit_AsyncFunctionDef = visit_FunctionDef

    def visit_Lambda(self, node):
        pass

    def visit_For(self, node):
        self.loops.append(node)
        self.generic_visit(node)

    def visit_While(self, node):
        self.loops.append(node)
        self.generic_visit(node)


class _Stores(ast.NodeVisitor):
    def __init__(self):
        self.names = []

    def visit_FunctionDef(self, node):
        self.names.append(node.name)

    def visit_Lambda(self, node):
        pass

    def visit_Name(self, node):
        if isinstance(node.ctx, (ast.Store, ast.Del)) and node.id not in self.names:
            self.names.append(node.id)

    def visit_ListComp(self, node):
        pass

    visit_SetComp = visit_DictComp = visit_GeneratorExp = visit_ListComp


class _ReplaceContinue(ast.NodeTransformer):
    """`continue` belonging to the cut loop -> back edge."""

    def visit_For(self, node):
        return node  # inner loops keep their own continue

    visit_While = visit_For

    def visit_FunctionDef(self, node):
        return node

    def visit_Continue(self, node):
        return ast.parse("__vk.back_edge(locals())\ncontinue").body


def _stmts(src):
    return ast.parse(textwrap.dedent(src)).body


def cut(fn, loop=0):
    """Returns (runner, info). runner(helper, *args, **kw) executes the rewritten function."""
    target = fn.__func__ if isinstance(fn, types.MethodType) else fn
    src = textwrap.dedent(inspect.getsource(target))
    tree = ast.parse(src)
    fdef = tree.body[0]
    fdef.decorator_list = []
    finder = _FindLoops()
    finder.visit(fdef)
    if loop >= len(finder.loops):
        raise ValueError(f"{target.__qualname__}: loop ordinal {loop} not found ({len(finder.loops)} loops)")
    node = finder.loops[loop]
    st = _Stores()
    for s in node.body:
        st.visit(s)
    if isinstance(node, ast.For):
        st.visit(node.target)
    carried = list(st.names)

    body = [_ReplaceContinue().visit(copy.deepcopy(s)) for s in node.body]
    flat = []
    for b in body:
        flat.extend(b if isinstance(b, list) else [b])
    back = _stmts("__vk.back_edge(locals())")
    stop = _stmts("raise __vk.Stop()")  # else-clause of the cut loop: every requested round reached its back edge

    new = []
    if isinstance(node, ast.For):
        it_assign = ast.Assign(targets=[ast.Name(id="__vk_it", ctx=ast.Store())], value=node.iter)
        new.append(it_assign)
    new += _stmts('if __vk.mode == "entry":\n    __vk.at_entry(locals())\n    raise __vk.Stop()')
    for name in carried:
        new += _stmts(f"try:\n    {name} = __vk.havoc({name!r}, {name})\nexcept NameError:\n    {name} = __vk.havoc({name!r}, None)")
    new += _stmts("__vk.assume_inv(locals())")
    if isinstance(node, ast.For):
        one = ast.For(target=copy.deepcopy(node.target), iter=ast.parse("__vk.one(__vk_it)").body[0].value, body=flat + back, orelse=stop, type_comment=None)
        ifnode = ast.If(test=ast.parse('__vk.mode == "iter"').body[0].value, body=[one], orelse=[])
        last = ast.Assign(targets=[copy.deepcopy(node.target)], value=ast.parse("__vk.last(__vk_it)").body[0].value)
        ifnode.orelse = [last] + copy.deepcopy(node.orelse)
        new.append(ifnode)
    else:
        cond_t = ast.Expr(value=ast.Call(func=ast.parse("__vk.assume_cond").body[0].value, args=[copy.deepcopy(node.test), ast.Constant(True)], keywords=[]))
        cond_f = ast.Expr(value=ast.Call(func=ast.parse("__vk.assume_cond").body[0].value, args=[copy.deepcopy(node.test), ast.Constant(False)], keywords=[]))
        one = ast.For(target=ast.Name(id="__vk_once", ctx=ast.Store()), iter=ast.parse("__vk.rounds()").body[0].value, body=[cond_t] + flat + back, orelse=stop, type_comment=None)
        ifnode = ast.If(test=ast.parse('__vk.mode == "iter"').body[0].value, body=[one], orelse=[cond_f] + copy.deepcopy(node.orelse))
        new.append(ifnode)

    class _Swap(ast.NodeTransformer):
        def generic_visit(self, n):
            for field, old in ast.iter_fields(n):
                if isinstance(old, list):
                    out = []
                    for v in old:
                        if v is node:
                            out.extend(new)
                        elif isinstance(v, ast.AST):
                            out.append(self.visit(v))
                        else:
                            out.append(v)
                    setattr(n, field, out)
                elif isinstance(old, ast.AST):
                    setattr(n, field, self.visit(old))
            return n

    _Swap().visit(fdef)
    # helper passed as first extra keyword-only parameter
    fdef.args.kwonlyargs.append(ast.arg(arg="__vk"))
    fdef.args.kw_defaults.append(ast.Constant(None))
    fdef.name = target.__name__ + "__cut"
    ast.fix_missing_locations(tree)
    new_src = ast.unparse(tree)
    code = compile(tree, filename=f"<loopcut {target.__qualname__}>", mode="exec")
    glb = target.__globals__
    ns = {}
    # free variables of the original (closures) are provided as globals of a shallow copy
    if target.__closure__:
        glb = dict(glb)
        for name, cell in zip(target.__code__.co_freevars, target.__closure__):
            try:
                glb[name] = cell.cell_contents
            except ValueError:
                pass
    exec(code, glb, ns)
    newf = ns[fdef.name]
    newf.__defaults__ = target.__defaults__
    if target.__kwdefaults__:
        kw = dict(target.__kwdefaults__)
        kw["__vk"] = None
        newf.__kwdefaults__ = kw
    info = {
        "function": f"{target.__module__}.{target.__qualname__}",
        "loop": loop,
        "loop_kind": type(node).__name__,
        "loop_line": node.lineno,
        "carried": carried,
        "source_sha": hashlib.sha256(src.encode()).hexdigest()[:16],
        "transformed_source_sha": hashlib.sha256(new_src.encode()).hexdigest()[:16],
    }

    def runner(helper, *args, **kw):
        kw["__vk"] = helper
        if isinstance(fn, types.MethodType):
            return newf(fn.__self__, *args, **kw)
        return newf(*args, **kw)

    runner.info = info
    runner.source = new_src
    return runner


class Helper:
    """Base class of the per-contract loop helper (contracts override the hooks)."""

    Stop = Stop

    def __init__(self, mode):
        self.mode = mode  # "entry" | "iter" | "exhausted"

    def at_entry(self, loc):
        pass

    def havoc(self, name, old):
        return old

    def assume_inv(self, loc):
        pass

    def back_edge(self, loc):
        pass

    def one(self, it):
        """for-loops: the elements the cut body is run on (default: one arbitrary element)"""
        return (self.element(it),)

    def rounds(self):
        """while-loops: how many consecutive rounds of the body are run from the havocked state (default one);
        the loop condition is assumed before each round, the back edge is handed to the contract after each"""
        return (0,)

    def element(self, it):
        raise NotImplementedError

    def last(self, it):
        raise NotImplementedError

    def assume_cond(self, cond, value):
        raise NotImplementedError
