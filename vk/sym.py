"""Symbolic reals for symbolic native execution of the real cardillo code.

`Sym` is a hash-consed term DAG over the reals:

    c   rational constant                 a = Fraction
    v   variable                          a = name
    f   function atom with declared partial derivatives (contract atoms)
                                          a = name ; PARTIALS[uid] = {var Sym: Sym}
    +   c0 + sum coef_i * t_i             a = (Fraction, ((Fraction, Sym), ...))
    *   prod base_i ** e_i  (e_i in Z\\{0}; negative = division)
                                          a = ((Sym, int), ...)
    sqrt sin cos tan acos atan            a = (Sym,)
    uf  uninterpreted function (opaque callee result component)
                                          a = (name, (Sym args...))

Comparisons give `SymBool`s; `bool(SymBool)` asks the active path oracle
(vk.paths).  Divisions, square roots and arccos arguments are *logged* at the
moment the real code executes them, so that safety obligations survive any
algebraic simplification done here.

Trusted: the simplifier (like terms, constant folding, sqrt(x)^2 = x,
sin/cos(acos x)), the differentiator `jvp` and the float evaluator `evalf`;
all three are cross-checked numerically on every run by vk.kit (exit 3 on
disagreement).
"""

from __future__ import annotations

import math
import sys
from fractions import Fraction

import numpy as np

sys.setrecursionlimit(100000)

_TABLE: dict = {}
_UID = [0]
PARTIALS: dict = {}  # uid of 'f' atom -> {var Sym: Sym}
ORACLE = [None]  # active path oracle (vk.paths.PathRun) or None


class KitError(Exception):
    """The kit cannot handle something (never a property verdict)."""


def _coerce(x):
    if isinstance(x, Sym):
        return x
    if isinstance(x, bool):
        return const(int(x))
    if isinstance(x, (int, Fraction)):
        return const(x)
    if isinstance(x, float):
        if x != x or x in (math.inf, -math.inf):
            raise KitError("non-finite float constant in symbolic run")
        return const(Fraction(x))
    if isinstance(x, np.integer):
        return const(int(x))
    if isinstance(x, np.floating):
        return const(Fraction(float(x)))
    if isinstance(x, np.bool_):
        return const(int(x))
    if isinstance(x, np.ndarray) and x.ndim == 0:
        return _coerce(x.item())
    return None


def _mk(op, key, a):
    k = (op, key)
    s = _TABLE.get(k)
    if s is None:
        s = object.__new__(Sym)
        s.op = op
        s.a = a
        _UID[0] += 1
        s.uid = _UID[0]
        _TABLE[k] = s
    return s


def const(x) -> "Sym":
    x = Fraction(x)
    return _mk("c", x, x)


def var(name: str) -> "Sym":
    return _mk("v", name, name)


def fatom(name: str, partials=None) -> "Sym":
    s = _mk("f", name, name)
    if partials is not None:
        PARTIALS[s.uid] = dict(partials)
    else:
        PARTIALS.setdefault(s.uid, {})
    return s


def uf(name: str, args) -> "Sym":
    args = tuple(_coerce(a) for a in args)
    return _mk("uf", (name, tuple(a.uid for a in args)), (name, args))


def _add(items):
    """items: iterable of (Fraction, Sym)."""
    c0 = Fraction(0)
    acc: dict = {}
    for coef, t in items:
        if coef == 0:
            continue
        if t.op == "c":
            c0 += coef * t.a
        elif t.op == "+":
            c0 += coef * t.a[0]
            for c2, t2 in t.a[1]:
                acc[t2] = acc.get(t2, 0) + coef * c2
        else:
            acc[t] = acc.get(t, 0) + coef
    terms = [(c, t) for t, c in acc.items() if c != 0]
    if not terms:
        return const(c0)
    if c0 == 0 and len(terms) == 1 and terms[0][0] == 1:
        return terms[0][1]
    terms.sort(key=lambda ct: ct[1].uid)
    terms = tuple(terms)
    return _mk("+", (c0, tuple((c, t.uid) for c, t in terms)), (c0, terms))


def _mul(factors):
    """factors: iterable of (Sym, int)."""
    coef = Fraction(1)
    acc: dict = {}
    stack = list(factors)
    while stack:
        b, e = stack.pop()
        if e == 0:
            continue
        if b.op == "c":
            if b.a == 0:
                if e < 0:
                    raise ZeroDivisionError("symbolic division by literal zero")
                return ZERO
            coef *= b.a**e
        elif b.op == "*":
            for b2, e2 in b.a:
                stack.append((b2, e2 * e))
        elif b.op == "+" and b.a[0] == 0 and len(b.a[1]) == 1:
            c2, t2 = b.a[1][0]
            coef *= c2**e
            stack.append((t2, e))
        else:
            acc[b] = acc.get(b, 0) + e
    # sqrt(x)^(2k) = x^k   (x >= 0 is a logged safety obligation of the sqrt)
    changed = True
    while changed:
        changed = False
        for b in list(acc):
            e = acc.get(b, 0)
            if b.op == "sqrt" and (e >= 2 or e <= -2):
                k = e // 2 if e > 0 else -((-e) // 2)
                r = e - 2 * k
                if r:
                    acc[b] = r
                else:
                    del acc[b]
                inner = b.a[0]
                sub = _mul([(inner, k)])
                # merge sub back
                if sub.op == "c":
                    coef *= sub.a
                else:
                    if sub.op == "+" and sub.a[0] == 0 and len(sub.a[1]) == 1:
                        coef *= sub.a[1][0][0]
                        sub = sub.a[1][0][1]
                    if sub.op == "*":
                        for b2, e2 in sub.a:
                            acc[b2] = acc.get(b2, 0) + e2
                    else:
                        acc[sub] = acc.get(sub, 0) + 1
                changed = True
                break
    fs = [(b, e) for b, e in acc.items() if e != 0]
    if coef == 0:
        return ZERO
    if not fs:
        return const(coef)
    if len(fs) == 1 and fs[0][1] == 1:
        prod = fs[0][0]
    else:
        fs.sort(key=lambda be: be[0].uid)
        fs = tuple(fs)
        prod = _mk("*", tuple((b.uid, e) for b, e in fs), fs)
    if coef == 1:
        return prod
    return _add([(coef, prod)])


def _log(kind, term):
    o = ORACLE[0]
    if o is not None:
        o.log_safety(kind, term)


class Sym:
    __slots__ = ("op", "a", "uid")

    def __init__(self, *a, **k):
        raise TypeError("use const/var")

    def __hash__(self):
        return self.uid

    # ---- arithmetic
    def __add__(self, o):
        o = _coerce(o)
        if o is None:
            return NotImplemented
        return _add([(Fraction(1), self), (Fraction(1), o)])

    __radd__ = __add__

    def __sub__(self, o):
        o = _coerce(o)
        if o is None:
            return NotImplemented
        return _add([(Fraction(1), self), (Fraction(-1), o)])

    def __rsub__(self, o):
        o = _coerce(o)
        if o is None:
            return NotImplemented
        return _add([(Fraction(-1), self), (Fraction(1), o)])

    def __neg__(self):
        return _add([(Fraction(-1), self)])

    def __pos__(self):
        return self

    def __mul__(self, o):
        o = _coerce(o)
        if o is None:
            return NotImplemented
        return _mul([(self, 1), (o, 1)])

    __rmul__ = __mul__

    def __truediv__(self, o):
        o = _coerce(o)
        if o is None:
            return NotImplemented
        _log("div", o)
        return _mul([(self, 1), (o, -1)])

    def __rtruediv__(self, o):
        o = _coerce(o)
        if o is None:
            return NotImplemented
        _log("div", self)
        return _mul([(o, 1), (self, -1)])

    def __pow__(self, e):
        if isinstance(e, Sym):
            if e.op != "c":
                raise KitError("symbolic exponent")
            e = e.a
        if isinstance(e, (float, np.floating)):
            e = Fraction(float(e))
        if isinstance(e, np.integer):
            e = int(e)
        e = Fraction(e)
        if e.denominator == 1:
            e = int(e)
            if e < 0:
                _log("div", self)
            return _mul([(self, e)])
        if e.denominator == 2:
            r = sqrt(self)
            n = e.numerator
            if n < 0:
                _log("div", self)
            return _mul([(r, n)])
        raise KitError(f"unsupported exponent {e}")

    def __abs__(self):
        return self if self >= 0 else -self

    # ---- numpy ufunc dispatch for object arrays
    def sqrt(self):
        return sqrt(self)

    def sin(self):
        return sin(self)

    def cos(self):
        return cos(self)

    def tan(self):
        return tan(self)

    def arccos(self):
        return acos(self)

    def arctan(self):
        return atan(self)

    def conjugate(self):
        return self

    @property
    def real(self):
        return self

    @property
    def imag(self):
        return ZERO

    # ---- comparisons
    def __lt__(self, o):
        o = _coerce(o)
        if o is None:
            return NotImplemented
        return _cmp("lt", self - o)

    def __le__(self, o):
        o = _coerce(o)
        if o is None:
            return NotImplemented
        return _cmp("le", self - o)

    def __gt__(self, o):
        o = _coerce(o)
        if o is None:
            return NotImplemented
        return _cmp("lt", o - self)

    def __ge__(self, o):
        o = _coerce(o)
        if o is None:
            return NotImplemented
        return _cmp("le", o - self)

    def __eq__(self, o):
        o = _coerce(o)
        if o is None:
            return NotImplemented
        return _cmp("eq", self - o)

    def __ne__(self, o):
        o = _coerce(o)
        if o is None:
            return NotImplemented
        return ~_cmp("eq", self - o)

    def __bool__(self):
        return bool(self != 0)

    def __float__(self):
        if self.op == "c":
            return float(self.a)
        raise KitError("float() of a symbolic value (numpy float allocation leaked past the shim?)")

    def __int__(self):
        if self.op == "c" and self.a.denominator == 1:
            return int(self.a)
        raise KitError("int() of a symbolic value")

    def __repr__(self):
        return show(self, 200)

    def __format__(self, spec):
        return show(self, 60)


ZERO = const(0)
ONE = const(1)


# ----------------------------------------------------------------- functions
def sqrt(x):
    x = _coerce(x)
    _log("sqrt", x)
    if x.op == "c":
        if x.a < 0:
            raise ValueError("sqrt of negative constant")
        n, d = x.a.numerator, x.a.denominator
        rn, rd = math.isqrt(n), math.isqrt(d)
        if rn * rn == n and rd * rd == d:
            return const(Fraction(rn, rd))
    # sqrt(a * b^e) = sqrt(a) * sqrt(b)^e  for factors b that are syntactically
    # non-negative (sums of squares, sqrt nodes): then a*b^e >= 0 (logged above)
    # and b != 0 (logged by the division) give a >= 0, so the split is exact.
    coef = Fraction(1)
    body = x
    if x.op == "+" and x.a[0] == 0 and len(x.a[1]) == 1 and x.a[1][0][0] > 0:
        coef, body = x.a[1][0]
    if body.op == "*":
        pos = [(b, e) for b, e in body.a if _nonneg_syntactic(b)]
        rest = [(b, e) for b, e in body.a if not _nonneg_syntactic(b)]
        if pos and (rest or coef != 1 or len(pos) > 1):
            saved = ORACLE[0]
            ORACLE[0] = None
            try:
                inner = _mul(rest) * coef if (rest or coef != 1) else ONE
                r = sqrt(inner) if inner is not ONE else ONE
                out = [(r, 1)]
                for b, e in pos:
                    if b.op == "sqrt":
                        out.append((_mk("sqrt", b.uid, (b,)), e))
                    else:
                        out.append((_mk("sqrt", b.uid, (b,)), e))
                return _mul(out)
            finally:
                ORACLE[0] = saved
    return _mk("sqrt", x.uid, (x,))


def _nonneg_syntactic(t):
    """Conservative: True only for terms that are >= 0 for all real values."""
    op = t.op
    if op == "c":
        return t.a >= 0
    if op == "sqrt":
        return True
    if op == "*":
        return all(e % 2 == 0 or _nonneg_syntactic(b) for b, e in t.a)
    if op == "+":
        return t.a[0] >= 0 and all(c > 0 and _nonneg_syntactic(x) for c, x in t.a[1])
    return False


def sin(x):
    x = _coerce(x)
    if x.op == "c" and x.a == 0:
        return ZERO
    if x.op == "acos":
        return sqrt(1 - x.a[0] * x.a[0])
    return _mk("sin", x.uid, (x,))


def cos(x):
    x = _coerce(x)
    if x.op == "c" and x.a == 0:
        return ONE
    if x.op == "acos":
        return x.a[0]
    return _mk("cos", x.uid, (x,))


def tan(x):
    x = _coerce(x)
    if x.op == "c" and x.a == 0:
        return ZERO
    _log("div", cos(x))
    return _mk("tan", x.uid, (x,))


PI = var("pi")


def acos(x):
    x = _coerce(x)
    _log("acos", x)
    if x.op == "c":
        if x.a == 1:
            return ZERO
        if x.a == -1:
            return PI
        if x.a == 0:
            return PI / 2
    return _mk("acos", x.uid, (x,))


def atan(x):
    x = _coerce(x)
    if x.op == "c" and x.a == 0:
        return ZERO
    return _mk("atan", x.uid, (x,))


# ------------------------------------------------------------------ booleans
_BTABLE: dict = {}


class SymBool:
    """op: 'lt' (a<0), 'le' (a<=0), 'eq' (a==0), 'not', 'and', 'or', 'T', 'F',
    'bv' (free boolean variable)."""

    __slots__ = ("op", "a", "uid")

    def __init__(self, *a):
        raise TypeError

    def __hash__(self):
        return self.uid

    def __bool__(self):
        if self.op == "T":
            return True
        if self.op == "F":
            return False
        o = ORACLE[0]
        if o is None:
            raise KitError(f"branch on symbolic condition outside a path run: {self!r}")
        return o.decide(self)

    def __invert__(self):
        if self.op == "T":
            return FALSE
        if self.op == "F":
            return TRUE
        if self.op == "not":
            return self.a[0]
        return _mkb("not", self.uid, (self,))

    def __and__(self, o):
        o = _cb(o)
        if self.op == "F" or o.op == "F":
            return FALSE
        if self.op == "T":
            return o
        if o.op == "T":
            return self
        return _mkb("and", (self.uid, o.uid), (self, o))

    __rand__ = __and__

    def __or__(self, o):
        o = _cb(o)
        if self.op == "T" or o.op == "T":
            return TRUE
        if self.op == "F":
            return o
        if o.op == "F":
            return self
        return _mkb("or", (self.uid, o.uid), (self, o))

    __ror__ = __or__

    def implies(self, o):
        return (~self) | _cb(o)

    def __mul__(self, o):
        # numpy semantics of bool * x: logical and for booleans, x-or-zero for numbers (forks the path)
        if isinstance(o, (SymBool, bool, np.bool_)):
            return self & o
        if isinstance(o, np.ndarray):
            return NotImplemented
        return o if bool(self) else (ZERO if isinstance(o, Sym) else type(o)(0))

    __rmul__ = __mul__

    def __eq__(self, o):
        return self is o

    def __ne__(self, o):
        return self is not o

    def __repr__(self):
        return showb(self, 300)


def _mkb(op, key, a):
    k = (op, key)
    s = _BTABLE.get(k)
    if s is None:
        s = object.__new__(SymBool)
        s.op = op
        s.a = a
        _UID[0] += 1
        s.uid = _UID[0]
        _BTABLE[k] = s
    return s


TRUE = _mkb("T", None, ())
FALSE = _mkb("F", None, ())


def boolvar(name):
    return _mkb("bv", name, (name,))


def _cb(x):
    if isinstance(x, SymBool):
        return x
    if isinstance(x, (bool, np.bool_)):
        return TRUE if x else FALSE
    raise KitError(f"not a boolean: {x!r}")


def _cmp(op, d: Sym):
    if d.op == "c":
        v = d.a
        r = (v < 0) if op == "lt" else (v <= 0) if op == "le" else (v == 0)
        return TRUE if r else FALSE
    # normalise sign for eq so that x==y and y==x coincide
    if op == "eq" and d.op == "+" and d.a[1] and d.a[1][0][0] < 0:
        d = -d
    return _mkb(op, d.uid, (d,))


def conj(bs):
    r = TRUE
    for b in bs:
        r = r & _cb(b)
    return r


# --------------------------------------------------------------- derivative
def jvp(t: Sym, tang: dict, memo=None) -> Sym:
    """Directional derivative of t for variable tangents `tang` {var: Sym}.
    Function atoms ('f') use their declared partials; 'uf' nodes are constant
    unless listed in tang themselves."""
    if memo is None:
        memo = {}
    return _jvp(_coerce(t), tang, memo)


def _jvp(t, tang, memo):
    r = memo.get(t)
    if r is not None:
        return r
    op = t.op
    if t in tang:
        r = _coerce(tang[t])
    elif op == "c" or op == "v" or op == "uf":
        r = ZERO
    elif op == "f":
        items = []
        P = PARTIALS.get(t.uid, {})
        if isinstance(P, dict):
            for v, p in P.items():
                dv = _jvp(v, tang, memo)
                if dv is not ZERO:
                    items.append((Fraction(1), _mul([(p, 1), (dv, 1)])))
        else:  # lazily generated jet atoms (contracts/subsys.py)
            for v in P.deps:
                dv = _jvp(v, tang, memo)
                if dv is not ZERO:
                    items.append((Fraction(1), _mul([(P.partial(v), 1), (dv, 1)])))
        r = _add(items)
    elif op == "+":
        r = _add([(c, _jvp(s, tang, memo)) for c, s in t.a[1]])
    elif op == "*":
        items = []
        for i, (b, e) in enumerate(t.a):
            db = _jvp(b, tang, memo)
            if db is ZERO:
                continue
            rest = [(b2, e2) for j, (b2, e2) in enumerate(t.a) if j != i]
            items.append((Fraction(e), _mul(rest + [(b, e - 1), (db, 1)])))
        r = _add(items)
    else:
        x = t.a[0]
        dx = _jvp(x, tang, memo)
        if dx is ZERO:
            r = ZERO
        elif op == "sqrt":
            r = _mul([(dx, 1), (t, -1)]) * Fraction(1, 2)
        elif op == "sin":
            r = cos(x) * dx
        elif op == "cos":
            r = -(sin(x) * dx)
        elif op == "tan":
            r = (1 + t * t) * dx
        elif op == "acos":
            r = -_mul([(dx, 1), (sqrt(1 - x * x), -1)])
        elif op == "atan":
            r = _mul([(dx, 1), (1 + x * x, -1)])
        else:
            raise KitError(f"jvp: op {op}")
    memo[t] = r
    return r


def diff(t, x: Sym) -> Sym:
    return jvp(t, {x: ONE})


# ------------------------------------------------------------- evaluation
def evalf(t, env: dict, memo=None):
    """Float evaluation. env: {Sym var/atom/uf: float}."""
    if memo is None:
        memo = {}
    return _evalf(_coerce(t), env, memo)


def _evalf(t, env, memo):
    r = memo.get(t)
    if r is not None:
        return r
    op = t.op
    if op == "c":
        r = float(t.a)
    elif op in ("v", "f", "uf"):
        if t in env:
            r = float(env[t])
        elif t is PI:
            r = math.pi
        else:
            raise KeyError(f"no value for {t!r}")
    elif op == "+":
        r = float(t.a[0])
        for c, s in t.a[1]:
            r += float(c) * _evalf(s, env, memo)
    elif op == "*":
        r = 1.0
        for b, e in t.a:
            r *= _evalf(b, env, memo) ** e
    else:
        x = _evalf(t.a[0], env, memo)
        if op == "sqrt":
            r = math.sqrt(x) if x > 0 else 0.0 if x > -1e-12 else float("nan")
        elif op == "sin":
            r = math.sin(x)
        elif op == "cos":
            r = math.cos(x)
        elif op == "tan":
            r = math.tan(x)
        elif op == "acos":
            r = math.acos(max(-1.0, min(1.0, x)))
        elif op == "atan":
            r = math.atan(x)
        else:
            raise KitError(op)
    memo[t] = r
    return r


def evalb(b: SymBool, env, tol=0.0, memo=None):
    if memo is None:
        memo = {}
    op = b.op
    if op == "T":
        return True
    if op == "F":
        return False
    if op == "bv":
        return bool(env[b])
    if op == "not":
        return not evalb(b.a[0], env, -tol, memo)
    if op == "and":
        return evalb(b.a[0], env, tol, memo) and evalb(b.a[1], env, tol, memo)
    if op == "or":
        return evalb(b.a[0], env, tol, memo) or evalb(b.a[1], env, tol, memo)
    v = _evalf(b.a[0], env, memo)
    if op == "lt":
        return v < tol
    if op == "le":
        return v <= tol
    if op == "eq":
        return abs(v) <= abs(tol)
    raise KitError(op)


# ------------------------------------------------- clearing of denominators
def numden(t, memo=None):
    """t == num / prod(base^e for base,e in den.items()), num and bases free of
    negative exponents at polynomial level (sqrt/trig/uf nodes are opaque atoms).
    Sound wherever every base is nonzero (the logged safe-div obligations)."""
    if memo is None:
        memo = {}
    return _numden(_coerce(t), memo)


def _den_mul(d1, d2):
    out = dict(d1)
    for b, e in d2.items():
        out[b] = out.get(b, 0) + e
    return out


def _den_term(d):
    return _mul(list(d.items())) if d else ONE


def _numden(t, memo):
    r = memo.get(t)
    if r is not None:
        return r
    op = t.op
    if op == "*":
        num = [ONE]
        den = {}
        nums = []
        for b, e in t.a:
            nb, db = _numden(b, memo)
            if e > 0:
                nums.append((nb, e))
                for bb, ee in db.items():
                    den[bb] = den.get(bb, 0) + ee * e
            else:
                k = -e
                # 1 / (nb/prod db)^k = prod db^k / nb^k
                for bb, ee in db.items():
                    nums.append((bb, ee * k))
                # split nb into factors
                stack = [(nb, k)]
                while stack:
                    x, kk = stack.pop()
                    if x.op == "*":
                        for b2, e2 in x.a:
                            stack.append((b2, e2 * kk))
                    elif x.op == "+" and x.a[0] == 0 and len(x.a[1]) == 1:
                        c2, t2 = x.a[1][0]
                        nums.append((const(Fraction(1) / c2), kk))
                        stack.append((t2, kk))
                    elif x.op == "c":
                        nums.append((const(Fraction(1) / x.a), kk))
                    else:
                        den[x] = den.get(x, 0) + kk
        n = _mul(nums)
        # cancel common factors between numerator product and denominator
        r = (n, {b: e for b, e in den.items() if e})
    elif op == "+":
        parts = [(c, _numden(x, memo)) for c, x in t.a[1]]
        lcd = {}
        for _, (_, d) in parts:
            for b, e in d.items():
                if lcd.get(b, 0) < e:
                    lcd[b] = e
        items = [(Fraction(1), _mul([(const(t.a[0]), 1)] + list(lcd.items())))] if t.a[0] != 0 else []
        for c, (n, d) in parts:
            rest = [(b, e - d.get(b, 0)) for b, e in lcd.items() if e - d.get(b, 0)]
            items.append((c, _mul([(n, 1)] + rest)))
        r = (_add(items), lcd)
    else:
        r = (t, {})
    memo[t] = r
    return r


def has_division(t):
    seen = set()
    stack = [t]
    while stack:
        x = stack.pop()
        if x in seen:
            continue
        seen.add(x)
        if x.op == "*":
            for b, e in x.a:
                if e < 0:
                    return True
                stack.append(b)
        elif x.op == "+":
            stack.extend(y for _, y in x.a[1])
    return False


# ------------------------------------------------------------- substitution
def substitute(t, mapping: dict, memo=None):
    """Replace sub-terms (keys of mapping, matched by identity, outermost first)."""
    if memo is None:
        memo = {}
    return _subst(_coerce(t), mapping, memo)


def _subst(t, mp, memo):
    r = memo.get(t)
    if r is not None:
        return r
    if t in mp:
        r = _coerce(mp[t])
    else:
        op = t.op
        if op in ("c", "v", "f"):
            r = t
        elif op == "uf":
            r = uf(t.a[0], [_subst(x, mp, memo) for x in t.a[1]])
        elif op == "+":
            r = _add([(Fraction(1), const(t.a[0]))] + [(c, _subst(x, mp, memo)) for c, x in t.a[1]])
        elif op == "*":
            r = _mul([(_subst(b, mp, memo), e) for b, e in t.a])
        else:
            x = _subst(t.a[0], mp, memo)
            saved = ORACLE[0]
            ORACLE[0] = None
            try:
                r = {"sqrt": sqrt, "sin": sin, "cos": cos, "tan": tan, "acos": acos, "atan": atan}[op](x)
            finally:
                ORACLE[0] = saved
    memo[t] = r
    return r


def substitute_b(b, mapping, memo=None):
    if memo is None:
        memo = {}
    op = b.op
    if op in ("T", "F", "bv"):
        return b
    if op == "not":
        return ~substitute_b(b.a[0], mapping, memo)
    if op == "and":
        return substitute_b(b.a[0], mapping, memo) & substitute_b(b.a[1], mapping, memo)
    if op == "or":
        return substitute_b(b.a[0], mapping, memo) | substitute_b(b.a[1], mapping, memo)
    return _cmp(op, _subst(b.a[0], mapping, memo))


# ----------------------------------------------------------------- helpers
def free_atoms(ts, bools=()):
    """All v/f/uf leaves reachable from the Sym terms `ts` and SymBools."""
    seen = set()
    out = []
    stack = list(ts)
    bstack = list(bools)
    bseen = set()
    while bstack:
        b = bstack.pop()
        if b in bseen:
            continue
        bseen.add(b)
        if b.op in ("lt", "le", "eq"):
            stack.append(b.a[0])
        elif b.op in ("not", "and", "or"):
            bstack.extend(b.a)
    while stack:
        t = stack.pop()
        if t in seen:
            continue
        seen.add(t)
        op = t.op
        if op in ("v", "f"):
            out.append(t)
        elif op == "uf":
            out.append(t)
            stack.extend(t.a[1])
        elif op == "+":
            stack.extend(s for _, s in t.a[1])
        elif op == "*":
            stack.extend(b for b, _ in t.a)
        elif op != "c":
            stack.append(t.a[0])
    return out


def size(t: Sym) -> int:
    seen = set()
    stack = [t]
    while stack:
        s = stack.pop()
        if s in seen:
            continue
        seen.add(s)
        if s.op == "+":
            stack.extend(x for _, x in s.a[1])
        elif s.op == "*":
            stack.extend(b for b, _ in s.a)
        elif s.op == "uf":
            stack.extend(s.a[1])
        elif s.op not in ("c", "v", "f"):
            stack.append(s.a[0])
    return len(seen)


def show(t: Sym, limit=10**9) -> str:
    def go(t, d):
        if d > 6:
            return "…"
        op = t.op
        if op == "c":
            return str(t.a)
        if op in ("v", "f"):
            return t.a
        if op == "uf":
            return t.a[0] + "(" + ",".join(go(x, d + 1) for x in t.a[1]) + ")"
        if op == "+":
            parts = [] if t.a[0] == 0 else [str(t.a[0])]
            for c, s in t.a[1]:
                parts.append((f"{c}*" if c != 1 else "") + go(s, d + 1))
            return "(" + " + ".join(parts) + ")"
        if op == "*":
            return "*".join(go(b, d + 1) + (f"^{e}" if e != 1 else "") for b, e in t.a)
        return f"{op}({go(t.a[0], d + 1)})"

    s = go(t, 0)
    return s if len(s) <= limit else s[: limit - 1] + "…"


def showb(b: SymBool, limit=10**9) -> str:
    op = b.op
    if op in ("T", "F"):
        return op
    if op == "bv":
        return b.a[0]
    if op == "not":
        s = "!(" + showb(b.a[0]) + ")"
    elif op == "and":
        s = "(" + showb(b.a[0]) + " & " + showb(b.a[1]) + ")"
    elif op == "or":
        s = "(" + showb(b.a[0]) + " | " + showb(b.a[1]) + ")"
    else:
        s = show(b.a[0]) + {"lt": " < 0", "le": " <= 0", "eq": " == 0"}[op]
    return s if len(s) <= limit else s[: limit - 1] + "…"


def symarray(name, shape):
    """Object ndarray of fresh variables name_i_j…"""
    shape = (shape,) if isinstance(shape, int) else tuple(shape)
    a = np.empty(shape, dtype=object)
    for idx in np.ndindex(*shape):
        a[idx] = var(name + "".join(f"_{i}" for i in idx))
    return a


def as_symarray(x):
    """Coerce any array-like (floats, ints, Syms mixed) into an object array of Sym."""
    if isinstance(x, Sym):
        return x
    a = np.asarray(x, dtype=object) if not isinstance(x, np.ndarray) else x
    if a.ndim == 0:
        return _coerce(a.item())
    out = np.empty(a.shape, dtype=object)
    for idx in np.ndindex(*a.shape):
        c = _coerce(a[idx])
        if c is None:
            raise KitError(f"cannot coerce {a[idx]!r}")
        out[idx] = c
    return out


# ------------------------------------------------ canonical polynomial normal form
class ExpandLimit(Exception):
    pass


class Expander:
    """Canonical form of a division-free term as a polynomial over generators
    (variables, atoms, sqrt/trig nodes, reciprocals) with the reductions
    sqrt(x)^2 -> x and cos(x)^2 -> 1 - sin(x)^2.  A term whose normal form is
    the empty polynomial is identically zero (wherever its sqrt arguments are
    non-negative, which the logged safety obligations establish)."""

    def __init__(self, limit=400000):
        self.memo = {}
        self.gens = {}
        self.limit = limit
        self.work = 0

    def gen(self, t):
        self.gens[t.uid] = t
        return {((t.uid, 1),): Fraction(1)}

    def expand(self, t):
        r = self.memo.get(t)
        if r is not None:
            return r
        op = t.op
        if op == "c":
            r = {(): t.a} if t.a != 0 else {}
        elif op == "+":
            r = {}
            if t.a[0] != 0:
                r[()] = t.a[0]
            for c, x in t.a[1]:
                for m, v in self.expand(x).items():
                    nv = r.get(m, 0) + c * v
                    if nv == 0:
                        r.pop(m, None)
                    else:
                        r[m] = nv
        elif op == "*":
            r = {(): Fraction(1)}
            for b, e in t.a:
                if e > 0:
                    pb = self.expand(b)
                    for _ in range(e):
                        r = self.pmul(r, pb)
                else:
                    inv = _mul([(b, -1)])
                    pb = self.gen(inv)
                    for _ in range(-e):
                        r = self.pmul(r, pb)
        else:
            r = self.gen(t)
        self.memo[t] = r
        return r

    def pmul(self, p, q):
        if len(p) > len(q):
            p, q = q, p
        out = {}
        self.work += len(p) * len(q)
        if self.work > self.limit * 50:
            raise ExpandLimit()
        for m1, c1 in p.items():
            for m2, c2 in q.items():
                c = c1 * c2
                mono, extra = self.mmul(m1, m2)
                if extra is None:
                    nv = out.get(mono, 0) + c
                    if nv == 0:
                        out.pop(mono, None)
                    else:
                        out[mono] = nv
                else:
                    part = self.pmul({mono: c}, extra)
                    for m, v in part.items():
                        nv = out.get(m, 0) + v
                        if nv == 0:
                            out.pop(m, None)
                        else:
                            out[m] = nv
        if len(out) > self.limit:
            raise ExpandLimit()
        return out

    def mmul(self, m1, m2):
        if not m1:
            d = dict(m2)
        elif not m2:
            d = dict(m1)
        else:
            d = dict(m1)
            for g, e in m2:
                d[g] = d.get(g, 0) + e
        extra = None
        for g, e in list(d.items()):
            if e >= 2:
                t = self.gens[g]
                if t.op == "sqrt":
                    f = self.expand(t.a[0])
                elif t.op == "cos":
                    s = sin(t.a[0])
                    ps = self.expand(s)
                    f = self.padd({(): Fraction(1)}, self.pmul(ps, ps), -1)
                else:
                    continue
                k, rem = divmod(e, 2)
                if rem:
                    d[g] = 1
                else:
                    del d[g]
                for _ in range(k):
                    extra = f if extra is None else self.pmul(extra, f)
        mono = tuple(sorted(d.items()))
        return mono, extra

    @staticmethod
    def padd(p, q, cq=1):
        out = dict(p)
        for m, v in q.items():
            nv = out.get(m, 0) + cq * v
            if nv == 0:
                out.pop(m, None)
            else:
                out[m] = nv
        return out


def is_zero_nf(t, limit=400000):
    """True: normal form is 0. False: non-zero normal form. None: gave up."""
    try:
        num, _ = numden(t)
        ex = Expander(limit)
        saved = ORACLE[0]
        ORACLE[0] = None
        try:
            return len(ex.expand(num)) == 0
        finally:
            ORACLE[0] = saved
    except ExpandLimit:
        return None


def const_value_nf(t, limit=30000):
    """If the term is identically a rational constant (as a rational function of its
    generators, wherever its denominators are nonzero) return that Fraction, else None."""
    if t.op == "c":
        return t.a
    if size(t) > 6000:
        return None
    try:
        saved = ORACLE[0]
        ORACLE[0] = None
        try:
            num, den = numden(t)
            ex = Expander(limit)
            pn = ex.expand(num)
            if not pn:
                return Fraction(0)
            pd = ex.expand(_den_term(den))
        finally:
            ORACLE[0] = saved
        if len(pn) != len(pd):
            return None
        m0 = next(iter(pd))
        if m0 not in pn:
            return None
        c = pn[m0] / pd[m0]
        for m, v in pd.items():
            if pn.get(m) != c * v:
                return None
        return c
    except ExpandLimit:
        return None
