"""The verification kit: dual-mode contract execution.

A *contract* is a Python function `c(k)` that (1) declares symbolic inputs and
their `requires` (k.reals / k.assume), (2) calls the REAL cardillo functions,
(3) states `ensures` (k.prove_eq / k.prove_le / ...).  The same function is run

  * in **sym** mode: inputs are Sym variables, the real code runs on object
    arrays under the numpy shim, every branch on a symbolic condition forks
    (DFS re-execution, infeasible branches pruned by the solver), and each
    `prove_*` becomes SMT obligations `facts-so-far => goal`; every division,
    sqrt and arccos executed by the real code logs a safety obligation;
  * in **conc** mode: inputs are floats (random, or a solver model), the real
    code runs natively on real numpy, and each `prove_*` is evaluated in
    floating point.  This is the replay of counterexamples and the per-run
    cross-check of the symbolic machinery against native execution.
"""

from __future__ import annotations

import contextlib
import fnmatch
import hashlib
import inspect
import math
import traceback
from fractions import Fraction

import numpy as np

from . import npshim, smt
from . import sym as S


class Reject(Exception):
    """conc mode: the sampled point violates a `requires`."""


class PathInfeasible(Exception):
    pass


class KitInconsistent(Exception):
    """The kit disagrees with native execution (exit 3)."""


FEAS_TIMEOUT = 8.0


class Obligation:
    __slots__ = ("name", "facts", "goal", "kind", "show", "path", "label")

    def __init__(self, name, facts, goal, kind, show, path, label):
        self.name = name
        self.facts = facts
        self.goal = goal
        self.kind = kind
        self.show = show
        self.path = path
        self.label = label


class PathRun:
    """Path oracle for one symbolic execution (installed in S.ORACLE)."""

    def __init__(self, prefix, feas_cache, stats):
        self.prefix = tuple(prefix)
        self.taken = []
        self.alts = []
        self.memo = {}
        self.facts = []
        self.obligations = []
        self.seen_safety = set()
        self.feas_cache = feas_cache
        self.stats = stats
        self.raised = None
        self.records = []  # (label, lhs sym array, rhs sym array) for cross-check
        self.axioms = []
        self.safety_ctx = "real-code"
        self.n_trivial = 0
        self.exec_discharged = []  # obligations decided by path execution (raises)
        self.use_nf = True

    # -- path key
    def key(self):
        return "".join("T" if b else "F" for b in self.taken) or "-"

    def _feasible(self, lit):
        ck = (tuple(f.uid for f in self.facts), lit.uid)
        r = self.feas_cache.get(ck)
        if r is None:
            text, _ = smt.emit(self.facts + [lit], None, want_model=False)
            v, out, dt = smt.run_solver(text, FEAS_TIMEOUT, "z3")
            self.stats["feas_queries"] += 1
            self.stats["feas_seconds"] += dt
            if v == "error":
                raise S.KitError("feasibility query failed: " + out[:300])
            r = v != "unsat"  # unknown/timeout: keep the branch (over-approximation)
            if v in ("unknown", "timeout"):
                self.stats["feas_unknown"] += 1
            self.feas_cache[ck] = r
        return r

    def decide(self, cond):
        if cond in self.memo:
            return self.memo[cond]
        neg = ~cond
        if neg in self.memo:
            return not self.memo[neg]
        # cheap exact decision: the compared term may be identically constant
        if cond.op in ("lt", "le", "eq") and self.use_nf:
            cv = S.const_value_nf(cond.a[0])
            if cv is not None:
                val = (cv < 0) if cond.op == "lt" else (cv <= 0) if cond.op == "le" else (cv == 0)
                self.memo[cond] = val
                self.stats["nf_decisions"] = self.stats.get("nf_decisions", 0) + 1
                return val
        elif cond.op == "not" and cond.a[0].op in ("lt", "le", "eq") and self.use_nf:
            inner = cond.a[0]
            cv = S.const_value_nf(inner.a[0])
            if cv is not None:
                v0 = (cv < 0) if inner.op == "lt" else (cv <= 0) if inner.op == "le" else (cv == 0)
                self.memo[cond] = not v0
                self.stats["nf_decisions"] = self.stats.get("nf_decisions", 0) + 1
                return not v0
        ft = self._feasible(cond)
        ff = self._feasible(neg)
        if ft and ff:
            i = len(self.taken)
            if i < len(self.prefix):
                val = self.prefix[i]
            else:
                val = True
                self.alts.append(tuple(self.taken) + (False,))
            self.taken.append(val)
        elif ft:
            val = True
        elif ff:
            val = False
        else:
            raise PathInfeasible()
        self.memo[cond] = val
        self.facts.append(cond if val else neg)
        return val

    def log_safety(self, kind, term):
        term = S._coerce(term)
        if term.op == "c":
            v = term.a
            ok = (v != 0) if kind == "div" else (v >= 0) if kind == "sqrt" else (-1 <= v <= 1)
            if ok:
                return
        if (kind, term.uid) in self.seen_safety:
            return
        self.seen_safety.add((kind, term.uid))
        if self.use_nf and S.size(term) < 3000:
            cv = S.const_value_nf(term)
            if cv is not None and ((cv != 0) if kind == "div" else (cv >= 0) if kind == "sqrt" else (-1 <= cv <= 1)):
                self.stats["nf_decisions"] = self.stats.get("nf_decisions", 0) + 1
                return
        if kind == "div":
            goal = ~(term == 0) if term.op != "c" else S.FALSE
        elif kind == "sqrt":
            goal = term >= 0
        else:
            goal = (term >= -1) & (term <= 1)
        n = len([o for o in self.obligations if o.kind == "safety"])
        self.obligations.append(
            Obligation(None, list(self.facts), goal, "safety", f"safe-{kind}: {S.show(term, 160)}", None, f"safe-{kind}[{n}]")
        )


class Kit:
    def __init__(self, mode, run=None, rng=None, model=None, contract="?", tier="quick"):
        self.mode = mode
        self.run = run
        self.rng = rng
        self.model = model
        self.contract = contract
        self.tier = tier
        self.values = {}  # conc: name -> float
        self.results = []  # conc: dicts
        self.fd_used = False
        self.functions = []
        self._labels = {}
        self.env_atoms = {}  # conc: Sym atom -> float (for cross-check incl. stub atoms)

    # ------------------------------------------------------------ inputs
    @property
    def sym(self):
        return self.mode == "sym"

    def reals(self, name, shape, sample=None):
        shape = (shape,) if isinstance(shape, int) else tuple(shape)
        if self.mode == "sym":
            return S.symarray(name, shape)
        a = np.empty(shape, dtype=float)
        default = None
        for idx in np.ndindex(*shape):
            n = name + "".join(f"_{i}" for i in idx)
            v = None
            if self.model is not None:
                v = self.model.get(n)
                if v is None:
                    v = self.model.get(smt._san(n))
            if v is None:
                if default is None:
                    default = np.asarray(sample(self.rng), dtype=float).reshape(shape) if sample else self.rng.normal(size=shape)
                v = default[idx]
            a[idx] = float(v)
            self.values[n] = a[idx]
        return a

    def real(self, name, sample=None):
        if self.mode == "sym":
            return S.var(name)
        v = None
        if self.model is not None:
            v = self.model.get(name)
            if v is None:
                v = self.model.get(smt._san(name))
        if v is None:
            v = float(sample(self.rng)) if sample else float(self.rng.normal())
        v = float(v)
        self.values[name] = v
        return v

    def const_array(self, x):
        """A concrete numeric array as exact rationals (sym) / floats (conc)."""
        if self.mode == "sym":
            return S.as_symarray(np.asarray(x))
        return np.asarray(x, dtype=float)

    # ------------------------------------------------------------ requires
    def assume(self, cond, label=None):
        if self.mode == "sym":
            c = S._cb(cond) if not isinstance(cond, S.SymBool) else cond
            if c.op == "F":
                raise PathInfeasible()
            if c.op != "T":
                self.run.facts.append(c)
                self.run.memo[c] = True
        else:
            if not bool(cond):
                raise Reject(label or "assume")

    def axiom(self, cond, why):
        """A trusted mathematical fact (listed in evidence). conc mode checks it."""
        if self.mode == "sym":
            self.run.axioms.append(why)
            self.assume(cond)
        else:
            if not bool(cond):
                raise KitInconsistent(f"axiom false at a concrete point: {why}")

    def covers(self, *fns):
        for f in fns:
            self.functions.append(f)

    # ------------------------------------------------------------ ensures
    def _name(self, label):
        n = self._labels.get(label, 0)
        self._labels[label] = n + 1
        return label if n == 0 else f"{label}#{n}"

    def prove_eq(self, label, lhs, rhs, tol=1e-6):
        label = self._name(label)
        if self.mode == "sym":
            with npshim.active(True):
                L = S.as_symarray(lhs)
                R = S.as_symarray(rhs)
                if isinstance(L, S.Sym):
                    L = np.array(L, dtype=object)
                if isinstance(R, S.Sym):
                    R = np.array(R, dtype=object)
                if L.shape != R.shape and L.ndim != 0 and R.ndim != 0:
                    # shapes are part of a contract: only scalars broadcast
                    self._add(label, S.FALSE, f"shape mismatch {L.shape} vs {R.shape}", kind="raise")
                    return
                L, R = np.broadcast_arrays(L, R)
                self.run.records.append((label, L.copy(), R.copy()))
                saved = S.ORACLE[0]
                S.ORACLE[0] = None  # spec arithmetic must not log safety obligations
                try:
                    for idx in np.ndindex(*L.shape):
                        d = L[idx] - R[idx]
                        nm = label + ("[" + ",".join(map(str, idx)) + "]" if idx else "")
                        if d.op == "c":
                            if d.a == 0:
                                self.run.n_trivial += 1
                                continue
                            self._add(nm, S.FALSE, f"{S.show(L[idx], 120)} == {S.show(R[idx], 120)} (differ by constant {d.a})")
                        else:
                            self._add(nm, S._cmp("eq", d), f"{S.show(L[idx], 120)} == {S.show(R[idx], 120)}")
                finally:
                    S.ORACLE[0] = saved
        else:
            L = np.asarray(lhs, dtype=float)
            R = np.asarray(rhs, dtype=float)
            t = max(tol, 2e-4) if self.fd_used else tol
            try:
                if L.shape != R.shape and L.ndim != 0 and R.ndim != 0:
                    raise ValueError("shape mismatch")
                L, R = np.broadcast_arrays(L, R)
                scale = 1.0 + max(np.max(np.abs(L), initial=0.0), np.max(np.abs(R), initial=0.0))
                err = np.abs(L - R) / scale
                bad = ~(err <= t)
                ok = not bad.any()
            except ValueError:
                ok, err, bad = False, np.array(float("nan")), None
            self.results.append(
                {"label": label, "ok": bool(ok), "lhs": L, "rhs": R, "bad": bad, "err": float(np.nanmax(err)) if np.size(err) else 0.0}
            )

    def _cmp(self, label, a, b, op, tol):
        label = self._name(label)
        if self.mode == "sym":
            a = S._coerce(a) if not isinstance(a, np.ndarray) else a
            b = S._coerce(b) if not isinstance(b, np.ndarray) else b
            A, B = np.broadcast_arrays(np.asarray(a, dtype=object), np.asarray(b, dtype=object))
            for idx in np.ndindex(*A.shape):
                x, y = S._coerce(A[idx]), S._coerce(B[idx])
                goal = {"le": x <= y, "lt": x < y, "ne": x != y}[op]
                nm = label + ("[" + ",".join(map(str, idx)) + "]" if idx else "")
                if goal is S.TRUE:
                    self.run.n_trivial += 1
                    continue
                self._add(nm, goal, f"{S.show(x, 120)} {op} {S.show(y, 120)}")
        else:
            A = np.asarray(a, dtype=float)
            B = np.asarray(b, dtype=float)
            A, B = np.broadcast_arrays(A, B)
            scale = 1.0 + np.maximum(np.abs(A), np.abs(B))
            t = max(tol, 2e-4) if self.fd_used else tol
            if op == "le":
                bad = ~(A <= B + t * scale)
            elif op == "lt":
                bad = ~(A < B + t * scale)
            else:
                bad = ~(np.abs(A - B) > 0)
            self.results.append({"label": label, "ok": not bad.any(), "lhs": A, "rhs": B, "bad": bad, "err": float(np.max(A - B, initial=0.0))})

    def prove_le(self, label, a, b, tol=1e-9):
        self._cmp(label, a, b, "le", tol)

    def prove_lt(self, label, a, b, tol=0.0):
        self._cmp(label, a, b, "lt", tol)

    def prove_ne(self, label, a, b):
        self._cmp(label, a, b, "ne", 0.0)

    def prove(self, label, cond, show=""):
        """General boolean goal (SymBool in sym mode, python bool in conc)."""
        label = self._name(label)
        if self.mode == "sym":
            c = S._cb(cond)
            if c is S.TRUE:
                if isinstance(cond, (bool, np.bool_)):
                    self.run.exec_discharged.append(label)  # decided by executing the path (no arithmetic goal)
                else:
                    self.run.n_trivial += 1
                return
            self._add(label, c, show or S.showb(c, 200))
        else:
            self.results.append({"label": label, "ok": bool(cond), "lhs": None, "rhs": None, "bad": None, "err": 0.0})

    def _add(self, label, goal, show, kind="post", facts=None):
        self.run.obligations.append(Obligation(None, list(self.run.facts) if facts is None else list(facts), goal, kind, show, None, label))

    def lemma(self, label, cond, using=None, abstract=None, tol=1e-7):
        """Proof-script step: prove `cond` (from all facts so far, or only from
        the facts listed in `using`; with the terms in `abstract` {term: name}
        replaced by fresh variables in that obligation), then make it available
        as a fact for later steps.  Nothing is assumed: the step is an obligation."""
        label = self._name(label)
        if self.mode == "sym":
            c = S._cb(cond)
            if c is S.TRUE:
                self.run.n_trivial += 1
                return c
            facts = list(self.run.facts) if using is None else [S._cb(u) for u in using]
            goal = c
            if abstract:
                mp = {S._coerce(t): S.var(f"abs_{n}") for t, n in abstract.items()}
                facts = [S.substitute_b(f, mp) for f in facts]
                goal = S.substitute_b(c, mp)
            self._add(label, goal, S.showb(goal, 240), kind="lemma", facts=facts)
            if c.op != "F":
                self.run.facts.append(c)
                self.run.memo[c] = True
            return c
        self.results.append({"label": label, "ok": bool(cond), "lhs": None, "rhs": None, "bad": None, "err": 0.0})
        return cond

    def lemma_schema(self, label, terms, build):
        """Generic lemma + instantiation.  build(*vals) -> (hyps, goal) built with
        k.le/k.lt/k.eq only.  sym: (1) obligation `hyps => goal` over FRESH
        variables (so it holds for all reals), (2) one obligation per instantiated
        hypothesis `facts => hyp(terms)`, then goal(terms) becomes a fact.
        conc: evaluates goal(terms) (hypotheses must hold there)."""
        label = self._name(label)
        if self.mode == "sym":
            saved = S.ORACLE[0]
            S.ORACLE[0] = None
            try:
                fresh = [S.var(f"abs{i}_{label.replace(' ', '_')}") for i in range(len(terms))]
                hyps, goal = build(*fresh)
                self._add(label + " [generic]", S._cb(goal), "forall reals: " + S.showb(S.conj(hyps), 200) + " => " + S.showb(S._cb(goal), 120), kind="lemma", facts=[S._cb(h) for h in hyps])
                ihyps, igoal = build(*[S._coerce(t) for t in terms])
                for i, h in enumerate(ihyps):
                    h = S._cb(h)
                    if h is S.TRUE:
                        continue
                    if any(f is h for f in self.run.facts):
                        self.run.n_trivial += 1
                        continue
                    self._add(label + f" [hyp {i}]", h, S.showb(h, 200), kind="lemma")
                ig = S._cb(igoal)
                if ig.op not in ("T", "F"):
                    self.run.facts.append(ig)
                    self.run.memo[ig] = True
                return ig
            finally:
                S.ORACLE[0] = saved
        ihyps, igoal = build(*terms)
        ok = (not all(bool(h) for h in ihyps)) or bool(igoal)
        self.results.append({"label": label + " [generic]", "ok": bool(ok), "lhs": None, "rhs": None, "bad": None, "err": 0.0})
        return igoal

    # comparison builders usable in both modes (floats get a tolerance)
    def le(self, a, b, tol=1e-9):
        if self.mode == "sym":
            return S._coerce(a) <= S._coerce(b)
        return float(a) <= float(b) + tol * (1 + abs(float(a)) + abs(float(b)))

    def lt(self, a, b):
        if self.mode == "sym":
            return S._coerce(a) < S._coerce(b)
        return float(a) < float(b)

    def eq(self, a, b, tol=1e-9):
        if self.mode == "sym":
            return S._coerce(a) == S._coerce(b)
        return abs(float(a) - float(b)) <= tol * (1 + abs(float(a)) + abs(float(b)))

    def all(self, conds):
        if self.mode == "sym":
            return S.conj(list(conds))
        return all(bool(c) for c in conds)

    # ----------------------------------------------------- exceptions as goals
    def must_raise(self, label, fn, exc=(AssertionError,)):
        """Obligation: on this path the real code raises one of `exc`."""
        label = self._name(label)
        try:
            fn()
        except exc:
            if self.mode == "sym":
                self.run.exec_discharged.append(label)
            else:
                self.results.append({"label": label, "ok": True, "lhs": None, "rhs": None, "bad": None, "err": 0.0})
            return True
        if self.mode == "sym":
            self._add(label, S.FALSE, f"expected {[e.__name__ for e in exc]} but the call returned", kind="raise")
        else:
            self.results.append({"label": label, "ok": False, "lhs": None, "rhs": None, "bad": None, "err": 0.0, "note": "no exception"})
        return False

    def no_raise(self, label, fn, allowed=()):
        """Obligation: the real code returns (or raises only `allowed`). Returns (ok, value)."""
        label = self._name(label)
        try:
            v = fn()
        except allowed as e:
            if self.mode == "sym":
                self.run.exec_discharged.append(label)
            else:
                self.results.append({"label": label, "ok": True, "lhs": None, "rhs": None, "bad": None, "err": 0.0})
            return False, e
        except (PathInfeasible, Reject, S.KitError, KitInconsistent):
            raise
        except Exception as e:  # noqa: BLE001 - the obligation is exactly "does not raise"
            msg = f"{type(e).__name__}: {e}"
            if self.mode == "sym":
                self._add(label, S.FALSE, "raised " + msg[:200], kind="raise")
            else:
                self.results.append({"label": label, "ok": False, "lhs": None, "rhs": None, "bad": None, "err": 0.0, "note": msg[:300]})
            return False, e
        if self.mode == "sym":
            self.run.exec_discharged.append(label)
        else:
            self.results.append({"label": label, "ok": True, "lhs": None, "rhs": None, "bad": None, "err": 0.0})
        return True, v

    # ------------------------------------------------------- spec operators
    def jvp(self, fn, xs, tangents, h=1e-6):
        """Directional derivative of fn(*xs) along `tangents` (same shapes as xs)."""
        if self.mode == "sym":
            y = fn(*xs)
            tang = {}
            for x, t in zip(xs, tangents):
                if isinstance(x, S.Sym):
                    tang[x] = S._coerce(t)
                    continue
                x = np.asarray(x, dtype=object)
                t = np.broadcast_to(np.asarray(t, dtype=object), x.shape)
                for idx in np.ndindex(*x.shape):
                    xi = x[idx]
                    if not isinstance(xi, S.Sym) or xi.op not in ("v", "f"):
                        raise S.KitError("jvp: differentiation variable is not an atom")
                    tang[xi] = S._coerce(t[idx])
            saved = S.ORACLE[0]
            S.ORACLE[0] = None
            try:
                with npshim.active(True):
                    Y = S.as_symarray(y)
                    memo = {}
                    if isinstance(Y, S.Sym):
                        return S.jvp(Y, tang, memo)
                    out = np.empty(Y.shape, dtype=object)
                    for idx in np.ndindex(*Y.shape):
                        out[idx] = S.jvp(Y[idx], tang, memo)
                    return out
            finally:
                S.ORACLE[0] = saved
        self.fd_used = True
        xp = [np.asarray(x, dtype=float) + h * np.asarray(t, dtype=float) for x, t in zip(xs, tangents)]
        xm = [np.asarray(x, dtype=float) - h * np.asarray(t, dtype=float) for x, t in zip(xs, tangents)]
        xp = [v if np.ndim(x) else float(v) for v, x in zip(xp, xs)]
        xm = [v if np.ndim(x) else float(v) for v, x in zip(xm, xs)]
        return (np.asarray(fn(*xp), dtype=float) - np.asarray(fn(*xm), dtype=float)) / (2 * h)

    def jac(self, fn, x, h=1e-6):
        """d fn(x) / d x  with the x-axes appended to the output axes."""
        if self.mode == "sym":
            y = fn(x)
            saved = S.ORACLE[0]
            S.ORACLE[0] = None
            try:
                with npshim.active(True):
                    Y = S.as_symarray(y)
                    if isinstance(Y, S.Sym):
                        Y = np.array(Y, dtype=object)
                    X = np.asarray(x, dtype=object)
                    out = np.empty(Y.shape + X.shape, dtype=object)
                    for xidx in np.ndindex(*X.shape):
                        xv = X[xidx]
                        if not isinstance(xv, S.Sym) or xv.op not in ("v", "f"):
                            raise S.KitError("jac: differentiation variable is not an atom")
                        memo = {}
                        for yidx in np.ndindex(*Y.shape):
                            out[yidx + xidx] = S.jvp(Y[yidx], {xv: S.ONE}, memo)
                    return out
            finally:
                S.ORACLE[0] = saved
        self.fd_used = True
        X = np.asarray(x, dtype=float)
        y0 = np.asarray(fn(X.copy()), dtype=float)
        out = np.empty(y0.shape + X.shape, dtype=float)
        for xidx in np.ndindex(*X.shape):
            hh = h * (1.0 + abs(X[xidx]))
            xp = X.copy()
            xm = X.copy()
            xp[xidx] += hh
            xm[xidx] -= hh
            d = (np.asarray(fn(xp), dtype=float) - np.asarray(fn(xm), dtype=float)) / (2 * hh)
            out[(Ellipsis,) + xidx] = d
        return out

    def timefun(self, name, shape, t, scale=1.0):
        """A smooth prescribed function of time together with its exact first and
        second derivatives: returns (f, f_t, f_tt) callables.
        sym : jet atoms F(t) whose t-partials are the atoms F|t, F|t,t ... ; the
              callables must be evaluated at the symbolic time `t` itself.
        conc: a random cubic polynomial around the sampled value of t."""
        shape = (shape,) if isinstance(shape, int) else tuple(shape)
        if self.mode == "sym":
            from contracts.subsys import Jets

            jets = getattr(self, "_jets", None)
            if jets is None:
                jets = self._jets = Jets()
            F = jets.array(name, shape, (t,))

            def d(arr):
                out = np.empty(arr.shape, dtype=object)
                for idx in np.ndindex(*arr.shape):
                    out[idx] = S.PARTIALS[arr[idx].uid].partial(t)
                return out

            F1 = d(F)
            F2 = d(F1)

            def chk(t_):
                if t_ is not t:
                    raise S.KitError("prescribed time function evaluated away from the symbolic time")

            return (lambda t_: (chk(t_), F.copy())[1]), (lambda t_: (chk(t_), F1.copy())[1]), (lambda t_: (chk(t_), F2.copy())[1])
        c = [self.reals(f"{name}.c{i}", shape, sample=lambda r: r.normal(size=shape) * scale) for i in range(4)]
        t0 = float(t)
        for idx in np.ndindex(*shape):
            base = name + "".join(f"_{i}" for i in idx)
            for order in range(4):
                full = base if order == 0 else base + "|" + ",".join(["t"] * order)
                self.env_atoms[S._mk("f", full, full)] = float(c[order][idx])
        f = lambda t_: c[0] + c[1] * (t_ - t0) + c[2] * (t_ - t0) ** 2 / 2 + c[3] * (t_ - t0) ** 3 / 6
        f_t = lambda t_: c[1] + c[2] * (t_ - t0) + c[3] * (t_ - t0) ** 2 / 2
        f_tt = lambda t_: c[2] + c[3] * (t_ - t0)
        return f, f_t, f_tt

    @contextlib.contextmanager
    def spec(self):
        """Arithmetic inside is specification code: divisions etc. are not logged
        as safety obligations of the real code (they must be justified by the
        contract's own hypotheses; conc mode would show nan otherwise)."""
        if self.mode == "sym":
            saved = S.ORACLE[0]

            class _Q:
                def __init__(q, o):
                    q.o = o

                def decide(q, c):
                    return q.o.decide(c)

                def log_safety(q, kind, term):
                    return None

            S.ORACLE[0] = _Q(saved)
            try:
                yield
            finally:
                S.ORACLE[0] = saved
        else:
            yield


# ----------------------------------------------------------------- exploring
def explore(cfn, contract_name, tier="quick", max_paths=400):
    feas_cache = {}
    stats = {"feas_queries": 0, "feas_seconds": 0.0, "feas_unknown": 0}
    work = [()]
    paths = []
    functions = []
    while work:
        prefix = work.pop()
        run = PathRun(prefix, feas_cache, stats)
        k = Kit("sym", run=run, contract=contract_name, tier=tier)
        S.ORACLE[0] = run
        try:
            with npshim.active(True):
                try:
                    cfn(k)
                except PathInfeasible:
                    work.extend(run.alts)
                    continue
                except (S.KitError, KitInconsistent):
                    raise
                except Exception as e:  # noqa: BLE001
                    run.raised = (e, traceback.format_exc())
                    run.obligations.append(
                        Obligation(None, list(run.facts), S.FALSE, "raise", f"uncaught {type(e).__name__}: {str(e)[:200]} | " + " <- ".join(f"{f.name}:{f.lineno}" for f in reversed(traceback.extract_tb(e.__traceback__)[-6:])), None, "uncaught-exception")
                    )
        finally:
            S.ORACLE[0] = None
        work.extend(run.alts)
        paths.append(run)
        functions = k.functions or functions
        if len(paths) > max_paths:
            raise S.KitError(f"{contract_name}: more than {max_paths} paths")
    return paths, stats, functions


def function_ids(fns):
    out = []
    for f in fns:
        try:
            src = inspect.getsource(f)
            sha = hashlib.sha256(src.encode()).hexdigest()[:16]
        except (OSError, TypeError):
            sha = "n/a"
        mod = getattr(f, "__module__", "?")
        qn = getattr(f, "__qualname__", getattr(f, "__name__", repr(f)))
        out.append(f"{mod}.{qn}@{sha}")
    return out


def run_conc(cfn, contract_name, rng=None, model=None, tier="quick", strict_fp=False):
    k = Kit("conc", rng=rng or np.random.default_rng(0), model=model, contract=contract_name, tier=tier)
    err = None
    with npshim.active(False):
        try:
            if strict_fp:
                with np.errstate(divide="raise", invalid="raise"):
                    cfn(k)
            else:
                with np.errstate(all="ignore"):
                    cfn(k)
        except Reject:
            return None
        except KitInconsistent:
            raise
        except Exception as e:  # noqa: BLE001
            err = (type(e).__name__, str(e)[:300], traceback.format_exc(limit=6))
    return k, err


def match_path(paths, env):
    """The symbolic path whose facts all hold at the concrete point env."""
    for p in paths:
        try:
            if all(S.evalb(f, env, tol=1e-12) for f in p.facts):
                return p
        except (KeyError, ValueError, ZeroDivisionError, OverflowError):
            continue
    return None


def crosscheck(cfn, contract_name, paths, seed, n=3, tier="quick"):
    """Run the contract natively at random points and compare every recorded
    lhs/rhs with the float evaluation of the symbolic terms on the matching
    path.  Returns (n_points, n_values_compared, numeric_failures list)."""
    rng = np.random.default_rng(seed)
    pts = 0
    compared = 0
    numeric_fail = []
    tries = 0
    while pts < n and tries < 60 * n:
        tries += 1
        r = run_conc(cfn, contract_name, rng=rng, tier=tier)
        if r is None:
            continue
        k, err = r
        pts += 1
        env = {S.var(nm): v for nm, v in k.values.items()}
        env.update(k.env_atoms)
        p = match_path(paths, env)
        if p is None:
            continue
        if err is not None and p.raised is None:
            raise KitInconsistent(f"{contract_name}: native run raised {err[0]}: {err[1]} but the symbolic path returned\n{err[2]}")
        byl = {r_["label"]: r_ for r_ in k.results}
        for label, L, R in p.records:
            c = byl.get(label)
            if c is None or c["lhs"] is None:
                continue
            for side, arr in (("lhs", L), ("rhs", R)):
                nat = c[side]
                if np.shape(nat) != arr.shape:
                    continue
                memo = {}
                for idx in np.ndindex(*arr.shape):
                    try:
                        sv = S._evalf(arr[idx], env, memo)
                    except KeyError:
                        sv = None
                    if sv is None or sv != sv:
                        continue
                    nv = float(nat[idx])
                    compared += 1
                    tol = (5e-4 if k.fd_used else 1e-7) * (1 + abs(sv) + abs(nv))
                    if not abs(sv - nv) <= tol:
                        raise KitInconsistent(
                            f"{contract_name}/{label}{list(idx)} {side}: symbolic value {sv!r} != native {nv!r} at {dict(list(k.values.items())[:12])}"
                        )
        for r_ in k.results:
            if not r_["ok"]:
                numeric_fail.append({"label": r_["label"], "values": dict(k.values), "err": r_["err"], "note": r_.get("note", "")})
    return pts, compared, numeric_fail
