"""numpy shim: makes the *real* cardillo functions runnable on object arrays of Sym.

Installed in the checking process only (module globals `np` and names imported
`from numpy import ...` inside already-imported `cardillo.*` modules are rebound
to a proxy).  Nothing under /repo is written.  When `ACTIVE[0]` is False every
shim function delegates to real numpy, so the same process can replay natively.

What the shim changes (complete list):
  allocators   zeros/ones/empty/full/eye/identity/zeros_like/ones_like/empty_like
               return object arrays of exact Sym constants unless an integer/bool
               dtype is requested;
  array/asarray/atleast_*  fall back to dtype=object when numpy cannot build a
               float array from symbolic entries;
  common_type  `object` as soon as one operand is an object array;
  einsum       generic loop implementation for object operands;
  linalg.norm  sqrt(sum x^2) for object vectors / Frobenius for matrices;
  linalg.det   cofactor expansion for 2x2 / 3x3 object matrices;
  linalg.inv   adjugate/det for 2x2 / 3x3 object matrices (division logged);
  clip, minimum, maximum, abs/absolute, sign  by forking on symbolic comparisons;
  isclose/allclose  as the symbolic inequality |a-b| <= atol + rtol*|b|;
  pi           the symbolic constant `pi` (3.14159 < pi < 3.1416), so that
               arccos(-1) == pi exactly;
  sqrt/sin/cos/tan/arccos/arctan on python/numpy floats that are *exact*
               special values stay numeric; on Sym they dispatch to vk.sym.
"""

from __future__ import annotations

import sys
import types

import numpy as _np

from . import sym as S

ACTIVE = [False]

_INT_KINDS = ("i", "u", "b")


def _is_intdtype(dtype):
    if dtype is None:
        return False
    try:
        return _np.dtype(dtype).kind in _INT_KINDS
    except TypeError:
        return False


def _fill(shape, value):
    a = _np.empty(shape, dtype=object)
    a.fill(value)
    return a


def zeros(shape, dtype=float, order="C", **kw):
    if not ACTIVE[0] or _is_intdtype(dtype):
        return _np.zeros(shape, dtype=dtype, order=order, **kw)
    return _fill(shape, S.ZERO)


def ones(shape, dtype=float, order="C", **kw):
    if not ACTIVE[0] or _is_intdtype(dtype):
        return _np.ones(shape, dtype=dtype, order=order, **kw)
    return _fill(shape, S.ONE)


def empty(shape, dtype=float, order="C", **kw):
    if not ACTIVE[0] or _is_intdtype(dtype):
        return _np.empty(shape, dtype=dtype, order=order, **kw)
    return _fill(shape, S.ZERO)


def full(shape, fill_value, dtype=None, **kw):
    if not ACTIVE[0] or _is_intdtype(dtype):
        return _np.full(shape, fill_value, dtype=dtype, **kw)
    return _fill(shape, S._coerce(fill_value))


def eye(N, M=None, k=0, dtype=float, **kw):
    if not ACTIVE[0] or _is_intdtype(dtype):
        return _np.eye(N, M, k, dtype=dtype, **kw)
    M = N if M is None else M
    a = _fill((N, M), S.ZERO)
    for i in range(N):
        j = i + k
        if 0 <= j < M:
            a[i, j] = S.ONE
    return a


def identity(n, dtype=float):
    return eye(n, dtype=dtype)


def zeros_like(a, dtype=None, **kw):
    if not ACTIVE[0]:
        return _np.zeros_like(a, dtype=dtype, **kw)
    if _is_intdtype(dtype) or (dtype is None and getattr(a, "dtype", None) is not None and a.dtype.kind in _INT_KINDS):
        return _np.zeros_like(a, dtype=dtype, **kw)
    return _fill(_np.shape(a), S.ZERO)


def ones_like(a, dtype=None, **kw):
    if not ACTIVE[0]:
        return _np.ones_like(a, dtype=dtype, **kw)
    return _fill(_np.shape(a), S.ONE)


def empty_like(a, dtype=None, **kw):
    return zeros_like(a, dtype=dtype, **kw)


def array(obj, dtype=None, **kw):
    if not ACTIVE[0]:
        return _np.array(obj, dtype=dtype, **kw)
    try:
        return _np.array(obj, dtype=dtype, **kw)
    except (TypeError, ValueError, S.KitError):
        return _np.array(obj, dtype=object, **kw)


def asarray(obj, dtype=None, **kw):
    if not ACTIVE[0]:
        return _np.asarray(obj, dtype=dtype, **kw)
    try:
        return _np.asarray(obj, dtype=dtype, **kw)
    except (TypeError, ValueError, S.KitError):
        return _np.asarray(obj, dtype=object, **kw)


def asanyarray(obj, dtype=None, **kw):
    if not ACTIVE[0]:
        return _np.asanyarray(obj, dtype=dtype, **kw)
    try:
        return _np.asanyarray(obj, dtype=dtype, **kw)
    except (TypeError, ValueError, S.KitError):
        return _np.asanyarray(obj, dtype=object, **kw)


def common_type(*arrays):
    if ACTIVE[0]:
        for a in arrays:
            if isinstance(a, S.Sym):
                return object
            if getattr(a, "dtype", None) is not None and a.dtype == object:
                return object
        arrays = [a if hasattr(a, "dtype") else _np.asarray(a, dtype=float) for a in arrays]
        arrays = [a.astype(float) if a.dtype.kind in _INT_KINDS else a for a in arrays]
    return _np.common_type(*arrays)


def _any_obj(ops):
    for o in ops:
        if isinstance(o, S.Sym):
            return True
        if isinstance(o, _np.ndarray) and o.dtype == object:
            return True
    return False


def einsum(subscripts, *operands, **kw):
    if not ACTIVE[0] or not isinstance(subscripts, str) or not _any_obj(operands):
        return _np.einsum(subscripts, *operands, **kw)
    ops = [_np.asarray(o) if not isinstance(o, _np.ndarray) else o for o in operands]
    sub = subscripts.replace(" ", "")
    if "->" in sub:
        lhs, out = sub.split("->")
    else:
        lhs = sub
        letters = "".join(lhs.split(","))
        out = "".join(sorted(c for c in set(letters) if letters.count(c) == 1))
    ins = lhs.split(",")
    if len(ins) != len(ops):
        raise S.KitError("einsum operand count")
    dims = {}
    for s, o in zip(ins, ops):
        if len(s) != o.ndim:
            raise S.KitError(f"einsum rank mismatch {s} vs {o.shape}")
        for c, n in zip(s, o.shape):
            if dims.setdefault(c, n) != n:
                raise S.KitError("einsum dim mismatch")
    summed = [c for c in dims if c not in out]
    res = _fill(tuple(dims[c] for c in out), S.ZERO)
    # contract pairwise for speed when possible: generic nested loop otherwise
    sshape = tuple(dims[c] for c in summed)
    for oidx in _np.ndindex(*res.shape):
        env = dict(zip(out, oidx))
        acc = []
        for sidx in _np.ndindex(*sshape):
            env.update(zip(summed, sidx))
            term = None
            zero = False
            for s, o in zip(ins, ops):
                v = o[tuple(env[c] for c in s)]
                if v is S.ZERO or (not isinstance(v, S.Sym) and v == 0):
                    zero = True
                    break
                term = v if term is None else term * v
            if not zero:
                acc.append(term)
        tot = S.ZERO
        for a in acc:
            tot = tot + a
        res[oidx] = tot
    if res.ndim == 0:
        return res[()]
    return res


def _norm(x, ord=None, axis=None, **kw):
    if not ACTIVE[0] or not _any_obj([x]) or axis is not None or ord not in (None, 2, "fro"):
        return _np.linalg.norm(x, ord=ord, axis=axis, **kw)
    x = _np.asarray(x)
    tot = S.ZERO
    for v in x.ravel():
        tot = tot + v * v
    return S.sqrt(tot)


def det(a):
    if not ACTIVE[0] or not _any_obj([a]):
        return _np.linalg.det(a)
    a = _np.asarray(a)
    n = a.shape[0]
    if a.shape != (n, n):
        raise S.KitError("det shape")
    if n == 0:
        return S.ONE
    if n == 1:
        return a[0, 0]
    if n == 2:
        return a[0, 0] * a[1, 1] - a[0, 1] * a[1, 0]
    if n == 3:
        return (
            a[0, 0] * (a[1, 1] * a[2, 2] - a[1, 2] * a[2, 1])
            - a[0, 1] * (a[1, 0] * a[2, 2] - a[1, 2] * a[2, 0])
            + a[0, 2] * (a[1, 0] * a[2, 1] - a[1, 1] * a[2, 0])
        )
    raise S.KitError("det of symbolic matrix larger than 3x3")


def inv(a):
    if not ACTIVE[0] or not _any_obj([a]):
        return _np.linalg.inv(a)
    a = _np.asarray(a)
    n = a.shape[0]
    d = det(a)
    if n == 1:
        return _np.array([[1 / S._coerce(a[0, 0])]], dtype=object)
    if n == 2:
        adj = _np.array([[a[1, 1], -a[0, 1]], [-a[1, 0], a[0, 0]]], dtype=object)
        return adj / d
    if n == 3:
        c = _fill((3, 3), S.ZERO)
        for i in range(3):
            for j in range(3):
                r = [k for k in range(3) if k != i]
                s = [k for k in range(3) if k != j]
                m = a[r[0], s[0]] * a[r[1], s[1]] - a[r[0], s[1]] * a[r[1], s[0]]
                c[j, i] = m if (i + j) % 2 == 0 else -m
        return c / d
    raise S.KitError("inv of symbolic matrix larger than 3x3")


def clip(a, a_min=None, a_max=None, **kw):
    if not ACTIVE[0] or not _any_obj([a, a_min, a_max]):
        return _np.clip(a, a_min, a_max, **kw)
    if isinstance(a, _np.ndarray) and a.ndim > 0:
        out = _np.empty(a.shape, dtype=object)
        for idx in _np.ndindex(*a.shape):
            out[idx] = clip(a[idx], a_min, a_max)
        return out
    if isinstance(a, _np.ndarray):
        a = a.item()
    if a_min is not None and a < a_min:
        return S._coerce(a_min)
    if a_max is not None and a > a_max:
        return S._coerce(a_max)
    return a


def _elementwise2(f, real):
    def g(a, b, **kw):
        if not ACTIVE[0] or not _any_obj([a, b]):
            return real(a, b, **kw)
        a_, b_ = _np.broadcast_arrays(_np.asarray(a, dtype=object), _np.asarray(b, dtype=object))
        out = _np.empty(a_.shape, dtype=object)
        for idx in _np.ndindex(*a_.shape):
            out[idx] = f(a_[idx], b_[idx])
        return out[()] if out.ndim == 0 else out

    return g


minimum = _elementwise2(lambda x, y: x if x <= y else y, _np.minimum)
maximum = _elementwise2(lambda x, y: x if x >= y else y, _np.maximum)


def _abs(a, **kw):
    if not ACTIVE[0] or not _any_obj([a]):
        return _np.abs(a, **kw)
    if isinstance(a, S.Sym):
        return abs(a)
    a = _np.asarray(a)
    out = _np.empty(a.shape, dtype=object)
    for idx in _np.ndindex(*a.shape):
        out[idx] = abs(a[idx])
    return out[()] if out.ndim == 0 else out


def sign(a, **kw):
    if not ACTIVE[0] or not _any_obj([a]):
        return _np.sign(a, **kw)

    def sg(x):
        x = S._coerce(x)
        if x > 0:
            return S.ONE
        if x < 0:
            return -S.ONE
        return S.ZERO

    if isinstance(a, S.Sym):
        return sg(a)
    a = _np.asarray(a)
    out = _np.empty(a.shape, dtype=object)
    for idx in _np.ndindex(*a.shape):
        out[idx] = sg(a[idx])
    return out


def isclose(a, b, rtol=1e-05, atol=1e-08, **kw):
    if not ACTIVE[0] or not _any_obj([a, b]):
        return _np.isclose(a, b, rtol=rtol, atol=atol, **kw)
    a_, b_ = _np.broadcast_arrays(_np.asarray(a, dtype=object), _np.asarray(b, dtype=object))
    out = _np.empty(a_.shape, dtype=object)
    for idx in _np.ndindex(*a_.shape):
        x, y = S._coerce(a_[idx]), S._coerce(b_[idx])
        d = x - y
        bound = atol + rtol * abs(y)
        out[idx] = (d <= bound) & (-d <= bound)
    return out[()] if out.ndim == 0 else out


def _boolarr(a):
    a = _np.asarray(a, dtype=object) if not isinstance(a, _np.ndarray) else a
    return a


def _has_symbool(*xs):
    for x in xs:
        if isinstance(x, S.SymBool):
            return True
        if isinstance(x, _np.ndarray) and x.dtype == object and any(isinstance(v, S.SymBool) for v in x.ravel()):
            return True
    return False


def _logical(op):
    real = getattr(_np, "logical_" + op)

    def f(a, b, **kw):
        if not ACTIVE[0] or not _has_symbool(a, b):
            return real(a, b, **kw)
        a_, b_ = _np.broadcast_arrays(_boolarr(a), _boolarr(b))
        out = _np.empty(a_.shape, dtype=object)
        for idx in _np.ndindex(*a_.shape):
            x, y = S._cb(a_[idx]), S._cb(b_[idx])
            out[idx] = (x | y) if op == "or" else (x & y)
        return out[()] if out.ndim == 0 else out

    return f


def _all(a, *args, **kw):
    if not ACTIVE[0] or args or kw or not _has_symbool(a):
        return _np.all(a, *args, **kw)
    return S.conj([S._cb(v) for v in _boolarr(a).ravel()])


def _any(a, *args, **kw):
    if not ACTIVE[0] or args or kw or not _has_symbool(a):
        return _np.any(a, *args, **kw)
    r = S.FALSE
    for v in _boolarr(a).ravel():
        r = r | S._cb(v)
    return r


def _where(cond, *args):
    if not ACTIVE[0] or not _has_symbool(cond):
        return _np.where(cond, *args)
    c = _boolarr(cond)
    dec = _np.empty(c.shape, dtype=bool)
    for idx in _np.ndindex(*c.shape):
        dec[idx] = bool(c[idx])  # forks the path
    return _np.where(dec, *args)


def allclose(a, b, rtol=1e-05, atol=1e-08, **kw):
    if not ACTIVE[0] or not _any_obj([a, b]):
        return _np.allclose(a, b, rtol=rtol, atol=atol, **kw)
    r = isclose(a, b, rtol, atol)
    if isinstance(r, _np.ndarray):
        return S.conj(list(r.ravel()))
    return r


def isfinite(a, **kw):
    if ACTIVE[0]:
        arr = a if isinstance(a, _np.ndarray) else _np.asarray(a, dtype=object) if any(isinstance(v, S.Sym) for v in _np.ravel(_np.asarray(a, dtype=object))) else a
        if _any_obj([arr]):
            return _np.ones(_np.shape(arr), dtype=bool)
    return _np.isfinite(a, **kw)


def _unary(name):
    real = getattr(_np, name)
    symf = {"sqrt": S.sqrt, "sin": S.sin, "cos": S.cos, "tan": S.tan, "arccos": S.acos, "arctan": S.atan}[name]

    def f(x, *a, **kw):
        if ACTIVE[0]:
            if isinstance(x, S.Sym):
                return symf(x)
            if isinstance(x, _np.ndarray) and x.dtype == object:
                out = _np.empty(x.shape, dtype=object)
                for idx in _np.ndindex(*x.shape):
                    out[idx] = symf(x[idx])
                return out[()] if out.ndim == 0 else out
        return real(x, *a, **kw)

    return f


class _PiHolder:
    pass


class NPProxy(types.ModuleType):
    """Stands in for the `numpy` module inside cardillo modules."""

    def __init__(self, real, overrides, name="numpy_shim"):
        super().__init__(name)
        object.__setattr__(self, "_real", real)
        object.__setattr__(self, "_ov", overrides)

    def __getattr__(self, name):
        ov = object.__getattribute__(self, "_ov")
        if name == "pi" and "pi" in ov:
            return S.PI if ACTIVE[0] else _np.pi
        if name in ov:
            return ov[name]
        return getattr(object.__getattribute__(self, "_real"), name)


_LINALG = NPProxy(_np.linalg, {"norm": _norm, "det": det, "inv": inv}, "numpy_shim.linalg")

OVERRIDES = {
    "zeros": zeros,
    "ones": ones,
    "empty": empty,
    "full": full,
    "eye": eye,
    "identity": identity,
    "zeros_like": zeros_like,
    "ones_like": ones_like,
    "empty_like": empty_like,
    "array": array,
    "asarray": asarray,
    "asanyarray": asanyarray,
    "common_type": common_type,
    "einsum": einsum,
    "clip": clip,
    "minimum": minimum,
    "maximum": maximum,
    "abs": _abs,
    "absolute": _abs,
    "sign": sign,
    "isclose": isclose,
    "allclose": allclose,
    "isfinite": isfinite,
    "logical_or": _logical("or"),
    "logical_and": _logical("and"),
    "all": _all,
    "any": _any,
    "where": _where,
    "linalg": _LINALG,
    "pi": None,
    "sqrt": _unary("sqrt"),
    "sin": _unary("sin"),
    "cos": _unary("cos"),
    "tan": _unary("tan"),
    "arccos": _unary("arccos"),
    "arctan": _unary("arctan"),
}

PROXY = NPProxy(_np, OVERRIDES)

_installed = set()


def install(prefix="cardillo"):
    """Rebind numpy names in every imported module whose name starts with prefix."""
    for mname, mod in list(sys.modules.items()):
        if mod is None or not (mname == prefix or mname.startswith(prefix + ".")):
            continue
        if mname in _installed:
            continue
        d = getattr(mod, "__dict__", None)
        if d is None:
            continue
        for k, v in list(d.items()):
            if v is _np:
                d[k] = PROXY
            elif v is _np.linalg:
                d[k] = _LINALG
            elif k in OVERRIDES and OVERRIDES[k] is not None and callable(v) and getattr(_np, k, None) is v:
                d[k] = OVERRIDES[k]
            elif k == "norm" and v is _np.linalg.norm:
                d[k] = _norm
        _installed.add(mname)


class active:
    def __init__(self, on=True):
        self.on = on

    def __enter__(self):
        self.prev = ACTIVE[0]
        ACTIVE[0] = self.on

    def __exit__(self, *a):
        ACTIVE[0] = self.prev


# --------------------------------------------------------------- sparse containers
class SymDense(_np.ndarray):
    """Dense object-array stand-in for a scipy sparse array built from symbolic
    data (assumed contract of scipy's COO constructor: duplicates are summed)."""

    def toarray(self, *a, **k):
        return _np.asarray(self).view(_np.ndarray)

    def todense(self):
        return self.toarray()

    def tocoo(self, copy=False):
        return self

    tocsr = tocsc = tocoo

    def asformat(self, format, copy=False):
        return self

    def diagonal(self, *a, **k):
        return _np.asarray(self).view(_np.ndarray).diagonal(*a, **k)


class _SymData(list):
    typecode = "d"


def _array_shim(typecode, init=()):
    from array import array as _array

    if ACTIVE[0] and typecode == "d":
        return _SymData(init)
    return _array(typecode, init)


def _sparse_shim(real):
    def make(arg1, shape=None, copy=False, **kw):
        if ACTIVE[0] and isinstance(arg1, tuple) and len(arg1) == 2 and (isinstance(arg1[0], _SymData) or (isinstance(arg1[0], _np.ndarray) and arg1[0].dtype == object)):
            data, (row, col) = arg1
            dense = _fill(tuple(shape), S.ZERO)
            for v, i, j in zip(data, row, col):
                dense[i, j] = dense[i, j] + v
            return dense.view(SymDense)
        return real(arg1, shape=shape, copy=copy, **kw)

    make.__name__ = getattr(real, "__name__", "sparse")
    make._real = real
    return make


def install_sparse():
    """Rebind `array`, coo/csc/csr_array inside cardillo.utility.coo_matrix."""
    import cardillo.utility.coo_matrix as cm
    import scipy.sparse as sp

    if getattr(cm, "_vk_sparse", False):
        return
    cm.array = _array_shim
    for nm in ("coo_array", "csc_array", "csr_array"):
        setattr(cm, nm, _sparse_shim(getattr(sp, nm)))
    cm._vk_sparse = True
