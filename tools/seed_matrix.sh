#!/bin/sh
# tools/seed_matrix.sh [-j N] [seed ...]: run every seeded change against the check of its property (quick tier) in scratch
# worktrees (tools/seed_test.sh; /repo is not touched) and record exit code + first failing obligations in
# seeded/<seed>/detect.json.  Extra checks per seed: seeded/<seed>/also (one property id per line).
cd /verif
jobs=2; [ "$1" = "-j" ] && { jobs=$2; shift 2; }
seeds="$@"; [ -n "$seeds" ] || seeds=$(ls seeded)
one() {
  s=$1
  [ -f seeded/$s/patch.diff ] || return 0
  prop=$(echo $s | cut -c1-3)
  props="$prop"; [ -f seeded/$s/also ] && props="$props $(cat seeded/$s/also)"
  out="{\"seed\": \"$s\", \"runs\": ["
  first=1
  for p in $props; do
    r=$(tools/seed_test.sh $s $p 2>&1)
    log=/tmp/seed_${s}_${p}.log
    rc=$(echo "$r" | sed -n 's/^exit=//p')
    nv=$(grep -c "^VIOLATION" $log)
    fo=$(grep "failed obligation" $log | head -3 | sed 's/^ *failed obligation: //' | python3 -c "import sys,json; print(json.dumps([l.strip()[:260] for l in sys.stdin]))")
    nf=$(grep "^VIOLATION" $log | grep -vc "no-failing-input-found")
    [ $first = 1 ] || out="$out, "; first=0
    out="$out{\"check\": \"$p\", \"exit\": ${rc:-null}, \"violation_lines\": $nv, \"replayed_natively\": $nf, \"first_failed_obligations\": $fo}"
    echo "$s vs $p: exit=$rc violations=$nv"
  done
  echo "$out]}" > seeded/$s/detect.json
}
if [ -n "$SEED_MATRIX_ONE" ]; then one "$SEED_MATRIX_ONE"; exit 0; fi
for s in $seeds; do echo $s; done | xargs -P $jobs -I{} env SEED_MATRIX_ONE={} sh tools/seed_matrix.sh
