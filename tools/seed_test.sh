#!/bin/sh
# tools/seed_test.sh <seed-dir-name> <property> [check args...]: run the check of <property> against a scratch worktree of
# /repo with seeded/<name>/patch.diff applied (PYTHONPATH makes the check import that worktree; /repo itself is not
# touched, so several of these can run side by side), then remove the worktree.  Evidence and replays of such runs go to
# .work/ (VERIF_SCRATCH_RUN), never to evidence/.
name="$1"; prop="$2"; shift 2
wt=/tmp/st_${name}_${prop}_$$
log=/tmp/seed_${name}_${prop}.log
git -C /repo worktree add -q --detach $wt HEAD || exit 9
git -C $wt apply "/verif/seeded/$name/patch.diff" || { git -C /repo worktree remove --force $wt; echo "patch does not apply"; exit 8; }
cd /verif && PYTHONPATH=$wt VERIF_SCRATCH_RUN=1 ./check "$prop" "$@" > "$log" 2>&1; rc=$?
git -C /repo worktree remove --force $wt
git -C /repo worktree prune
echo "exit=$rc"; grep -c "^VIOLATION" "$log"; grep "^VIOLATION\|failed obligation" "$log" | head -4; tail -1 "$log" | cut -c1-220
