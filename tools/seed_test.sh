#!/bin/sh
# tools/seed_test.sh <seed-dir-name> <property> [check args...]: apply seeded/<name>/patch.diff to /repo, run the check, undo.
name="$1"; prop="$2"; shift 2
cd /repo && git status --short | grep -q . && { echo "repo not clean"; exit 9; }
git -C /repo apply "/verif/seeded/$name/patch.diff" || exit 8
cd /verif && VERIF_SCRATCH_RUN=1 ./check "$prop" "$@" > "/tmp/seed_$name.log" 2>&1; rc=$?
git -C /repo checkout -- .
echo "exit=$rc"; grep -c "^VIOLATION" "/tmp/seed_$name.log"; grep "^VIOLATION\|failed obligation" "/tmp/seed_$name.log" | head -4; tail -1 "/tmp/seed_$name.log" | cut -c1-220
