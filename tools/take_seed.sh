#!/bin/sh
# tools/take_seed.sh <id>: collect patch.diff + demo from the sub-agent's scratch worktree /tmp/wt_<id>, remove the worktree
id="$1"
mkdir -p /verif/seeded/$id
cp /tmp/wt_$id/patch.diff /verif/seeded/$id/patch.diff || exit 1
cp /tmp/wt_$id/demo_$id.py /verif/seeded/$id/ || exit 1
git -C /repo worktree remove --force /tmp/wt_$id
git -C /repo worktree prune
ls /verif/seeded/$id
