#!/bin/sh
# runs every claimed quick check sequentially on the current tree and summarises
cd /verif
for p in $(python3 -c "import json; print(' '.join(c['property_id'] for c in json.load(open('MANIFEST.json'))['checks']))"); do
  s=$(date +%s); ./check $p --tier ${1:-quick} > /tmp/runall_$p.log 2>&1; rc=$?; e=$(date +%s)
  echo "$p exit=$rc $((e-s))s $(tail -1 /tmp/runall_$p.log | cut -c1-150)"
done
