#!/bin/sh
# Emulates the acceptance run: offline environment, setup_cmd, then every claimed check of the
# given tier once, sequentially, each with its evidence file removed first; validates the
# rewritten evidence against the schema copy.  Logs go to .work/runall/ (ignored).
cd "$(dirname "$0")/.."
tier=${1:-quick}
export CARGO_NET_OFFLINE=true GOPROXY=off PIP_NO_INDEX=1 VERIF_SEED=${VERIF_SEED:-1} VERIF_TIER=$tier
mkdir -p .work/runall
./setup.sh > .work/runall/setup.log 2>&1 || { echo "setup failed"; cat .work/runall/setup.log; exit 3; }
bad=0
for p in $(python3 -c "import json; print(' '.join(c['property_id'] for c in json.load(open('MANIFEST.json'))['checks']))"); do
  rm -f evidence/$p.json
  s=$(date +%s); ./check $p --tier $tier > .work/runall/$p.log 2>&1; rc=$?; e=$(date +%s)
  v=$(grep -c "^VIOLATION" .work/runall/$p.log)
  ok=$(.venv/bin/python - "$p" <<'PY'
import json, sys, jsonschema
p = sys.argv[1]
try:
    ev = json.load(open(f"evidence/{p}.json"))
    jsonschema.validate(ev, json.load(open("vk/EVIDENCE.schema.json")))
    c = ev["coverage"]
    assert c["obligations"] == c["discharged"] >= 1, (c["obligations"], c["discharged"])
    print("evidence-ok")
except Exception as e:
    print("EVIDENCE-BAD", str(e).splitlines()[0][:120])
PY
)
  [ "$rc" = 0 ] && [ "$v" = 0 ] && [ "$ok" = evidence-ok ] || bad=1
  echo "$p exit=$rc violations=$v $ok $((e-s))s $(tail -1 .work/runall/$p.log | cut -c1-150)"
done
exit $bad
