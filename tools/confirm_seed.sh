#!/bin/sh
# tools/confirm_seed.sh <name> : confirm a seeded change in a scratch worktree (demo passes without, fails with, tests pass with)
name="$1"; d=/verif/seeded/$name; wt=/tmp/sv_$name
demo=$(ls $d/demo_*.py | head -1)
git -C /repo worktree add -q --detach $wt HEAD || exit 9
cd $wt
PYTHONPATH=$wt /venv/bin/python $demo > /tmp/sv_${name}_clean.log 2>&1; rc_clean=$?
git apply $d/patch.diff || { echo "patch does not apply"; }
PYTHONPATH=$wt /venv/bin/python $demo > /tmp/sv_${name}_mut.log 2>&1; rc_mut=$?
PYTHONPATH=$wt /venv/bin/python -m pytest -q -p no:cacheprovider -x -n 6 --timeout=900 > /tmp/sv_${name}_tests.log 2>&1; rc_t=$?
tests=$(tail -1 /tmp/sv_${name}_tests.log)
cd /; git -C /repo worktree remove --force $wt
echo "{\"seed\": \"$name\", \"demo_exit_unmodified\": $rc_clean, \"demo_exit_with_change\": $rc_mut, \"tests_exit_with_change\": $rc_t, \"tests_summary\": \"$tests\"}" > $d/confirm.json
cat $d/confirm.json
