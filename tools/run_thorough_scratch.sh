#!/bin/sh
# tools/run_thorough_scratch.sh: every check once at the thorough tier on /repo, sequentially; evidence and replays go to
# .work/ (VERIF_SCRATCH_RUN), evidence/ keeps the quick-tier records of the last acceptance-style run.
cd "$(dirname "$0")/.."
mkdir -p .work/thorough
for p in $(python3 -c "import json; print(' '.join(c['property_id'] for c in json.load(open('MANIFEST.json'))['checks']))"); do
  s=$(date +%s); VERIF_SCRATCH_RUN=1 ./check $p --tier thorough > .work/thorough/$p.log 2>&1; rc=$?; e=$(date +%s)
  echo "$p exit=$rc violations=$(grep -c '^VIOLATION' .work/thorough/$p.log) undecided=$(grep -c '^UNDECIDED' .work/thorough/$p.log) $((e-s))s $(tail -1 .work/thorough/$p.log | cut -c1-120)"
done
