#!/usr/bin/env python3
"""tools/seed_prompt.py <prop> <tag>: create scratch worktree /tmp/wt_<tag> of /repo and print the sub-agent prompt
(the text of the property only - nothing from /verif)."""
import json, subprocess, sys
prop, tag = sys.argv[1], sys.argv[2]
subtle = len(sys.argv) > 3 and sys.argv[3] == "subtle"
p = next(json.loads(l) for l in open("/verif/properties.jsonl") if json.loads(l)["id"] == prop)
wt = f"/tmp/wt_{tag}"
subprocess.run(["git", "-C", "/repo", "worktree", "add", "-q", "--detach", wt, "HEAD"], check=True)
anch = p["anchors"]
HINT = (" Do NOT take the first idea that comes to mind (a one-token slip in the most prominent function named in the anchors): reviewers have tried those already. Look for a subtler route - a helper or base class the anchored code depends on, an interaction between two features, state carried from one call to the next, an unusual but legal argument type / shape / option, the edge of the quantifier's domain, or a change that keeps every individual function plausible but breaks their composition." if subtle else "")
text = (f"""You are helping to evaluate a verification effort by playing the adversary. Work ONLY inside the git worktree {wt} (a scratch checkout of the Python package `cardillo`, a simulation framework for flexible multibody systems). Do not read or touch /repo, /verif or any other directory outside {wt} (reading installed site-packages for library docs is fine).

Here is a semantic property that cardillo is supposed to satisfy:

TITLE: {p['title']}
STATEMENT: {p['statement']}
QUANTIFIER: {p['quantifier']['text']}
CODE IT IS ANCHORED IN: {json.dumps(anch) if not isinstance(anch, str) else anch}

Your task: produce ONE realistic change (a plausible bug a maintainer could introduce: a refactoring slip, wrong sign/index/transpose, stale value, an off-by-one, a dropped term, a missed case, two cooperating sites that each look fine alone ...) to the cardillo source in {wt} that BREAKS this property while
  (a) the package still imports, and
  (b) the existing test-suite still passes completely: run it with
      cd {wt} && PYTHONPATH={wt} /venv/bin/python -m pytest -q -p no:cacheprovider -x -n 6 --timeout=900
      (takes about a minute; it must report 85 passed with your change applied).
The change must NOT be one that ordinary use would expose at once (no crash on every call, no grossly wrong result on the default path). It should need something specific to manifest: an unusual input or parameter combination, a particular branch, a multi-step sequence of operations, a particular state/history, a rarely used option, or two cooperating sites. Prefer a change in the code the property is anchored in (or code it directly depends on). Keep it small (a few lines). Do not edit tests.{HINT}

Also write a demonstration program {wt}/demo_{tag}.py (plain Python, run as `PYTHONPATH={wt} /venv/bin/python demo_{tag}.py`) that exercises the real cardillo code, checks the property on the specific inputs needed, and exits with status 0 when the property holds and status 1 (printing what failed) when it is violated. It must exit 0 on the UNCHANGED code and 1 WITH your change. Verify both yourself (use `git diff -- cardillo > patch.diff; git checkout -- cardillo; ...; git apply patch.diff`; do NOT use `git stash`: the stash is shared with other checkouts of this repository).

Deliverables, all inside {wt}:
  1. {wt}/patch.diff  - output of `git diff -- cardillo` with your change applied (the change must also stay applied in the worktree),
  2. {wt}/demo_{tag}.py,
  3. in your final answer: which file/lines you changed, why it breaks the property, exactly what is needed for the breakage to manifest, and the commands you ran with their results (demo on unchanged code, demo with change, pytest summary line with change).
Note: if the unchanged code already violates the property on the inputs you had in mind (the demo fails without your change), pick a different angle - the demo must pass on the unchanged tree. Use /venv/bin/python (numpy, scipy etc. are installed there). There is no network. Before relying on PYTHONPATH, verify once that `PYTHONPATH={wt} /venv/bin/python -c "import cardillo; print(cardillo.__file__)"` prints a path inside {wt}.""")
open(f"{wt}/TASK.md", "w").write(text)
print(f"Read the file {wt}/TASK.md and carry out the task it describes exactly; work only inside {wt}. Report as its section 'Deliverables' asks.")
