#!/usr/bin/env python3
"""tools/mkmeta.py: (re)writes seeded/<id>/meta.json from the table below + confirm.json + detect.json, and seeded/MATRIX.md."""
import json, os

ROOT = os.path.dirname(os.path.dirname(os.path.abspath(__file__)))
D = {
    "C16": ("consistent_initial_conditions: the initial slip velocities gamma_F are no longer sliced to the active friction set B_F", "an open frictional contact assembled before a closed one (local friction indices then address the wrong rows)"),
    "C16b": ("same slip as seeded/C16, rediscovered independently: gamma_F = system.gamma_F(t0, q0, u0) without [B_F]", "at least two frictional contacts, an open one assembled before a persistent one, with different stick/slip state or slip direction"),
    "C17": ("Rattle stage 2 evaluates chi_g, chi_gamma at t_n instead of t_n+1", "a rheonomic (explicitly time dependent) bilateral constraint, e.g. a joint on a moving Frame; velocity level only"),
    "C17b": ("DualStormerVerlet._step evaluates the combined constraint residual c(...) at the midpoint time t_m instead of t_n+1", "DualStormerVerlet with a bilateral constraint that depends explicitly on time (joint on a moving Frame)"),
    "C18": ("Rattle.prox2 builds xi_N with q_n in place of q_n+1 for the post-impact gap rate", "contacts whose normal changes between q_n and q_n+1 (oblique sphere-sphere impact); velocity-level law of RATTLE only"),
    "C18b": ("compute_I_F numbers the normal contact of an active friction law with a running counter instead of looking its index up in the active set", "Moreau (or consistent initial conditions); a frictionless contact (no friction law) assembled before a frictional one, both closed, different normal percussions"),
    "C20b": ("ScipyIVP.solve allocates u_dot, la_g, la_gamma, la_c with len(t_eval) rows instead of len(sol.t)", "a run truncated by the external integrator (solve_ivp gives up before t1)"),
    "C21": ("Rattle: the RuntimeError for a non-converged stage-2 fixed-point loop is constructed but not raised", "stage 1 converges but the stage-2 projection runs out of iterations (impact with a small fixed_point_max_iter)"),
    "C21b": ("Newton.solve (statics) returns max(i,1) load steps after a failure, i.e. the unconverged step 0 when the very first load step fails", "failure at load step 0 with continue_with_unconverged off (initial configuration far from the equilibrium at t = 0)"),
    "C23": ("Newton.solve (statics) no longer passes options=self.options to fsolve", "user tolerances tighter/looser than the defaults: the returned load steps are converged for the default tolerance only"),
    "C23b": ("Newton (statics) skips the solve at load level 0 and copies the initial configuration into the first two rows", "anything acting at t = 0 (dead load, F0 + t F1, displacement-controlled constraint, q0 not an equilibrium)"),
    "C28": ("system_from_urdf: child.R_omega_IR = A_JRc @ J_omega_IRc (transpose dropped)", "a joint with a non-trivial relative rotation and a spinning parent or joint rate: wrong initial angular velocities, assemble then rejects g_dot"),
    "C28b": ("joint_kinematics (prismatic): J_r_JRc = displacement * axis instead of displacement * e1", "a prismatic joint whose URDF <axis> is not of unit length and a non-zero requested displacement; g and g_dot stay satisfied"),
    "C29": ("Export.export_contr names the .vtu files after contr_name instead of the de-duplicated file_name", "two exports that resolve to the same name into one folder (e.g. the same body exported twice with different options)"),
    "C29b": ("same slip as seeded/C29, rediscovered independently", "two export_contr calls on one Export object whose names resolve to the same string (e.g. base_export=True after a mesh export)"),
    "C14b": ("System.add drops the search for a free suffix and System.remove/pop decrement ncontr (two cooperating sites)", "three contributions with one base name, remove one, add a fourth: two contributions share a name and the registry loses one"),
    "C24b": ("Revolute.assembler_callback resets previous_quadrant on every assembly while n_full_rotations is kept", "restart of a system whose revolute angle was last seen in quadrant 4 (relative angle in (-pi/2, 0)) and is used by a force law"),
    "C26b": ("CosseratRodDisplacementBased._eval_strains_DB divides the cached strains in place (B_Gamma /= J)", "displacement-based rod with reference stretch J != 1, a strain/stress post-processing call and a later cache hit at the same (qe, xi)"),
    "C13b": ("Mesh1D.eval_basis cache key without the element number", "several elements, xi exactly on an interior element boundary, two requests for different elements on one mesh"),
    "C10b": ("CosseratRod_PetrovGalerkin.E_pot_el divides the cached strains in place", "E_pot evaluated before another quantity at the same nodal coordinates (cache hit), reference stretch J != 1"),
    "C06b": ("Sphere2Sphere.n cache key without t", "a Sphere2Sphere contact with a partner on a moving Frame, evaluated at two times with a bit-identical q"),
    "C01b": ("Exp_SO3_quat (normalising): a division-by-zero guard, matrix /= P @ P + eps (patch.diff is the same change rebased onto the tree after fix 90a30e8f, which rewrote that line; the sub-agent's file is patch.as-delivered.diff)", "a quaternion far from unit length on the small side (|P| <= 1e-5): errors eps/|P|^2"),
    "C02b": ("Log_SO3 near half-turns: n n^T taken from the exact half-turn formula (A + A^T + 2 I)/4", "rotation angle in (pi - 0.0447, pi) about an axis that is not a coordinate axis"),
    "C03b": ("T_SO3_quat_P adds the normalisation correction also for normalize=False", "the non-default normalize=False, compared in the direction along P itself"),
    "C04b": ("check_time_derivatives returns f_t where a non-callable second derivative f_tt was supplied", "a Frame with callable motion and a constant (non-callable) second derivative"),
    "C05b": ("ProjectedPositionOrientationBase.g_ddot: e_dot taken from column i (loop counter) instead of the constrained axis", "Prismatic/Cylindrical with axis 0 or 1 (Planarizer axis 1, 2), a rotating first body and relative motion at the joint"),
    "C07b": ("TwoPointInteraction: v_P1 / v_P1_q evaluated at B_r_CP2 instead of B_r_CP1", "a rotating rigid body as subsystem 1 with B_r_CP1 != B_r_CP2 and a force law that uses l_dot (damper)"),
    "C08b": ("TwoPointInteraction.W_l_q: sign of the n . dJ_P1/dq1 term flipped", "subsystem 1 with velocity DOFs and an eccentric attachment point (J_P_q != 0), non-zero force"),
    "C09b": ("Revolute.q0 is gathered on the first assembly only", "a force law with default l_ref attached to a joint that was assembled before with another initial state"),
    "C11b": ("rod r_OP adds the offset to the cached centerline point in place", "non-zero B_r_CP and a second query of the same (qe, xi) while the cache entry is alive"),
    "C12b": ("Harsch2021.B_n_B_Gamma loses the factor lambda0 in the rank-one term (the defect fixed earlier, re-introduced)", "reference strain with |B_Gamma0| != 1"),
    "C15b": ("CooMatrix dense writes copy raw bytes (frombytes) instead of converting each entry", "a dense block whose dtype is not float64 (int64 block, Python ints)"),
    "C23c": ("Riks.solve labels the first returned point with la_arc_span[0]", "a load window that does not start at 0"),
    "C25b": ("Revolute.reset no longer restores previous_quadrant", "reset after a history whose last query was in quadrant 4 (or 2/3 followed by 4), then further queries"),
    "C27b": ("Sphere.prox: `norm_x < radius` instead of `<=`", "degenerate ball (radius 0) and x exactly zero: 0 * 0 / 0"),
    "C28c": ("system_from_urdf: child.v_R uses the joint-relative J_omega_JRc instead of the absolute J_omega_IRc in the transport term", "a joint with non-zero relative translation below a rotating parent"),
    "C29c": ("Export.__add_key stacks array-valued data of a list export in reversed order", "export_contr of a list of contributions whose point/cell data are numpy arrays (rods' directors, frictional contacts' P_F)"),
    "C14c": ("System.assemble: the counter resets are compacted into chained assignments and `self.nla_c = 0` is lost", "a compliance contribution (force law in compliance form, mixed rod) and a second assemble() / set_new_initial_state"),
    "C17c": ("ScipyIVP.la_g_la_gamma_la_c drops W_tau la_tau from the right-hand side of the multiplier solve", "ScipyIVP on a constrained system with an actuator (Motor, PD/PID controller): reported u_dot, la_g violate g_ddot = 0"),
    "C18c": ("System.xi_F restitutes the pre-impact slip with e_N instead of e_F", "Rattle / DualStormerVerlet, a contact with friction and e_N > 0 (e_F = 0), an impact where slip turns into stick"),
    "C19b": ("Rattle.R_x1 evaluates h at u_n instead of u_n+1/2 in stage 1", "velocity-dependent forces: gyroscopic terms of a rigid body with non-spherical inertia rotating in 3-D"),
    "C20c": ("Rattle.solve takes ceil(t1/dt) steps instead of ceil((t1 - t0)/dt)", "Rattle on a system with non-zero initial time (System(t0=...) or a restart)"),
    "C21c": ("BackwardEuler: the re-solve inside the contact fixed-point loop is stored in sol_fp but the failure check still reads the first solve `sol`", "BackwardEuler with contacts, a step whose fixed-point loop needs a re-solve, and that re-solve failing"),
    "C24c": ("System.set_new_initial_state distributes q0 only to contributions that also have velocity coordinates", "a contribution with nq but no nu (MaxwellElement, PIDcontroller) and a restart"),
    "C26c": ("RigidBody.r_OP returns q[:3] itself (a view of the caller's array) for a zero offset", "the caller later updates its q in place; a later evaluation at the old values hits the rewritten cache entry"),
    "C03c": ("T_SO3_psi switches to truncated series for beta2_psik, c_psik below an angle of 5e-2 (the series are one order too short for that threshold)", "rotation vectors with 1e-3 < |psi| < 5e-2: the derivative of the tangent map is off by ~1e-9..1e-7 relative, above rounding but below every test tolerance"),
    "C04c": ("Frame.B_Omega: skew2ax(A_t A^T) (the inertial-frame spin) instead of skew2ax(A^T A_t)", "a Frame whose rotation axis is not fixed in the body frame (the two agree for rotations about a fixed axis)"),
    "C05c": ("auxiliary_functions: A_IJ1_q1 einsum contracts with A_K1B0 transposed", "a joint whose frame is rotated against subsystem 1 by a non-symmetric rotation (A_K1B0 != A_K1B0^T), i.e. body 1 not in reference orientation at assembly"),
    "C06c": ("Sphere2Plane.gamma_F_dot uses v_Q in place of a_Q for the frame acceleration", "a contact plane on a moving Frame with non-zero velocity or acceleration of its origin"),
    "C07c": ("Force_line_distributed.h_el integrates with the dynamic quadrature rule and the velocity DOF table", "a rod whose nquadrature differs from nquadrature_dyn (reduced integration), load not constant along the rod"),
    "C08c": ("Revolute.l_q drops the division by x^2 + y^2", "a revolute joint whose bodies violate the constraint slightly (x^2 + y^2 != 1): the derivative is taken off the manifold by every Newton iterate"),
    "C09c": ("System.set_new_initial_state writes q0[:] / u0[:] into the existing arrays", "anything that still holds the previous initial state (a stored solution row, a reference configuration, a second system sharing the contribution)"),
    "C10c": ("CosseratRodMixed.f_int_el / potential read J_dyn instead of J in the static quadrature loop", "a mixed rod with nquadrature != nquadrature_dyn or a non-uniform reference stretch"),
    "C11c": ("CosseratRodDisplacementBased internal forces read J_dyn instead of J", "a displacement-based rod with nquadrature != nquadrature_dyn or a non-uniform reference stretch"),
    "C12c": ("Simo1986: C_n_inv, C_m_inv via np.reciprocal of the stiffness arrays", "integer-typed stiffnesses (np.reciprocal of an integer array truncates to 0)"),
    "C13c": ("Mesh1D.quadrature_points maps one reference rule affinely and divides the weights by nelement", "a knot vector with non-uniform element lengths"),
    "C15c": ("CooMatrix.__setitem__ accepts any dense value of the right size instead of the right shape", "a block assigned with transposed shape (n x m value into an m x n slot): silently scrambled instead of rejected"),
    "C16c": ("consistent_initial_conditions tests norm(gamma_F) of all contacts instead of the contact's own gamma_F[i_F] for sticking", "two frictional contacts, one sticking and one sliding"),
    "C22c": ("fsolve scales the residual with |x| instead of |f|", "unknowns of large magnitude and newton_rtol > 0: a residual far above tolerance is accepted as converged"),
    "C25c": ("Revolute.plane_axes = np.delete((0,1,2), axis) instead of the cyclic roll", "axis = 1: the plane axes come out as (0, 2) instead of (2, 0), so the measured angle changes sign"),
    "C27c": ("estimate_prox_parameter writes the result into an array of W's dtype", "an integer-typed or float32 W: the prox parameters are truncated (to 0 for r < 1)"),
    "C02c": ("Log_SO3 near half-turns: n n^T from the exact half-turn formula 0.25 (A + A^T) + 0.5 I (same idea as seeded/C02b, found independently)", "rotation angle in (3.0969, pi - 1e-4) about an axis that is not a coordinate axis"),
    "C19c": ("Rattle.R_x1 evaluates h at u_n instead of u_n+1/2 in stage 1 (same slip as seeded/C19b, found independently)", "velocity-dependent forces: gyroscopic torque of an asymmetric rigid body tumbling in 3D"),
    "C23d": ("rod J_P: rotational block -(A_IB B_r_CP)~ instead of -A_IB (B_r_CP)~", "a force or joint attached to a rod with an offset from the centerline (B_r_CP != 0); equilibrium residuals stay consistent, frame indifference is lost"),
    "C28d": ("system_from_urdf: transport term of child.v_R uses J_omega_JRc instead of J_omega_IRc (same slip as seeded/C28c, found independently)", "a displaced prismatic / planar / floating joint below a rotating parent"),
    "C10d": ("CosseratRod_PetrovGalerkin.E_pot_el divides the cached strains in place (same slip as seeded/C10b, found independently)", "E_pot evaluated before another quantity at the same nodal coordinates, reference stretch J != 1, few elements (cache entries survive)"),
    "C14d": ("rod: constant_mass_matrix and the CooMatrix accumulator move from _M_coo to __init__, so every assemble() appends the element mass matrices again", "a system containing a Cosserat rod assembled more than once (explicit second assemble, set_new_initial_state, add/remove + assemble)"),
    "C17d": ("fixed_point_iteration without the defensive copies (same slip as seeded/C22b, found independently)", "DualStormerVerlet(accelerated=False) on a constrained system: the in-place map makes the increment 0 after one Newton step"),
    "C21d": ("fsolve: `converged = True; if error >= 1: <loop> else: converged = False` - equivalent over the reals, not for NaN", "a residual that is NaN/inf already at the initial guess (excitation table left, sqrt/log force law out of domain): success=True, no warning"),
    "C24d": ("Spring.assembler_callback: `self.l_ref = self.l_ref or default`", "a spring whose rest length / angle is exactly 0 (explicit 0, or defaulted on a joint with angle0 = 0): replaced at the first assembly of a two-point interaction and at every restart"),
    "C26d": ("RigidBody.r_OP returns q[:3] (a view of the caller's array) for a zero offset (same idea as seeded/C26c, found independently)", "the caller updates q in place and asks again for the old values: cache hit on a live view"),
    "C05d": ("Frame.B_Omega / B_Psi return the inertial-frame spin skew2ax(A_t A^T) (B_Psi stays its exact time derivative, Frame alone looks self-consistent)", "an orientation-constraining joint on a prescribed-motion Frame whose rotation axis moves; g_dot and g_ddot are off, g and W_g are not (caught by C04, the provider side of the subsystem contract)"),
    "C12d": ("Harsch2021: B_n and B_n_B_Gamma take |B_Gamma0| from a memo keyed on the identity of the B_Gamma0 array", "the same law object called again with the same array object after its contents were overwritten in place"),
    "C16d": ("consistent_initial_conditions warm-starts la_N0 / la_F0 from the values the previous assembly stored on the system", "a second assembly (set_new_initial_state) in which a contact that carried force before is open or separating: it keeps the old force"),
    "C18d": ("compute_I_F: running counter instead of the lookup of the normal index in the active set (same slip as seeded/C18b, found independently)", "Moreau, a frictionless contact assembled before a frictional one, both closed"),
    "C20d": ("ScipyIVP.solve sizes u_dot, la_g, la_gamma, la_c with len(t_eval) instead of len(sol.t) (same slip as seeded/C20b, found independently)", "a run truncated by the external integrator"),
    "C29d": ("export_contr builds the frame file with Path.with_suffix('.vtu')", "a contribution or file name that contains a dot (pm_0.5, body_v1.2): every frame is written to the same file"),
    "C04d": ("cross3 builds its result with dtype=a.dtype", "an integer-typed first argument with a non-integral result: the angular velocity of a rigid body given as integers (System.assemble hands an int64 u0 on when all initial velocities are integers)"),
    "C06d": ("Sphere2Plane.gamma_F_dot: `r_QS_dot = v_P; r_QS_dot += ...` updates the array RigidBody.v_P holds in its cache", "RigidBody subsystem, plane translating at that instant, and g_N_dot / gamma_F queried at the same (t, q, u) right after gamma_F_dot (System.assemble ends that way)"),
    "C08d": ("TwoPointInteraction.l_dot_q: `v_P1P2 = self.v_P2(...); v_P1P2 -= self.v_P1(...)` updates the array RigidBody.v_P holds in its cache", "second subsystem a RigidBody, first one moving, damping (l_dot_q used), and a second evaluation at the same state of body 2"),
    "C11d": ("Mesh1D.eval_basis cache key without the element number (same slip as seeded/C13b, found independently)", "xi on an interior element boundary, asked first with the explicit left element (VTK export, eval_strains) and then without"),
    "C13d": ("gauss(n, interval) is served from an lru_cache and returns the stored arrays", "a caller that post-processes a returned rule in place (w *= J): every later request for the same (n, a, b) - any Mesh1D built afterwards - gets the modified rule"),
    "C25d": ("Revolute.l_dot = l_dot_u @ u", "a joint partner that is a Frame with prescribed rotation about the joint axis: its angular velocity is not carried by u and is dropped"),
    "C03d": ("Log_SO3_A takes the half-turn guard of Log_SO3 (`ca > -0.999`) and falls back to the constant identity-derivative in the band", "rotation angle in (3.0969, pi): Log_SO3_A (and Log_SE3_H) return the derivative valid at the identity, off by 1.4-2.0"),
    "C07d": ("Force_line_distributed.h_el integrated with the dynamic (full) quadrature while E_pot keeps the static one (same idea as seeded/C07c, found independently)", "reduced integration and a load that varies along the rod or a non-constant reference stretch"),
    "C09d": ("TwoPointInteraction.assembler_callback gathers q0 / u0 into arrays preallocated with the dtype of subsystem 1", "subsystem 1 with integer-typed q0 and subsystem 2 with fractional coordinates: the default reference length is computed from truncated coordinates"),
    "C15d": ("CooMatrix.__setitem__, sparse branch: self.data.frombytes(coo.data.tobytes())", "a scipy sparse block whose stored dtype is not float64 (integer incidence blocks, eye_array(n, dtype=int))"),
    "C22d": ("fixed_point_iteration keeps a reference to the map's result (`x = x_new`) instead of a copy", "a map that writes every result into one output array of its own and returns it: the previous iterate changes under the helper, the increment is 0 after two iterations"),
    "C27d": ("prox.Sphere uses cardillo.math.algebra.norm (sqrt(a @ a)) instead of np.linalg.norm", "integer-typed vectors whose squared norm overflows the dtype (int64 above 3e9, int32 above 46341, int16 above 181)"),
    "C01d": ("Exp_SO3_quat_P returns early (`if P @ P == 1`) without the inner derivative of the normalisation", "a quaternion of exactly unit length and a direction with a component along P: the derivative of the normalising map is wrong on the unit sphere"),
    "C02d": ("T_SO3_inv: gamma = alpha / beta with beta = 2 (1 - cos)/angle^2 (exact over the reals)", "0 < |psi| < 1e-5: catastrophic cancellation, NaN below 1e-8; T T_inv != I and the SE(3) round trips fail"),
    "C16e": ("compute_I_F: running counter for the normal index (same slip as seeded/C18b, found independently)", "consistent initial conditions with a frictionless closed contact assembled before a frictional one"),
    "C19d": ("Rattle.solve: W_cn is refreshed at the end of the step instead of before stage 2 (two sites)", "a force law in compliance form whose force direction W_c(q) changes during the motion: stage 2 kicks with W_c(q_n) la_c(q_n+1), first order, not reversible"),
    "C23e": ("Moment (inertial basis): A_IB instead of A_IB^T maps the moment to the body frame, h_q changed consistently", "a 3D inertial tip moment or a rotated placement: equilibria converge, frame indifference is lost"),
    "C28e": ("system_from_urdf: default inertial frame set once before the walk, overridden only when <inertial> has an <origin> (loop-carried R_r_RC, A_RB)", "a link whose <inertial> omits <origin>, processed after a link with a non-trivial inertial origin"),
    "C05e": ("PositionOrientationBase.g_dot: `v = self.v_J2(...); v -= self.v_J1(...)` updates the array RigidBody.v_P holds in its cache", "subsystem 2 a RigidBody, subsystem 1 moving, and a second read of body 2's point velocity at the same state (two joints on one point, repeated call, finite differences over subsystem 1)"),
    "C10e": ("set_reference_strains assigns self.Q = Q at its end instead of its beginning while its loops read self.Q", "an explicit set_reference_strains(Q_new) after construction: the reference strains lag one call behind"),
    "C14e": ("CooMatrix.toarray fills a dense array by assignment (last write wins) instead of summing duplicates", "format='array' on a System matrix to which several contributions add at the same entries"),
    "C20e": ("SolutionIterator treats a field whose last dimension equals the number of instants as stored column-wise", "a square field: as many stored instants as coordinates (3 instants of a point mass, 6 or 7 of a rigid body)"),
    "C21e": ("fixed_point_iteration without the defensive copies (same slip as seeded/C22b, found independently)", "DualStormerVerlet(accelerated=False) with a step equation that is nonlinear in u: convergence is declared after one update, nothing raises"),
    "C24e": ("System.set_new_initial_state writes into the contributions' existing q0 / u0 arrays (same idea as seeded/C09c, found independently)", "bodies created with one shared u0 array, or with integer-typed initial arrays"),
    "C06e": ("skew2ax reads the lower-triangle entries only and Frame.B_Psi drops the symmetric term A_t^T A_t (two cooperating sites, each harmless alone)", "a sphere carried by a Frame whose body angular velocity has two non-zero components: gamma_F_dot is not the rate of gamma_F"),
    "C08e": ("RigidBody.v_P_q becomes a cachedmethod whose key lacks u", "a velocity-dependent force law on an eccentric point of a rigid body, Jacobian evaluated twice at the same (t, q) with different u"),
    "C11e": ("rod r_OP adds the offset into the cached centerline (`r_OP += A_IB @ B_r_CP`), same idea as seeded/C11b", "non-zero B_r_CP and a second query of the same (qe, xi) while the entry is cached"),
    "C13e": ("Mesh1D.eval_basis cache key without the element number (same slip as seeded/C13b, found independently)", "xi on an interior element boundary asked for two different elements"),
    "C26e": ("rod r_OP adds the offset into the cached centerline (same change as seeded/C11e, found independently)", "non-zero B_r_CP, repeated evaluation at the same (qe, xi)"),
    "C29e": ("export_contr builds the frame file with Path.with_suffix (same slip as seeded/C29d, found independently)", "a name containing a dot"),
    "C04e": ("RigidBody.r_OP returns q[:3] itself for a zero offset (same idea as seeded/C26c, found independently)", "the caller advances its state array in place; an earlier position, or the memoised one, changes with it"),
    "C12e": ("Harsch2021: |B_Gamma|, |B_Gamma0| from a cachedmethod keyed on the current strain B_Gamma only", "two consecutive calls with equal B_Gamma and reference strains of different length: potential, B_n, B_n_B_Gamma use the previous reference stretch"),
    "C17e": ("fsolve scales its residual with options.fixed_point_atol instead of options.newton_atol", "a user who tightens newton_atol only: Rattle / BackwardEuler stop at 1e-6 and report success; constraints hold to the fixed-point tolerance, not the Newton tolerance asked for"),
    "C18e": ("compute_I_F: running counter for the normal index (same slip as seeded/C18b, found independently)", "Moreau, a closed frictionless contact assembled before frictional ones"),
    "C25e": ("Revolute.angle / angle_dot become lambdas closing over self instead of bound methods", "a deep-copied system (restart workflow): deepcopy keeps the function object, so the copy's angle reads and updates the ORIGINAL joint's full-turn counter"),
    "C27e": ("Sphere.prox compares squared lengths with the unclamped radius (r z)^2", "a negative normal force z < 0 with |x| <= r |z|: the point is returned although the ball is degenerate (radius 0)"),
    "C03e": ("Log_SO3_A guarded by `ca > -0.999` (same change as seeded/C03d, found independently)", "rotation angle in (3.0969, pi)"),
    "C07e": ("TwoPointInteraction.l_dot: `v = self.v_P2(...); v -= self.v_P1(...)` updates the array RigidBody.v_P holds in its cache", "point 2 on a RigidBody, point 1 moving, and the same state observed twice (la_c then c, la_c then h): compliance residual non-zero at the force-form force, damper generates energy"),
    "C09e": ("Revolute.assembler_callback stores t0 / q0 only on the first assembly", "a force law with default reference attached to a joint after the initial state was changed (set_new_initial_state, or bodies reused in a fresh System)"),
    "C15e": ("CooMatrix.__setitem__, dense branch: self.data.frombytes(value.tobytes()) (same idea as seeded/C15b, found independently)", "a dense block, list or scalar whose dtype is not float64"),
    "C16f": ("System.g_N_ddot / gamma_F_dot allocate with dtype=u_dot.dtype", "all bodies with integer-typed initial velocities and a persistent contact with a non-integer acceleration offset: consistent initial conditions from truncated zeta_N, zeta_F"),
    "C22e": ("fixed_point_iteration hands np.asarray(x, dtype=float) (no copy for float x) to the map", "a map that updates its argument in place: error 0 after one iteration, nothing raises"),
    "C02e": ("Exp_SO3 returns the module-level constant eye3 itself for psi = 0", "a caller that updates the returned matrix in place (A[:] = A @ Exp_SO3(dpsi)): the package's identity matrix is overwritten and every rotation routine returns garbage afterwards"),
    "C11f": ("Mesh1D.eval_basis cache key without the element number (same slip as seeded/C13b, found independently)", "xi on an interior element boundary asked with the explicit left element first (eval_strains, surface, export)"),
    "C14f": ("ScalarForceLawBase.assembler_callback assembles its interaction only if it has no qDOF yet (hasattr guard)", "a force law on an interaction that is not added before it, a first assembly, then the removal of a contribution that shifts the layout, then assemble(): the force law scatters at the old indices"),
    "C21f": ("fixed_point_iteration without the defensive copies (same slip as seeded/C22b, found independently)", "DualStormerVerlet(accelerated=False) with velocity-dependent forces"),
    "C24f": ("System.set_new_initial_state writes into the contributions' existing arrays (same change as seeded/C09c, found independently)", "bodies built from one shared u0 array, or integer-typed initial arrays"),
    "C28f": ("system_from_urdf accumulates the transport term in place into J_v_JRc, the array joint_kinematics returned", "a floating joint below the root whose velocity is requested as a numpy array: integer-typed raises, float-typed is modified for the caller and wrong on a second import"),
    "C05f": ("rod r_OP adds the offset into the cached centerline (same change as seeded/C11e, found independently)", "a joint on a rod cross-section whose joint point lies off the centerline, evaluated more than once at the same element coordinates"),
    "C08f": ("TwoPointInteraction.l_dot_q = u @ W_l_q", "an end point on a Frame with prescribed velocity (base excitation) and a force law with a rate term: the prescribed velocity is not carried by u"),
    "C20f": ("SolutionIterator keeps its record type as a class attribute created on first use", "solutions of two solver families (different extra fields) iterated in one process: the second raises RuntimeError"),
    "C29f": ("export_contr builds the frame file with Path.with_suffix (same slip as seeded/C29d, found independently)", "a name containing a dot"),
    "C22b": ("fixed_point_iteration calls fun(x) without the defensive copy", "a fixed-point map that updates its argument in place (DualStormerVerlet's own map with accelerated=False does)"),
}
rows = []
for sd in sorted(os.listdir(os.path.join(ROOT, "seeded"))):
    d = os.path.join(ROOT, "seeded", sd)
    if not os.path.isfile(os.path.join(d, "patch.diff")):
        continue
    mp = os.path.join(d, "meta.json")
    meta = json.load(open(mp)) if os.path.exists(mp) else {"seed": sd, "breaks_property": sd[:3]}
    if sd in D:
        meta["change"], meta["needs_to_manifest"] = D[sd]
    meta.setdefault("produced_by", "fresh sub-agent given only the property text and a scratch worktree")
    cp = os.path.join(d, "confirm.json")
    if os.path.exists(cp):
        c = json.load(open(cp))
        c["how"] = "tools/confirm_seed.sh in a scratch worktree /tmp/sv_<seed> (removed afterwards): demo on the unmodified tree, demo with the patch, full pytest with the patch"
        meta["confirmed_by_me"] = c
    dp = os.path.join(d, "detect.json")
    if os.path.exists(dp):
        det = json.load(open(dp))
        meta["check_results"] = [dict(command=f"git -C /repo apply seeded/{sd}/patch.diff; ./check {r['check']}; git -C /repo checkout -- .", **r) for r in det["runs"]]
        caught = [r["check"] for r in det["runs"] if r["exit"] == 1]
        rows.append((sd, meta.get("change", "")[:110], ", ".join(caught) if caught else "MISSED", "; ".join((r["first_failed_obligations"] or [""])[0][:120] for r in det["runs"] if r["exit"] == 1)))
    json.dump(meta, open(mp, "w"), indent=1)
with open(os.path.join(ROOT, "seeded", "MATRIX.md"), "w") as fh:
    fh.write("# Seeded changes vs checks (written by tools/mkmeta.py from seeded/*/detect.json)\n\n| seed | change | caught by | first failed obligation |\n|---|---|---|---|\n")
    for r in rows:
        fh.write("| " + " | ".join(x.replace("|", "/") for x in r) + " |\n")
print(len(rows), "seeds with detection results")
