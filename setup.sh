#!/bin/sh
# Builds /verif/.venv offline: a venv on top of /venv (the repository's own env)
# with icontract, mpmath, jsonschema from the local wheelhouse.
set -e
cd "$(dirname "$0")"
if [ ! -x .venv/bin/python ] || ! .venv/bin/python -c "import icontract, jsonschema, mpmath, numpy, cardillo" 2>/dev/null; then
  rm -rf .venv
  /venv/bin/python -m venv .venv
  PIP_NO_INDEX=1 .venv/bin/pip install -q --no-index --find-links /opt/veriftools/wheels icontract mpmath jsonschema
  echo "import site; site.addsitedir('/venv/lib/python3.12/site-packages')" > .venv/lib/python3.12/site-packages/zz_overlay.pth
fi
.venv/bin/python -c "import icontract, jsonschema, mpmath, numpy, cardillo; print('verif venv ok', cardillo.__file__)"
