"""Index bookkeeping between normal contacts and friction laws (shared by C16 and C18).

`compute_I_F(I_N, system, slice)` maps every friction law of an ACTIVE normal contact to
(local index of its normal force inside the active set, local indices of its friction forces
inside the active friction set).  Specification, written independently here:

    active laws      laws without normal-force dependence, and laws whose normal contact is in I_N
                     (all laws if slice is False), in assembly order
    I_F              concatenation of their global friction indices, in that order
    i_F_local        positions of the law's friction indices inside I_F
    i_N_local        position of the law's normal index inside I_N

The space of layouts is enumerated exhaustively up to a stated size (integer index data,
no arithmetic on reals): this is a complete check of that finite space, not an unbounded proof.
"""

import itertools

import numpy as np

import cardillo.solver._base as base


class _C:
    pass


def layouts(max_contacts=3, dirs=(0, 1, 2)):
    for n in range(1, max_contacts + 1):
        yield from itertools.product(dirs, repeat=n)


def make_system(layout, extra_reservoir=False):
    """contributions with one normal contact each; layout[i] = number of friction directions of contact i (0: frictionless,
    no friction law).  extra_reservoir: a friction law without normal-force dependence in front (constant force reservoir)."""
    contrs, f0 = [], 0
    if extra_reservoir:
        c = _C()
        c.la_NDOF, c.la_FDOF = np.array([], dtype=int), np.arange(f0, f0 + 1)
        c.friction_laws = [([], [0], "reservoir")]
        f0 += 1
        contrs.append(c)
    n0 = 0
    for i, nf in enumerate(layout):
        c = _C()
        c.la_NDOF, c.la_FDOF = np.array([n0]), np.arange(f0, f0 + nf)
        c.friction_laws = [([0], list(range(nf)), f"law{i}")] if nf else []
        c.index = i
        n0 += 1
        f0 += nf
        contrs.append(c)

    class Sys:
        def get_contribution_list(self, name):
            return [c for c in contrs if c.friction_laws] if name == "gamma_F" else list(contrs)

    return Sys(), contrs


def spec_I_F(contrs, I_N, slice_):
    I_N = list(I_N)
    I_F, laws = [], []
    for c in contrs:
        for i_N, i_F, res in c.friction_laws:
            gF = [int(c.la_FDOF[j]) for j in i_F]
            if len(i_N) == 0:
                laws.append(([], list(range(len(I_F), len(I_F) + len(gF))), res))
                I_F += gF
                continue
            gN = int(c.la_NDOF[i_N][0])
            if slice_ and gN not in I_N:
                continue
            laws.append(([I_N.index(gN)] if gN in I_N else [], list(range(len(I_F), len(I_F) + len(gF))), res))
            I_F += gF
    return I_F, laws


def exhaustive_compute_I_F(tier):
    """static obligations: real compute_I_F == specification on every layout / active set of the stated space"""
    maxc = 3 if tier == "quick" else 4
    n, bad = 0, []
    for extra in (False, True):
        for layout in layouts(maxc):
            sysm, contrs = make_system(layout, extra)
            for r in range(len(layout) + 1):
                for act in itertools.combinations(range(len(layout)), r):
                    for slice_ in (True, False):
                        I_N = np.array(act, dtype=int) if slice_ else np.arange(len(layout))
                        n += 1
                        try:
                            I_F, laws = base.compute_I_F(I_N, sysm, slice=slice_)
                            got = ([int(x) for x in I_F], [([int(v) for v in np.atleast_1d(a)], [int(v) for v in b], c) for a, b, c in laws])
                        except Exception as e:  # noqa: BLE001
                            got = f"raised {type(e).__name__}: {e}"
                        want = spec_I_F(contrs, I_N, slice_)
                        want = ([int(x) for x in want[0]], want[1])
                        if got != want:
                            bad.append(dict(layout=list(layout), reservoir=extra, active=list(map(int, I_N)), slice=slice_, got=str(got), want=str(want)))
    name = f"compute_I_F = specification on all layouts (<= {maxc} contacts with 0/1/2 friction directions, optional force reservoir) x all active sets x slice on/off [{n} cases]"
    return [dict(name=name, ok=not bad, backend="exhaustive-enumeration", show=f"{n} cases", detail=str(bad[:3]), replay=bad[0] if bad else None)]
