"""The kinematic-subsystem contract (DESIGN.md section 3).

`StubBody` is the *callee contract* of anything a joint, contact, force or
interaction can attach to.  It is used in place of the bodies of RigidBody /
PointMass / Frame / rod cross-section methods when the real client code
(joints, contacts, interactions) is executed symbolically.  Its primitives are
uninterpreted smooth functions ("jet atoms", with lazily generated partial
derivatives of every order):

    rC(t,q) in R^3, A(t,q) in R^{3x3}       (no SO(3) hypothesis on A)
    q_dot = Bm(t,q) u + beta(t,q)            (kinematic equation, affine in u)
    B_Omega = BJR(t,q) u + Omt(t,q)          (body-fixed angular velocity, affine in u)

and the flow  D_t:  t -> 1, q -> q_dot, u -> u_dot,  A -> skew(A B_Omega) A
(the *inertial form* of  A_dot = A skew(B_Omega), which needs no orthogonality
to be used).  Every interface method is *defined* from these by the kit's
differentiator exactly as the property states it:

    r_OP(B) = rC + A B          v_P = D_t r_OP        a_P = D_t v_P
    J_P = d v_P / d u           B_Psi = D_t B_Omega   *_q, *_u = partial derivatives
    kappa_P = a_P - J_P u_dot

C04 (provider side) proves that the real RigidBody, PointMass and Frame satisfy
exactly these relations; C05/C06/C07/C08 (client side) verify the real client
code against the stub.  Generic sizes nq, nu are chosen different for the two
subsystems of a pair so that index mix-ups cannot cancel.
"""

from __future__ import annotations

import numpy as np

from vk import sym as S


class _LazyPartials:
    def __init__(self, jets, name, deps, multi):
        self.jets = jets
        self.name = name
        self.deps = deps
        self.multi = multi

    def partial(self, v):
        m = tuple(sorted(self.multi + (v,), key=lambda s: s.uid))
        return self.jets.atom(self.name, self.deps, m)

    def items(self):
        for v in self.deps:
            yield v, self.partial(v)


class Jets:
    def __init__(self):
        self.cache = {}

    def atom(self, name, deps, multi=()):
        key = (name, tuple(v.uid for v in multi))
        a = self.cache.get(key)
        if a is None:
            full = name if not multi else name + "|" + ",".join(v.a for v in multi)
            a = S.fatom(full, {})
            S.PARTIALS[a.uid] = _LazyPartials(self, name, tuple(deps), tuple(multi))
            self.cache[key] = a
        return a

    def array(self, name, shape, deps):
        shape = (shape,) if isinstance(shape, int) else tuple(shape)
        a = np.empty(shape, dtype=object)
        for idx in np.ndindex(*shape):
            a[idx] = self.atom(name + "".join(f"_{i}" for i in idx), deps)
        return a


def _skew(a):
    return np.array([[0, -a[2], a[1]], [a[2], 0, -a[0]], [-a[1], a[0], 0]], dtype=object)


def _jvp_arr(y, tang):
    memo = {}
    y = np.asarray(y, dtype=object)
    out = np.empty(y.shape, dtype=object)
    for idx in np.ndindex(*y.shape):
        out[idx] = S.jvp(S._coerce(y[idx]), tang, memo)
    return out


def _jac_arr(y, xs):
    y = np.asarray(y, dtype=object)
    out = np.empty(y.shape + (len(xs),), dtype=object)
    for j, x in enumerate(xs):
        memo = {}
        for idx in np.ndindex(*y.shape):
            out[idx + (j,)] = S.jvp(S._coerce(y[idx]), {x: S.ONE}, memo)
    return out


class StubBody:
    """Symbolic-mode stand-in for a kinematic subsystem (see module docstring)."""

    is_stub = True

    def __init__(self, tag, nq, nu, t, has_orientation=True):
        self.tag = tag
        self.nq = nq
        self.nu = nu
        self.t = t
        self.jets = Jets()
        self.q = S.symarray(tag + "q", nq)
        self.u = S.symarray(tag + "u", nu)
        self.u_dot_ = S.symarray(tag + "ud", nu)
        deps = (t,) + tuple(self.q)
        self.deps = deps
        self.rC = self.jets.array(tag + "rC", 3, deps)
        self.A = self.jets.array(tag + "A", (3, 3), deps)
        self.Bm = self.jets.array(tag + "Bm", (nq, nu), deps)
        self.beta = self.jets.array(tag + "beta", nq, deps)
        self.BJR = self.jets.array(tag + "BJR", (3, nu), deps)
        self.Omt = self.jets.array(tag + "Omt", 3, deps)
        self.qd = (self.Bm @ self.u + self.beta) if nu else self.beta.copy()
        self.BOm = (self.BJR @ self.u + self.Omt) if nu else self.Omt.copy()
        # flow tangent
        tang = {t: S.ONE}
        for i in range(nq):
            tang[self.q[i]] = self.qd[i]
        for i in range(nu):
            tang[self.u[i]] = self.u_dot_[i]
        Adot = _skew(self.A @ self.BOm) @ self.A
        for i in range(3):
            for j in range(3):
                tang[self.A[i, j]] = Adot[i, j]
        self.tang = tang
        self.has_orientation = has_orientation
        if not has_orientation:
            # point-like subsystem (PointMass): no A_IB attribute at all
            self.A = np.array([[S.ONE, S.ZERO, S.ZERO], [S.ZERO, S.ONE, S.ZERO], [S.ZERO, S.ZERO, S.ONE]], dtype=object)
        self.qDOF = np.arange(nq)
        self.uDOF = np.arange(nu)
        self.t0 = t
        self.q0 = self.q
        self.u0 = self.u
        self.name = tag

    def __getattribute__(self, name):
        if name in ("A_IB", "A_IB_q", "B_Omega", "B_Omega_q", "B_J_R", "B_J_R_q", "B_Psi", "B_Psi_q", "B_Psi_u") and not object.__getattribute__(self, "has_orientation"):
            raise AttributeError(name)
        return object.__getattribute__(self, name)

    # -- argument discipline: the client must pass this subsystem's own coordinates
    def _chk(self, t=None, q=None, u=None, u_dot=None):
        if t is not None and t is not self.t:
            raise S.KitError(f"stub {self.tag}: called with a different time argument")
        for nm, got, own in (("q", q, self.q), ("u", u, self.u), ("u_dot", u_dot, self.u_dot_)):
            if got is None:
                continue
            got = np.asarray(got, dtype=object)
            if got.shape != own.shape or any(g is not o for g, o in zip(got.ravel(), own.ravel())):
                raise StubArgumentError(f"stub {self.tag}: client passed foreign {nm} (wrong slice of the global vector?)")

    def D_t(self, y):
        return _jvp_arr(y, self.tang)

    def d_q(self, y):
        return _jac_arr(y, list(self.q))

    def d_u(self, y):
        return _jac_arr(y, list(self.u))

    def d_udot(self, y):
        return _jac_arr(y, list(self.u_dot_))

    # -- interface
    def local_qDOF_P(self, xi=None):
        return np.arange(self.nq)

    def local_uDOF_P(self, xi=None):
        return np.arange(self.nu)

    def q_dot(self, t, q, u):
        self._chk(t, q, u)
        return self.qd.copy()

    def q_dot_q(self, t, q, u):
        self._chk(t, q, u)
        return self.d_q(self.qd)

    def q_dot_u(self, t, q):
        self._chk(t, q)
        return self.Bm.copy()

    def A_IB(self, t, q, xi=None):
        self._chk(t, q)
        return self.A.copy()

    def A_IB_q(self, t, q, xi=None):
        self._chk(t, q)
        return self.d_q(self.A)

    def _B(self, B_r_CP):
        return np.zeros(3) if B_r_CP is None else B_r_CP

    def r_OP(self, t, q, xi=None, B_r_CP=None):
        self._chk(t, q)
        return self.rC + self.A @ self._B(B_r_CP)

    def r_OP_q(self, t, q, xi=None, B_r_CP=None):
        return self.d_q(self.r_OP(t, q, xi, B_r_CP))

    def v_P(self, t, q, u, xi=None, B_r_CP=None):
        self._chk(t, q, u)
        return self.D_t(self.r_OP(t, q, xi, B_r_CP))

    def v_P_q(self, t, q, u, xi=None, B_r_CP=None):
        return self.d_q(self.v_P(t, q, u, xi, B_r_CP))

    def J_P(self, t, q, xi=None, B_r_CP=None):
        self._chk(t, q)
        return self.d_u(self.v_P(t, q, self.u, xi, B_r_CP))

    def J_P_q(self, t, q, xi=None, B_r_CP=None):
        return self.d_q(self.J_P(t, q, xi, B_r_CP))

    def a_P(self, t, q, u, u_dot, xi=None, B_r_CP=None):
        self._chk(t, q, u, u_dot)
        return self.D_t(self.v_P(t, q, u, xi, B_r_CP))

    def a_P_q(self, t, q, u, u_dot, xi=None, B_r_CP=None):
        return self.d_q(self.a_P(t, q, u, u_dot, xi, B_r_CP))

    def a_P_u(self, t, q, u, u_dot, xi=None, B_r_CP=None):
        return self.d_u(self.a_P(t, q, u, u_dot, xi, B_r_CP))

    def kappa_P(self, t, q, u, xi=None, B_r_CP=None):
        a = self.a_P(t, q, u, self.u_dot_, xi, B_r_CP)
        J = self.J_P(t, q, xi, B_r_CP)
        return a - (J @ self.u_dot_ if self.nu else 0)

    def kappa_P_q(self, t, q, u, xi=None, B_r_CP=None):
        return self.d_q(self.kappa_P(t, q, u, xi, B_r_CP))

    def kappa_P_u(self, t, q, u, xi=None, B_r_CP=None):
        return self.d_u(self.kappa_P(t, q, u, xi, B_r_CP))

    def B_Omega(self, t, q, u, xi=None):
        self._chk(t, q, u)
        return self.BOm.copy()

    def B_Omega_q(self, t, q, u, xi=None):
        return self.d_q(self.BOm)

    def B_J_R(self, t, q, xi=None):
        self._chk(t, q)
        return self.BJR.copy()

    def B_J_R_q(self, t, q, xi=None):
        return self.d_q(self.BJR)

    def B_Psi(self, t, q, u, u_dot, xi=None):
        self._chk(t, q, u, u_dot)
        return self.D_t(self.BOm)

    def B_Psi_q(self, t, q, u, u_dot, xi=None):
        return self.d_q(self.B_Psi(t, q, u, u_dot))

    def B_Psi_u(self, t, q, u, u_dot, xi=None):
        return self.d_u(self.B_Psi(t, q, u, u_dot))

    def B_kappa_R(self, t, q, u, xi=None):
        return self.B_Psi(t, q, u, self.u_dot_) - (self.BJR @ self.u_dot_ if self.nu else 0)

    def B_kappa_R_q(self, t, q, u, xi=None):
        return self.d_q(self.B_kappa_R(t, q, u))

    def B_kappa_R_u(self, t, q, u, xi=None):
        return self.d_u(self.B_kappa_R(t, q, u))


class StubArgumentError(Exception):
    """The client passed the wrong slice of the global coordinates to a subsystem."""


class Pair:
    """Two stub subsystems + the joint-level symbolic vectors, and the spec
    operators of the pair (flow derivative, partial derivatives)."""

    def __init__(self, s1, s2, t):
        self.s1, self.s2, self.t = s1, s2, t
        self.q = np.concatenate([s1.q, s2.q])
        self.u = np.concatenate([s1.u, s2.u])
        self.u_dot = np.concatenate([s1.u_dot_, s2.u_dot_])
        self.tang = dict(s1.tang)
        self.tang.update(s2.tang)

    # spec operators take FUNCTIONS of (t, q, u[, u_dot]) so that the same contract
    # text also runs on real subsystems (RealPair below: finite differences)
    def _ev(self, fn):
        import inspect

        n = len(inspect.signature(fn).parameters)
        return np.atleast_1d(fn(*(self.t, self.q, self.u, self.u_dot)[:n]))

    def D_t(self, fn):
        return _jvp_arr(self._ev(fn), self.tang)

    def d_q(self, fn):
        return _jac_arr(self._ev(fn), list(self.q))

    def d_u(self, fn):
        return _jac_arr(self._ev(fn), list(self.u))

    def d_udot(self, fn):
        return _jac_arr(self._ev(fn), list(self.u_dot))


class RealPair:
    """Same interface on real subsystems with concrete/symbolic state held by the kit."""

    def __init__(self, k, s1, s2, t, q1, u1, ud1, q2, u2, ud2):
        self.k, self.s1, self.s2, self.t = k, s1, s2, t
        self.n1q, self.n1u = len(q1), len(u1)
        cat = np.concatenate
        self.q = cat([q1, q2]) if len(q1) + len(q2) else np.array([])
        self.u = cat([u1, u2]) if len(u1) + len(u2) else np.array([])
        self.u_dot = cat([ud1, ud2]) if len(ud1) + len(ud2) else np.array([])

    def _qd(self, t, q, u):
        a = self.s1.q_dot(t, q[: self.n1q], u[: self.n1u])
        b = self.s2.q_dot(t, q[self.n1q :], u[self.n1u :])
        return np.concatenate([np.asarray(a), np.asarray(b)])

    def _call(self, fn, t, q, u, ud):
        import inspect

        n = len(inspect.signature(fn).parameters)
        return np.atleast_1d(fn(*(t, q, u, ud)[:n]))

    def D_t(self, fn):
        qd = self._qd(self.t, self.q, self.u)
        return self.k.jvp(lambda t_, q_, u_: self._call(fn, t_, q_, u_, self.u_dot), [self.t, self.q, self.u], [1.0, qd, self.u_dot])

    def d_q(self, fn):
        return self.k.jac(lambda q_: self._call(fn, self.t, q_, self.u, self.u_dot), self.q)

    def d_u(self, fn):
        return self.k.jac(lambda u_: self._call(fn, self.t, self.q, u_, self.u_dot), self.u)

    def d_udot(self, fn):
        return self.k.jac(lambda ud_: self._call(fn, self.t, self.q, self.u, ud_), self.u_dot)


def stub_pair(kinds=("body", "body"), sizes=((2, 2), (3, 2))):
    t = S.var("t")
    subs = []
    for tag, kind, (nq, nu) in zip(("a", "b"), kinds, sizes):
        if kind == "frame":
            nq, nu = 0, 0
        subs.append(StubBody(tag, nq, nu, t, has_orientation=(kind != "point")))
    return Pair(subs[0], subs[1], t)
