"""Shared builders for contracts: real bodies with symbolic / sampled state."""

import numpy as np

from cardillo.discrete.frame import Frame
from cardillo.discrete.point_mass import PointMass
from cardillo.discrete.rigid_body import RigidBody
import cardillo.math.rotations as rot
from vk import sym as S


def skew(a):
    return np.array([[0, -a[2], a[1]], [a[2], 0, -a[0]], [-a[1], a[0], 0]], dtype=object if isinstance(a[0], S.Sym) else float)


def axial(M):
    return 0.5 * np.array([M[2, 1] - M[1, 2], M[0, 2] - M[2, 0], M[1, 0] - M[0, 1]])


def spd3(k, tag):
    """Theta = L L^T, L lower triangular with positive diagonal (every SPD matrix has this form)."""
    L = np.zeros((3, 3), dtype=object if k.sym else float)
    d = k.reals(tag + "Ld", 3, sample=lambda r: r.uniform(0.3, 2.0, 3))
    o = k.reals(tag + "Lo", 3, sample=lambda r: r.normal(size=3) * 0.5)
    for i in range(3):
        k.assume(d[i] > 0)
        L[i, i] = d[i]
    L[1, 0], L[2, 0], L[2, 1] = o
    if k.sym:
        for i in range(3):
            for j in range(i + 1, 3):
                L[i, j] = S.ZERO
    return L @ L.T, L


def sym3(k, tag):
    s = k.reals(tag + "Th", 6, sample=lambda r: r.normal(size=6))
    return np.array([[s[0], s[3], s[4]], [s[3], s[1], s[5]], [s[4], s[5], s[2]]])


def rigid_body(k, tag="", theta="sym"):
    m = k.real(tag + "m", sample=lambda r: r.uniform(0.3, 3.0))
    k.assume(m > 0)
    Theta = sym3(k, tag) if theta == "sym" else spd3(k, tag)[0]
    q = k.reals(tag + "q", 7, sample=lambda r: np.concatenate([r.normal(size=3), r.normal(size=4) * r.uniform(0.3, 2.0)]))
    k.assume(q[3:] @ q[3:] > 0)
    u = k.reals(tag + "u", 6)
    ud = k.reals(tag + "ud", 6)
    rb = RigidBody(m, Theta)
    return rb, q, u, ud


def point_mass(k, tag=""):
    m = k.real(tag + "m", sample=lambda r: r.uniform(0.3, 3.0))
    k.assume(m > 0)
    q = k.reals(tag + "q", 3)
    u = k.reals(tag + "u", 3)
    ud = k.reals(tag + "ud", 3)
    return PointMass(m), q, u, ud


def moving_frame(k, t, tag="F", moving=True, rotating=True):
    """Frame with prescribed smooth motion r(t), A(t) = Exp_SO3_quat(P(t)) and the
    *exact* derivatives supplied (sym: kit derivative of the jet atoms; conc: analytic / FD)."""
    r, r_t, r_tt = k.timefun(tag + "r", 3, t)
    if not rotating:
        Ph = k.reals(tag + "P", 4, sample=lambda g: g.normal(size=4))
        k.assume(Ph @ Ph > 0)
        A0 = rot.Exp_SO3_quat(Ph)
        return Frame(r_OP=r, r_OP_t=r_t, r_OP_tt=r_tt, A_IB=A0), A0
    P, P_t, P_tt = k.timefun(tag + "P", 4, t, scale=0.7)
    if k.sym:
        k.assume(P(t) @ P(t) > 0)

        def A(t_):
            return rot.Exp_SO3_quat(P(t_))

        def d(fun):
            def g(t_):
                y = fun(t_)
                memo = {}
                out = np.empty(y.shape, dtype=object)
                for idx in np.ndindex(*y.shape):
                    out[idx] = S.jvp(S._coerce(y[idx]), {t: S.ONE}, memo)
                return out

            return g

        A_t = d(A)
        A_tt = d(A_t)
    else:
        k.assume(P(float(t)) @ P(float(t)) > 1e-2)
        k.fd_used = True

        def A(t_):
            return rot.Exp_SO3_quat(P(t_))

        def A_t(t_):
            return np.einsum("ijk,k->ij", rot.Exp_SO3_quat_P(P(t_)), P_t(t_))

        def A_tt(t_, h=1e-5):
            return (A_t(t_ + h) - A_t(t_ - h)) / (2 * h)

    return Frame(r_OP=r, r_OP_t=r_t, r_OP_tt=r_tt, A_IB=A, A_IB_t=A_t, A_IB_tt=A_tt), A
