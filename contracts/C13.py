"""C13 - Finite-element basis, quadrature and connectivity are correct.

  LagrangeBasis.__call__ / deriv   executed with symbolic xi (degrees 1..5): partition of unity and
                                   zero-sum derivatives within eps (the coefficients are doubles), Kronecker at nodes
  LagrangeKnotVector.element_number  executed with symbolic xi in [0,1], element counts 1..12, uniform and
                                   non-uniform corner data: data[el] <= xi <= data[el+1] on every path (LRA)
  Mesh1D connectivity              finite space degrees 1..5 x nel 1..12 x {Lagrange, Lagrange_Disc}: enumerated exhaustively
  gauss / lobatto                  the affine map around the external reference rule is proved symbolically for gauss
                                   (reference rule as atoms with its moment equations as assumed contract of
                                   scipy roots_legendre); the reference moments themselves are checked numerically (bounded)
"""

import numpy as np

import sys

import cardillo.rods.discretization  # noqa: F401
from cardillo.rods.discretization.mesh1D import Mesh1D

gs = sys.modules["cardillo.rods.discretization.gauss"]
lg = sys.modules["cardillo.rods.discretization.lagrange"]
from vk import sym as S
from vk.registry import bounded, contract, static

LEVEL = "proof"
TRUSTED = [
    "numpy.polynomial.Polynomial arithmetic and evaluation (Horner) run natively on symbolic arguments",
    "scipy.special.roots_legendre is external: its exactness (moment equations) is an assumed contract in the affine-map obligation and is checked numerically for n <= 10 (bounded)",
    "lobatto() computes its nodes with numpy's Legendre root finder (external numerics): bounded check only",
]
EXPLANATION = "polynomial inequalities / LRA obligations from symbolic execution, exhaustive enumeration of the connectivity space, bounded numeric check of the reference quadrature rules"

EPS = 1e-12


def _basis(degree):
    def c(k):
        k.covers(lg.LagrangeBasis.__init__, lg.LagrangeBasis.__call__, lg.LagrangeBasis.deriv)
        a = k.real("a", sample=lambda g: g.uniform(-2, 2))
        h = k.real("h", sample=lambda g: g.uniform(0.05, 3))
        k.assume(h > 0)
        # element intervals of practical sizes (the bound eps/h needs h bounded away from 0)
        k.assume(h >= 1e-3)
        k.assume(h <= 1e3)
        k.assume(a >= -1e3)
        k.assume(a <= 1e3)
        b = a + h
        s = k.real("s", sample=lambda g: g.uniform(0, 1))
        k.assume(s >= 0)
        k.assume(s <= 1)
        xi = a + s * h
        basis = lg.LagrangeBasis(degree, interval=[a, b])
        N = basis(xi)[0]
        dN = basis.deriv(xi)[0]
        tot, dtot = sum(N), sum(dN)
        k.prove_le("sum N_j <= 1 + eps", tot, 1 + EPS)
        k.prove_le("sum N_j >= 1 - eps", 1 - EPS, tot)
        k.prove_le("sum N'_j <= eps/h", dtot * h, 1e-9)
        k.prove_le("sum N'_j >= -eps/h", -1e-9, dtot * h)
        # derivative routine is the derivative of the basis
        if k.sym and not (S._coerce(s) == 0 or S._coerce(s) == 1):
            # away from the end points (there the code evaluates at the constants 0 / 1); float coefficients of
            # Polynomial.deriv are rounded, hence a tolerance
            spec = k.jac(lambda s_: basis(a + s_[0] * h)[0], np.array([s], dtype=object))[:, 0]
            k.prove_le("deriv <= d basis/d xi + eps", dN * h, spec + 1e-9)
            k.prove_le("deriv >= d basis/d xi - eps", spec - 1e-9, dN * h)
        # Kronecker property at the nodes of the element
        for i in range(degree + 1):
            node = a + (b - a) * i / degree if 0 < i < degree else (a if i == 0 else b)
            Ni = basis(node)[0]
            for j in range(degree + 1):
                k.prove_le(f"Kronecker N_{j}(node {i}) upper", Ni[j], (1.0 if i == j else 0.0) + 1e-9, tol=0)
                k.prove_le(f"Kronecker N_{j}(node {i}) lower", (1.0 if i == j else 0.0) - 1e-9, Ni[j], tol=0)

    return c


for _d in (1, 2, 3, 4, 5):
    contract("C13", f"LagrangeBasis[degree={_d}]", timeout=120, samples=3, max_paths=200, tiers=("quick", "thorough") if _d <= 3 else ("thorough",))(_basis(_d))


def _element_number(nel, uniform):
    def c(k):
        k.covers(lg.LagrangeKnotVector.__init__, lg.LagrangeKnotVector.element_number, lg.LagrangeKnotVector.element_interval)
        if uniform:
            kv = lg.LagrangeKnotVector(1, nel)
            data = kv.data
        else:
            rng = np.random.default_rng(nel)
            data = np.concatenate([[0.0], np.sort(rng.uniform(0.05, 0.95, nel - 1)), [1.0]]) if nel > 1 else np.array([0.0, 1.0])
            kv = lg.LagrangeKnotVector(1, nel, data=data)
        xi = k.real("xi", sample=lambda g: g.choice([0.0, 1.0, g.uniform(0, 1), float(g.choice(data))]))
        k.assume(xi >= 0)
        k.assume(xi <= 1)
        el = int(kv.element_number(xi)[0])
        k.prove("0 <= el < nel", 0 <= el < nel)
        lo, hi = kv.element_interval(el)
        k.prove_le("data[el] <= xi", lo, xi, tol=0)
        k.prove_le("xi <= data[el+1]", xi, hi, tol=0)
        if not uniform:
            k.prove("element_interval returns the corner data", float(lo) == float(data[el]) and float(hi) == float(data[el + 1]))

    return c


for _nel in range(1, 13):
    _t = ("quick", "thorough") if _nel in (1, 2, 5, 12) else ("thorough",)
    contract("C13", f"element_number[nel={_nel},uniform]", samples=6, max_paths=100, tiers=_t)(_element_number(_nel, True))
    contract("C13", f"element_number[nel={_nel},nonuniform]", samples=6, max_paths=100, tiers=_t)(_element_number(_nel, False))


@contract("C13", "LagrangeKnotVector/nonuniform-data-higher-degree", samples=1)
def c_nonuniform(k):
    """non-uniform corner data with degree >= 2: construction succeeds and the lookup uses the corner nodes"""
    k.covers(lg.LagrangeKnotVector.__init__, lg.LagrangeKnotVector.verify_data)
    data = [0.0, 0.3, 1.0]
    for degree in (1, 2, 3):
        ok, kv = k.no_raise(f"LagrangeKnotVector(degree={degree}, nel=2, data={data}) constructs", lambda: lg.LagrangeKnotVector(degree, 2, data=data))
        if ok:
            k.prove(f"degree {degree}: lookup of 0.5 gives element 1", int(kv.element_number(0.5)[0]) == 1)
            k.prove(f"degree {degree}: element 0 is [0, 0.3]", [float(v) for v in kv.element_interval(0)] == [0.0, 0.3])
            k.prove(f"degree {degree}: refined node vector has nel*degree+1 entries", len(kv.data) == 2 * degree + 1)


def _gauss_affine(n):
    def c(k):
        k.covers(gs.gauss)
        a = k.real("a")
        h = k.real("h", sample=lambda g: g.uniform(0.1, 3))
        k.assume(h > 0)
        b = a + h
        if k.sym:
            p = S.symarray("p", n)
            w = S.symarray("w", n)
            facts = S.TRUE
            for kk in range(2 * n):
                mom = sum(w[i] * p[i] ** kk for i in range(n))
                exact = (1 - (-1) ** (kk + 1)) / (kk + 1)
                facts = facts & (mom == S.const(0 if kk % 2 else 2) / (kk + 1))
            k.axiom(facts, "assumed contract of scipy.special.roots_legendre(n): sum w_i p_i^k = int_{-1}^{1} x^k dx for k <= 2n-1")
            saved = gs.roots_legendre
            gs.roots_legendre = lambda n_: (p.copy(), w.copy())
            try:
                T, W = gs.gauss(n, interval=np.array([a, b], dtype=object))
            finally:
                gs.roots_legendre = saved
        else:
            T, W = gs.gauss(n, interval=np.array([a, b]))
        for kk in range(2 * n):
            k.prove_eq(f"mapped rule integrates t^{kk} exactly on [a,b]", sum(W[i] * T[i] ** kk for i in range(n)), (b ** (kk + 1) - a ** (kk + 1)) / (kk + 1), tol=1e-9)
        k.prove_lt("weights positive (given positive reference weights)", 0, h)

    return c


for _n in (1, 2, 3):
    contract("C13", f"gauss[n={_n}]/affine-map", timeout=180, samples=3, tiers=("quick", "thorough") if _n <= 2 else ("thorough",))(_gauss_affine(_n))


def COVERS_STATIC():
    from cardillo.rods.discretization.gauss import gauss

    return [Mesh1D.__init__, Mesh1D.quadrature_points, Mesh1D.shape_functions, Mesh1D.lagrange_basis1D, gauss]


def COVERS_BOUNDED():
    from cardillo.rods.discretization.gauss import gauss, lobatto

    return [gauss, lobatto, Mesh1D.eval_basis]


@static("C13", "Mesh1D/connectivity")
def s_connectivity(tier):
    """exhaustive: degrees 1..5 x nel 1..12 x both bases x (dim_q, dim_u); coordinate AND velocity meshes"""
    out = []
    bad = []
    count = 0
    dims = ((3, None), (4, 3)) if tier == "quick" else ((1, None), (3, None), (4, 3), (7, 6))
    for basis in ("Lagrange", "Lagrange_Disc"):
        for degree in range(1, 6):
            for nel in range(1, 13):
                for dim_q, dim_u in dims:
                    count += 1
                    kv = lg.LagrangeKnotVector(degree, nel)
                    m = Mesh1D(kv, degree + 1, dim_q=dim_q, derivative_order=1, basis=basis, dim_u=dim_u)
                    npe = degree + 1
                    nn = degree * nel + 1 if basis == "Lagrange" else npe * nel
                    ok = m.nnodes == nn and m.nq == nn * dim_q and m.nu == nn * (dim_u or dim_q)
                    for tag, elDOF, nodalDOF, nodalDOF_el, ntot in (("q", m.elDOF, m.nodalDOF, m.nodalDOF_element, m.nq), ("u", m.elDOF_u, m.nodalDOF_u, m.nodalDOF_element_u, m.nu)):
                        nodesets = []
                        for el in range(nel):
                            qe = elDOF[el]
                            nodes = set()
                            for a in range(npe):
                                dofs = qe[nodalDOF_el[a]]
                                # the DOFs of element-node a are exactly the DOFs of one global node
                                cand = [g for g in range(nn) if list(nodalDOF[g]) == list(dofs)]
                                ok = ok and len(cand) == 1
                                if cand:
                                    nodes.add(cand[0])
                            ok = ok and len(nodes) == npe
                            # element el owns the nodes the basis functions of that element belong to
                            first = el * degree if basis == "Lagrange" else el * npe
                            ok = ok and nodes == set(range(first, first + npe))
                            nodesets.append(nodes)
                        for el in range(nel - 1):
                            shared = nodesets[el] & nodesets[el + 1]
                            ok = ok and (len(shared) == (1 if basis == "Lagrange" else 0))
                            if basis == "Lagrange":
                                ok = ok and shared == {(el + 1) * degree}
                        for e1 in range(nel):
                            for e2 in range(e1 + 2, nel):
                                ok = ok and not (nodesets[e1] & nodesets[e2])
                        # every global DOF belongs to exactly one node, every node to at least one element
                        ok = ok and sorted(nodalDOF.ravel().tolist()) == list(range(ntot))
                        ok = ok and set().union(*nodesets) == set(range(nn))
                    # quadrature points lie inside their element and the stored shape functions are the basis there
                    for el in range(nel):
                        lo, hi = kv.element_interval(el)
                        ok = ok and bool(np.all(m.qp[el] >= lo - 1e-14) and np.all(m.qp[el] <= hi + 1e-14))
                        ok = ok and bool(np.allclose(m.N[el].sum(axis=1), 1.0, atol=1e-12) and np.allclose(m.N_xi[el].sum(axis=1), 0.0, atol=1e-9))
                        ok = ok and bool(np.isclose(m.wp[el].sum(), hi - lo, atol=1e-13))
                    if not ok:
                        bad.append({"basis": basis, "degree": degree, "nel": nel, "dim_q": dim_q, "dim_u": dim_u})
    out.append({"name": f"neighbouring elements share exactly their boundary node / nothing, coordinate and velocity meshes ({count} meshes)", "ok": not bad, "backend": "exhaustive-enumeration", "show": "degrees 1..5 x nel 1..12 x {Lagrange, Lagrange_Disc} x (dim_q, dim_u)", "detail": str(bad[:5]), "replay": bad[0] if bad else None})
    return out


@bounded("C13", "quadrature/reference-rules")
def b_quadrature(tier, seed):
    rng = np.random.default_rng(seed + 2)
    cases, failures = 0, []
    for n in range(1, 11):
        for _ in range(3 if tier == "quick" else 20):
            a = rng.uniform(-3, 3)
            b = a + rng.uniform(0.1, 4)
            for name, fn, deg, nmin in (("gauss", gs.gauss, 2 * n - 1, 1), ("lobatto", gs.lobatto, 2 * n - 3, 2)):
                if n < nmin:
                    continue
                pts, wts = fn(n, interval=np.array([a, b]))
                for kk in range(deg + 1):
                    cases += 1
                    exact = (b ** (kk + 1) - a ** (kk + 1)) / (kk + 1)
                    err = abs(wts @ pts**kk - exact) / (1 + abs(exact))
                    if not err <= 1e-11:
                        failures.append({"what": f"{name}(n={n}) does not integrate t^{kk} exactly", "input": {"a": a, "b": b}, "detail": f"relative error {err:.2e}"})
                cases += 1
                if not (np.all(wts > 0) and np.all(pts >= a - 1e-13) and np.all(pts <= b + 1e-13)):
                    failures.append({"what": f"{name}(n={n}) weights/points out of range", "input": {"a": a, "b": b}})
    seen, out = set(), []
    for f in failures:
        if f["what"] not in seen:
            seen.add(f["what"])
            out.append(f)
    return {"cases": cases, "distinct": cases, "failures": out[:5], "bound": "n = 1..10, random intervals, relative tolerance 1e-11"}


@static("C13", "Mesh1D/quadrature-tables")
def s_mesh_quadrature(tier):
    """the quadrature tables a mesh stores (qp, wp per element) on uniform AND non-uniform element partitions: points inside
    the element, weights positive and summing to the element length, polynomials up to degree 2n-1 (Gauss) / 2n-3 (Lobatto)
    integrated exactly over the element (executed natively; degrees 1..3 x element counts x partitions x rules)"""
    out, bad, count = [], [], 0
    rng = np.random.default_rng(13)
    nels = (1, 2, 3, 5) if tier == "quick" else (1, 2, 3, 5, 8, 12)
    for degree in (1, 2, 3):
        for nel in nels:
            parts = {"uniform": None, "graded": np.linspace(0, 1, nel + 1) ** 2, "random": np.concatenate([[0.0], np.sort(rng.uniform(0.05, 0.95, nel - 1)), [1.0]])}
            for pname, data in parts.items():
                for rule, nq, deg in (("Gauss", 2, 3), ("Gauss", 4, 7), ("Lobatto", 3, 3), ("Lobatto", 5, 7)):
                    count += 1
                    try:
                        kv = lg.LagrangeKnotVector(degree, nel) if data is None else lg.LagrangeKnotVector(degree, nel, data=data)
                        m = Mesh1D(kv, nq, dim_q=3, derivative_order=1, basis="Lagrange", quadrature=rule)
                        ok = True
                        for el in range(nel):
                            lo, hi = kv.element_interval(el)
                            q, w = np.asarray(m.qp[el], dtype=float), np.asarray(m.wp[el], dtype=float)
                            ok = ok and bool(np.all(q >= lo - 1e-13) and np.all(q <= hi + 1e-13) and np.all(w > 0))
                            ok = ok and bool(abs(w.sum() - (hi - lo)) <= 1e-13)
                            for kk in range(deg + 1):
                                exact = (hi ** (kk + 1) - lo ** (kk + 1)) / (kk + 1)
                                ok = ok and bool(abs(w @ q**kk - exact) <= 1e-12)
                    except Exception as e:  # noqa: BLE001
                        ok = False
                        pname = f"{pname} (raised {type(e).__name__}: {e})"
                    if not ok:
                        bad.append({"degree": degree, "nel": nel, "partition": pname, "rule": rule, "n": nq, "data": None if data is None else np.asarray(data).tolist()})
    out.append({"name": f"quadrature tables of the mesh are exact on every element, uniform and non-uniform partitions ({count} meshes)", "ok": not bad, "backend": "exhaustive-enumeration", "show": "degrees 1..3 x element counts x {uniform, graded, random} x {Gauss 2, 4; Lobatto 3, 5}", "detail": str(bad[:3]), "replay": bad[0] if bad else None})
    return out
