"""C03 - SO(3)/SE(3) derivative routines are the derivatives of their maps.

Each routine is compared entrywise with the kit's symbolic derivative of the term
returned by the real map (exact over the reals, all psi in the open domain, all
nonzero quaternions).  The clause about rotation vectors of tiny norm is a
floating-point statement: bounded stand-in with the symbolic derivative evaluated
in 50-digit arithmetic as oracle.
"""

import numpy as np

import cardillo.math.rotations as rot
from vk.registry import bounded, contract

LEVEL = "proof"
TRUSTED = [
    "Log_SO3_A / Log_SE3_H are compared with the literal derivative of the regular Log formula w.r.t. the matrix entries for 0 < angle < pi (trace-cosine in (-1, 1)): against the real Log_SO3 where it uses that formula (trace-cosine > -0.999), against the formula written out as specification in the band (-1, -0.999] where Log_SO3 switches to its half-turn formula; at the half-turn itself the derivative is singular",
    "bounded stand-in oracle: the kit's symbolic derivative of the real map evaluated with mpmath at 50 digits",
]
EXPLANATION = "QF_NRA obligations with the transcendental axiom table; tiny-angle rounding clause by bounded stand-in"


def _psi(k, bound=1.0, name="psi", lo=0.0):
    psi = k.reals(name, 3, sample=lambda g: (lambda v: v / np.linalg.norm(v) * g.uniform(0.05, bound * np.pi * 0.98))(g.normal(size=3)))
    if k.sym:
        from vk import sym as S

        k.assume(psi @ psi < (bound * S.PI) * (bound * S.PI))
    else:
        k.assume(psi @ psi < (bound * np.pi) ** 2)
    return psi


@contract("C03", "Exp_SO3_psi", timeout=180)
def c_exp_psi(k):
    k.covers(rot.Exp_SO3_psi, rot.Exp_SO3)
    psi = _psi(k)
    k.assume(psi @ psi > 0)
    k.prove_eq("Exp_SO3_psi = dExp/dpsi", rot.Exp_SO3_psi(psi), k.jac(lambda p: rot.Exp_SO3(p), psi), tol=1e-6)


@contract("C03", "T_SO3_psi", timeout=180)
def c_T_psi(k):
    k.covers(rot.T_SO3_psi, rot.T_SO3)
    psi = _psi(k, 2.0)
    k.assume(psi @ psi > 0)
    k.prove_eq("T_SO3_psi = dT/dpsi", rot.T_SO3_psi(psi), k.jac(lambda p: rot.T_SO3(p), psi), tol=1e-6)


@contract("C03", "T_SO3_dot", timeout=180)
def c_T_dot(k):
    k.covers(rot.T_SO3_dot, rot.T_SO3)
    psi = _psi(k, 2.0)
    k.assume(psi @ psi > 0)
    pd = k.reals("psid", 3)
    k.prove_eq("T_SO3_dot = D_t T", rot.T_SO3_dot(psi, pd), k.jvp(lambda p: rot.T_SO3(p), [psi], [pd]), tol=1e-6)


@contract("C03", "T_SO3_inv_psi", timeout=180)
def c_Tinv_psi(k):
    k.covers(rot.T_SO3_inv_psi, rot.T_SO3_inv)
    psi = _psi(k, 2.0)
    k.assume(psi @ psi > 0)
    if k.sym:
        from vk import sym as S

        k.assume(~(psi @ psi == S.PI * S.PI))
    k.prove_eq("T_SO3_inv_psi = dT_inv/dpsi", rot.T_SO3_inv_psi(psi), k.jac(lambda p: rot.T_SO3_inv(p), psi), tol=1e-6)


def _regular_A(k):
    """generic 3x3 argument on the regular branch of Log_SO3"""
    import cardillo.math.rotations as r_

    def samp(g):
        v = g.normal(size=3)
        v = v / np.linalg.norm(v) * g.uniform(0.1, 2.8)
        return r_.Exp_SO3(v) + 1e-3 * g.normal(size=(3, 3))  # also slightly off the manifold

    A = k.reals("A", (3, 3), sample=samp)
    ca = 0.5 * (A[0, 0] + A[1, 1] + A[2, 2] - 1.0)
    k.assume(ca > -0.999)
    k.assume(ca < 1)
    return A


@contract("C03", "Log_SO3_A", timeout=180)
def c_log_A(k):
    k.covers(rot.Log_SO3_A, rot.Log_SO3)
    A = _regular_A(k)
    k.prove_eq("Log_SO3_A = dLog/dA", rot.Log_SO3_A(A), k.jac(lambda A_: rot.Log_SO3(A_), A), tol=1e-6)


@contract("C03", "Log_SO3_A/between 3.0969 rad and a half-turn", timeout=180)
def c_log_A_band(k):
    """trace-cosine in (-1, -0.999]: Log_SO3 switches to its half-turn formula there (it reads the axis from the symmetric
    part), Log_SO3_A does not and must not - the derivative stays the one of the regular formula
    psi = angle / (2 sin angle) * axial(A - A^T) up to, but excluding, the half-turn (property: 0 <= |psi| < pi).
    The regular formula is written out here as the specification."""
    k.covers(rot.Log_SO3_A)
    import cardillo.math.rotations as r_

    def samp(g):
        v = g.normal(size=3)
        v = v / np.linalg.norm(v) * g.uniform(3.098, 3.13)
        return r_.Exp_SO3(v) + 1e-5 * g.normal(size=(3, 3))

    A = k.reals("A", (3, 3), sample=samp)
    ca = 0.5 * (A[0, 0] + A[1, 1] + A[2, 2] - 1.0)
    k.assume(ca <= -0.999)
    k.assume(ca > -1)

    def regular(A_):
        from vk import npshim

        c = 0.5 * (A_[0, 0] + A_[1, 1] + A_[2, 2] - 1.0)
        with npshim.active(True) if k.sym else _null():
            ang = r_.np.arccos(c)
            fac = ang / r_.np.sqrt(1.0 - c * c)
        return 0.5 * np.array([A_[2, 1] - A_[1, 2], A_[0, 2] - A_[2, 0], A_[1, 0] - A_[0, 1]]) * fac

    k.prove_eq("Log_SO3_A = d(regular Log formula)/dA", rot.Log_SO3_A(A), k.jac(regular, A), tol=1e-4)


class _null:
    def __enter__(self):
        return self

    def __exit__(self, *a):
        return False


@contract("C03", "Log_SO3_A/at-zero-angle", timeout=120)
def c_log_A0(k):
    """the first-order branch (trace-cosine >= 1, angle == 0): Log_SO3 is 0.5*axial(A) there and
    Log_SO3_A must be its derivative"""
    k.covers(rot.Log_SO3_A, rot.Log_SO3)

    def samp(g):
        A = np.eye(3) + 0.3 * g.normal(size=(3, 3))
        A[np.diag_indices(3)] = [1.0, 1.0, 1.0]
        return A

    A = k.reals("A", (3, 3), sample=samp)
    ca = 0.5 * (A[0, 0] + A[1, 1] + A[2, 2] - 1.0)
    k.assume(ca >= 1)
    k.prove_eq("Log_SO3_A = dLog/dA on the zero-angle branch", rot.Log_SO3_A(A), k.jac(lambda A_: 0.5 * np.array([A_[2, 1] - A_[1, 2], A_[0, 2] - A_[2, 0], A_[1, 0] - A_[0, 1]]), A), tol=1e-9)
    k.prove_eq("Log_SO3 = 0.5 axial(A) on the zero-angle branch", rot.Log_SO3(A), 0.5 * np.array([A[2, 1] - A[1, 2], A[0, 2] - A[2, 0], A[1, 0] - A[0, 1]]), tol=1e-12)


@contract("C03", "Exp_SE3_h", timeout=240)
def c_exp_se3_h(k):
    k.covers(rot.Exp_SE3_h, rot.Exp_SE3)
    psi = _psi(k)
    k.assume(psi @ psi > 0)
    r = k.reals("r", 3)
    h = np.concatenate([r, psi])
    k.prove_eq("Exp_SE3_h = dExp_SE3/dh", rot.Exp_SE3_h(h), k.jac(lambda h_: rot.Exp_SE3(h_), h), tol=1e-6)


def _log_se3_H_modular(k):
    """Log_SE3_H against the contracts of its callees: Log_SO3 / Log_SO3_A and
    T_SO3_inv / T_SO3_inv_psi are replaced by uninterpreted smooth functions
    together with their derivative tensors (each pair is proved above)."""
    k.covers(rot.Log_SE3_H, rot.Log_SE3)
    if k.sym:
        from contracts.subsys import Jets
        from vk import sym as S

        A = S.symarray("A", (3, 3))
        r = S.symarray("r", 3)
        jets = Jets()
        LG = jets.array("LogSO3", 3, tuple(A.ravel()))
        TI = jets.array("TSO3inv", (3, 3), tuple(LG))

        def d(arr, wrt):
            out = np.empty(arr.shape + wrt.shape, dtype=object)
            for i in np.ndindex(*arr.shape):
                for j in np.ndindex(*wrt.shape):
                    out[i + j] = S.PARTIALS[arr[i].uid].partial(wrt[j])
            return out

        def same(x, y):
            x, y = np.asarray(x, dtype=object), np.asarray(y, dtype=object)
            return x.shape == y.shape and all(a is b for a, b in zip(x.ravel(), y.ravel()))

        def chk(x, y, what):
            if not same(x, y):
                raise S.KitError("callee stub called with an unexpected argument: " + what)

        saved = (rot.Log_SO3, rot.Log_SO3_A, rot.T_SO3_inv, rot.T_SO3_inv_psi)
        rot.Log_SO3 = lambda A_: (chk(A_, A, "Log_SO3"), LG.copy())[1]
        rot.Log_SO3_A = lambda A_: (chk(A_, A, "Log_SO3_A"), d(LG, A))[1]
        rot.T_SO3_inv = lambda p_: (chk(p_, LG, "T_SO3_inv"), TI.copy())[1]
        rot.T_SO3_inv_psi = lambda p_: (chk(p_, LG, "T_SO3_inv_psi"), d(TI, LG))[1]
        try:
            H = np.empty((4, 4), dtype=object)
            H[:3, :3] = A
            H[:3, 3] = r
            H[3, :3] = [S.ZERO] * 3
            H[3, 3] = S.ONE
            full = rot.Log_SE3_H(H)
            h = S.as_symarray(rot.Log_SE3(H))
        finally:
            rot.Log_SO3, rot.Log_SO3_A, rot.T_SO3_inv, rot.T_SO3_inv_psi = saved
        spec = np.empty((6, 3, 4), dtype=object)
        for i in range(6):
            for a in range(3):
                for b in range(3):
                    spec[i, a, b] = S.jvp(h[i], {A[a, b]: S.ONE})
                spec[i, a, 3] = S.jvp(h[i], {r[a]: S.ONE})
        k.prove_eq("Log_SE3_H[:, :3, :] = dLog_SE3/dH (chain rule over callee contracts)", full[:, :3, :], spec)
        k.prove_eq("last row of H does not enter", full[:, 3, :], np.zeros((6, 4)))
    else:
        # native cross-check on the manifold (finite differences of the real map)
        P = k.reals("P", 4)
        k.assume(P @ P > 1e-2 and abs(P[0]) > 0.2 * np.linalg.norm(P))
        r = k.reals("r", 3)
        H = rot.SE3(rot.Exp_SO3_quat(P), r)
        full = rot.Log_SE3_H(H)

        def log_of(Ar):
            Hh = np.eye(4)
            Hh[:3, :] = Ar
            return rot.Log_SE3(Hh)

        k.prove_eq("Log_SE3_H[:, :3, :] = dLog_SE3/dH (chain rule over callee contracts)", full[:, :3, :], k.jac(log_of, H[:3, :].copy()))
        k.prove_eq("last row of H does not enter", full[:, 3, :], np.zeros((6, 4)))


contract("C03", "Log_SE3_H/modular", timeout=120, samples=3)(_log_se3_H_modular)


@contract("C03", "T_SO3_quat_P", timeout=120)
def c_quat(k):
    k.covers(rot.T_SO3_quat_P, rot.T_SO3_inv_quat_P, rot.T_SO3_quat, rot.T_SO3_inv_quat)
    P = k.reals("P", 4)
    k.assume(P @ P > 0)
    k.prove_eq("T_SO3_quat_P = dT/dP", rot.T_SO3_quat_P(P), k.jac(lambda P_: rot.T_SO3_quat(P_), P))
    k.prove_eq("T_SO3_quat_P(normalize=False)", rot.T_SO3_quat_P(P, normalize=False), k.jac(lambda P_: rot.T_SO3_quat(P_, normalize=False), P))
    k.prove_eq("T_SO3_inv_quat_P = dT_inv/dP", rot.T_SO3_inv_quat_P(P), k.jac(lambda P_: rot.T_SO3_inv_quat(P_), P))


# ------------------------------------------------------------------- bounded: tiny angles
def _mp_eval(term, env):
    import mpmath as mp

    from vk import sym as S

    memo = {}

    def ev(t):
        r = memo.get(t)
        if r is not None:
            return r
        op = t.op
        if op == "c":
            r = mp.mpf(t.a.numerator) / mp.mpf(t.a.denominator)
        elif op in ("v", "f"):
            r = mp.pi if t is S.PI else env[t]
        elif op == "+":
            r = mp.mpf(t.a[0].numerator) / mp.mpf(t.a[0].denominator)
            for c, x in t.a[1]:
                r += mp.mpf(c.numerator) / mp.mpf(c.denominator) * ev(x)
        elif op == "*":
            r = mp.mpf(1)
            for b, e in t.a:
                r *= ev(b) ** e
        else:
            x = ev(t.a[0])
            r = {"sqrt": mp.sqrt, "sin": mp.sin, "cos": mp.cos, "tan": mp.tan, "acos": mp.acos, "atan": mp.atan}[op](x)
        memo[t] = r
        return r

    return ev(term)


@bounded("C03", "tiny-angle/rounding")
def b_tiny(tier, seed):
    """routine(psi) against the 50-digit value of the symbolic derivative of the real map,
    |psi| = 10^-k, k = 0..9."""
    import mpmath as mp

    from vk import kit as K
    from vk import npshim
    from vk import sym as S

    mp.mp.dps = 50
    rng = np.random.default_rng(seed + 3)
    psi_s = S.symarray("bpsi", 3)
    pd_s = S.symarray("bpsid", 3)

    # symbolic derivative terms of the real maps (regular branch psi != 0)
    class _Oracle:
        def __init__(self):
            self.facts = []

        def decide(self, c):
            # |psi| > 0 on this branch
            return True

        def log_safety(self, *a):
            pass

    terms = {}
    S.ORACLE[0] = _Oracle()
    try:
        with npshim.active(True):

            def jac(y, xs):
                y = S.as_symarray(y)
                out = np.empty(y.shape + (len(xs),), dtype=object)
                for j, x in enumerate(xs):
                    memo = {}
                    for idx in np.ndindex(*y.shape):
                        out[idx + (j,)] = S.jvp(y[idx], {x: S.ONE}, memo)
                return out

            terms["Exp_SO3_psi"] = (jac(rot.Exp_SO3(psi_s), list(psi_s)), lambda p, pd: rot.Exp_SO3_psi(p))
            terms["T_SO3_psi"] = (jac(rot.T_SO3(psi_s), list(psi_s)), lambda p, pd: rot.T_SO3_psi(p))
            terms["T_SO3_inv_psi"] = (jac(rot.T_SO3_inv(psi_s), list(psi_s)), lambda p, pd: rot.T_SO3_inv_psi(p))
            Tt = S.as_symarray(rot.T_SO3(psi_s))
            tang = {psi_s[i]: pd_s[i] for i in range(3)}
            Td = np.empty((3, 3), dtype=object)
            memo = {}
            for idx in np.ndindex(3, 3):
                Td[idx] = S.jvp(Tt[idx], tang, memo)
            terms["T_SO3_dot"] = (Td, lambda p, pd: rot.T_SO3_dot(p, pd))
    finally:
        S.ORACLE[0] = None
    dirs = [np.array(v, float) for v in [(1, 0, 0), (0, 1, 0), (0, 0, 1), (1, 1, 0), (1, 1, 1), (1, -2, 3)]]
    dirs += [rng.normal(size=3) for _ in range(2 if tier == "quick" else 20)]
    cases = 0
    worst = {}
    failures = []
    tol = 1e-6
    for d in dirs:
        d = d / np.linalg.norm(d)
        pdv = rng.normal(size=3)
        for kk in range(0, 10):
            psi = d * 10.0 ** (-kk)
            env = {psi_s[i]: mp.mpf(float(psi[i])) for i in range(3)}
            env.update({pd_s[i]: mp.mpf(float(pdv[i])) for i in range(3)})
            for name, (tt, fn) in terms.items():
                cases += 1
                native = np.asarray(fn(psi, pdv), dtype=float)
                err = 0.0
                for idx in np.ndindex(*tt.shape):
                    ref = _mp_eval(S._coerce(tt[idx]), env)
                    err = max(err, abs(float(ref - mp.mpf(float(native[idx])))))
                if err > worst.get(name, (0, None))[0]:
                    worst[name] = (err, kk)
                if not err <= tol:
                    bucket = "at |psi| <= 1e-5 (cancellation)" if kk >= 5 else "at |psi| > 1e-5"
                    failures.append({"what": f"{name} deviates from the true derivative {bucket}", "input": {"psi": psi.tolist(), "psi_dot": pdv.tolist()}, "detail": f"max abs error {err:.3e} at |psi| = 1e-{kk}"})
    seen, out = set(), []
    for f in failures:
        if f["what"] not in seen:
            seen.add(f["what"])
            out.append(f)
    return {"cases": cases, "distinct": cases, "failures": out, "bound": f"{len(dirs)} directions x |psi| = 10^-k (k=0..9) x 4 routines, absolute tolerance {tol}; worst errors {{{', '.join(f'{n}: {e:.2e}@1e-{kk}' for n, (e, kk) in worst.items())}}}"}


@contract("C03", "derivative routines/integer-typed arguments", samples=0, replayable=False, timeout=30)
def c_integer_arguments(k):
    """a rotation vector / twist / quaternion / matrix given as an INTEGER-typed array denotes the same real values: every
    routine returns what it returns for the float-typed array (they used to allocate their result with the dtype of the
    argument and silently truncated it; executed natively)"""
    from vk import kit as K
    from vk import npshim

    if not k.sym:
        raise K.Reject("decided by native execution")
    import cardillo.math.rotations as r

    k.covers(r.Exp_SO3_psi, r.T_SO3_psi, r.T_SO3_inv_psi, r.Log_SO3_A, r.Exp_SE3_h, r.Log_SE3_H, r.Exp_SO3_quat_P, r.T_SO3_quat_P, r.T_SO3_inv_quat_P)
    with npshim.active(False):
        psi, h, P = np.array([1, 2, 0]), np.array([1, 2, 0, 0, 1, 1]), np.array([1, 2, 0, 1])
        Ai = np.array([[0, -1, 0], [1, 0, 0], [0, 0, 1]])
        Hi = np.array([[0, -1, 0, 1], [1, 0, 0, 2], [0, 0, 1, 3], [0, 0, 0, 1]])
        cases = [("Exp_SO3_psi", psi), ("T_SO3_psi", psi), ("T_SO3_inv_psi", psi), ("Exp_SE3_h", h), ("Exp_SO3_quat_P", P), ("T_SO3_quat_P", P), ("T_SO3_inv_quat_P", P), ("Log_SO3_A", Ai), ("Log_SE3_H", Hi), ("Exp_SO3", psi), ("Exp_SE3", h), ("T_SO3", psi), ("T_SO3_inv", psi), ("T_SE3", h), ("Log_SO3", Ai), ("Log_SE3", Hi)]
        for name, x in cases:
            fn = getattr(r, name)
            try:
                a, b = np.asarray(fn(x)), np.asarray(fn(x.astype(float)))
                ok = bool(a.shape == b.shape and np.allclose(np.asarray(a, dtype=float), b, atol=1e-13))
            except Exception as e:  # noqa: BLE001
                ok = False
                name = f"{name} (raised {type(e).__name__})"
            k.prove(f"{name}: integer-typed argument gives the result of the float-typed argument", ok)
        a, b = r.T_SO3_dot(psi, np.array([2, 1, 1])), r.T_SO3_dot(psi.astype(float), np.array([2.0, 1, 1]))
        k.prove("T_SO3_dot: integer-typed arguments give the result of the float-typed arguments", bool(np.allclose(np.asarray(a, dtype=float), b, atol=1e-13)))
