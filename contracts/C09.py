"""C09 - Scalar force laws default to a stress-free initial configuration.

The real assembler chain (force law -> interaction/joint -> bodies) is executed
on real RigidBody / PointMass / Frame objects with a symbolic initial
configuration q0 (and symbolic angle0 for revolute joints); l_ref is left at
its default None.  Obligations: assembling does not raise, and at (t0, q0) the
element stores no energy and exerts no force.
"""

import numpy as np

from cardillo.constraints import Revolute
from cardillo.discrete.frame import Frame
from cardillo.discrete.point_mass import PointMass
from cardillo.discrete.rigid_body import RigidBody
from cardillo.force_laws import KelvinVoigtElement, MaxwellElement, Spring
from cardillo.interactions import TwoPointInteraction
import cardillo.math.rotations as rot
from vk.registry import contract

LEVEL = "proof"
TRUSTED = ["the element is assembled the way System.assemble does it: DOF bookkeeping of the bodies first, then only the force element's assembler_callback (the element is responsible for its interaction)"]
EXPLANATION = "SMT obligations from symbolic execution of the real assembler_callback chain on real bodies with symbolic q0"


def _body(k, kind, tag, off):
    if kind == "rigid":
        q0 = k.reals(tag + "q0", 7, sample=lambda g: np.concatenate([g.normal(size=3) * 2, g.normal(size=4)]))
        k.assume(q0[3:] @ q0[3:] > 0)
        s = RigidBody(1.0, np.eye(3))
    elif kind == "point":
        q0 = k.reals(tag + "q0", 3, sample=lambda g: g.normal(size=3) * 2)
        s = PointMass(1.0)
    else:
        r0 = k.reals(tag + "r0", 3, sample=lambda g: g.normal(size=3) * 2)
        Ph = k.reals(tag + "Ph", 4)
        k.assume(Ph @ Ph > 0)
        s = Frame(r_OP=r0, A_IB=rot.Exp_SO3_quat(Ph))
        q0 = np.array([])
    s.q0 = q0
    s.u0 = np.zeros(s.nu)
    s.t0 = 0.0
    s.qDOF = np.arange(len(q0)) + off[0]
    s.uDOF = np.arange(s.nu) + off[1]
    off[0] += len(q0)
    off[1] += s.nu
    return s, q0


def _element(k, cls, sub):
    kk = k.real("k", sample=lambda g: g.uniform(0.5, 5))
    k.assume(kk > 0)
    if cls is Spring:
        return Spring(sub, kk, compliance_form=False)
    d = k.real("d", sample=lambda g: g.uniform(0.2, 3))
    k.assume(d > 0)
    if cls is KelvinVoigtElement:
        return KelvinVoigtElement(sub, kk, d, compliance_form=False)
    return MaxwellElement(sub, kk, d)


def _obligations(k, el, cls, q0, nu):
    t0 = 0.0
    u0 = np.zeros(nu)
    if cls is MaxwellElement:
        el.my_qDOF = np.array([len(q0)])
    ok, _ = k.no_raise("assembler_callback with default l_ref", el.assembler_callback, allowed=(AssertionError,))  # AssertionError: coincident points are rejected explicitly
    if not ok:
        return
    if cls is MaxwellElement:
        q = np.concatenate([el.q0, q0])  # internal damper elongation at its default
        k.prove_eq("E_pot(t0,q0)=0", el.E_pot(t0, q), 0, tol=1e-9)
        k.prove_eq("force(t0,q0)=0", el.force(t0, q, u0), 0, tol=1e-9)
        k.prove_eq("h(t0,q0,u0)=0", np.asarray(el.h(t0, q, u0)), np.zeros(nu), tol=1e-9)
        k.prove_eq("damper at rest: q_dot(t0,q0)=0", el.q_dot(t0, q, u0), 0, tol=1e-9)
    else:
        k.prove_eq("E_pot(t0,q0)=0", el.E_pot(t0, q0), 0, tol=1e-9)
        k.prove_eq("la_c(t0,q0,0)=0", el.la_c(t0, q0, u0), 0, tol=1e-9)
        k.prove_eq("h(t0,q0,0)=0", np.asarray(el.h(t0, q0, u0)), np.zeros(nu), tol=1e-9)
        if cls is Spring:
            u = k.reals("u", nu)
            k.prove_eq("spring force vanishes at q0 for every velocity", el.la_c(t0, q0, u), 0, tol=1e-9)


def _tpi(cls, kinds):
    def c(k):
        k.covers(cls.assembler_callback, TwoPointInteraction.assembler_callback, TwoPointInteraction.l)
        off = [0, 0]
        s1, q1 = _body(k, kinds[0], "a", off)
        s2, q2 = _body(k, kinds[1], "b", off)
        B1 = k.reals("B1", 3) if kinds[0] != "point" else np.zeros(3)
        B2 = k.reals("B2", 3) if kinds[1] != "point" else np.zeros(3)
        tp = TwoPointInteraction(s1, s2, B_r_CP1=B1, B_r_CP2=B2)
        el = _element(k, cls, tp)
        _obligations(k, el, cls, np.concatenate([q1, q2]), off[1])

    return c


def _rev(cls, axis):
    def c(k):
        k.covers(cls.assembler_callback, Revolute.assembler_callback, Revolute.l)
        off = [0, 0]
        s1, q1 = _body(k, "rigid", "a", off)
        s2, q2 = _body(k, "rigid", "b", off)
        angle0 = k.real("angle0", sample=lambda g: g.uniform(-3, 3))
        j = Revolute(s1, s2, axis=axis, angle0=angle0)
        el = _element(k, cls, j)
        _obligations(k, el, cls, np.concatenate([q1, q2]), off[1])

    return c


for _cls in (Spring, KelvinVoigtElement, MaxwellElement):
    contract("C09", f"{_cls.__name__}/TwoPointInteraction[rigid-rigid]", timeout=120, samples=2)(_tpi(_cls, ("rigid", "rigid")))
    contract("C09", f"{_cls.__name__}/TwoPointInteraction[frame-point]", timeout=120, samples=2)(_tpi(_cls, ("frame", "point")))
    contract("C09", f"{_cls.__name__}/Revolute[axis=2]", timeout=120, samples=2)(_rev(_cls, 2))
    contract("C09", f"{_cls.__name__}/Revolute[axis=0]", tiers=("thorough",), timeout=120, samples=2)(_rev(_cls, 0))


# ------------------------------------------------------------------ bounded: unusual but legal inputs
from vk import kit as K  # noqa: E402
from vk.registry import bounded  # noqa: E402


@bounded("C09", "native/integer-typed-and-list-initial-coordinates")
def b_int_q0(tier, seed):
    """initial coordinates given as integer arrays / python lists (np.asarray keeps the integer dtype):
    the default reference must still be stress free.  Runs the real chain through System.assemble."""
    import contextlib, io, warnings

    from cardillo import System

    rng = np.random.default_rng(seed + 17)
    cases, failures = 0, []
    for cls in (Spring, KelvinVoigtElement, MaxwellElement):
        for kind in ("point-point", "rigid-rigid", "revolute"):
            for variant in ("int-first", "int-second", "float"):
                if kind == "revolute" and variant != "float":
                    continue  # integer quaternions already break the joint itself (Exp_SO3_quat divides in place): not a force-law matter
                cases += 1
                try:
                    with warnings.catch_warnings(), contextlib.redirect_stdout(io.StringIO()):
                        warnings.simplefilter("ignore")
                        sysm = System()
                        extra = PointMass(1.0, q0=rng.normal(size=3))  # unrelated first body shifts all DOF offsets
                        if kind == "point-point":
                            qa = [1, 0, 0] if variant == "int-first" else [1.0, 0.25, 0.0]
                            qb = [3, 2, 0] if variant == "int-second" else [2.5, 1.5, 0.25]
                            a, b = PointMass(1.0, q0=qa), PointMass(1.0, q0=qb)
                            sub = TwoPointInteraction(a, b)
                        elif kind == "rigid-rigid":
                            qa = [0, 0, 0, 1, 0, 0, 0] if variant == "int-first" else [0.0, 0.5, 0.0, 1.0, 0.0, 0.0, 0.0]
                            qb = [2, 1, 0, 1, 0, 0, 0] if variant == "int-second" else [1.5, 1.25, 0.5, 1.0, 0.0, 0.0, 0.0]
                            a, b = RigidBody(1.0, np.eye(3), q0=qa), RigidBody(1.0, np.eye(3), q0=qb)
                            sub = TwoPointInteraction(a, b, B_r_CP1=np.array([0.1, 0.2, 0.0]), B_r_CP2=np.array([0.0, -0.3, 0.1]))
                        else:
                            q = [1, 2, 0, 1, 0, 0, 0] if variant.startswith("int") else [1.0, 2.5, 0.0, 1.0, 0.0, 0.0, 0.0]
                            a, b = RigidBody(1.0, np.eye(3), q0=q), RigidBody(1.0, np.eye(3), q0=list(q))
                            sub = Revolute(a, b, axis=2, angle0=0.7)
                        kw = {} if cls is not MaxwellElement else {}
                        if cls is Spring:
                            el = Spring(sub, 50.0, compliance_form=False)
                        elif cls is KelvinVoigtElement:
                            el = KelvinVoigtElement(sub, 50.0, 2.0, compliance_form=False)
                        else:
                            el = MaxwellElement(sub, 50.0, 2.0)
                        sysm.add(extra, a, b)
                        if kind == "revolute":
                            sysm.add(sub)
                        sysm.add(el)
                        sysm.assemble()
                        t0, q0, u0 = sysm.t0, sysm.q0, sysm.u0
                        E = el.E_pot(t0, q0[el.qDOF])
                        h = np.asarray(el.h(t0, q0[el.qDOF], u0[el.uDOF]))
                    if not (abs(E) <= 1e-12 and np.max(np.abs(h), initial=0.0) <= 1e-10 and h.shape == (len(el.uDOF),)):
                        failures.append({"what": f"{cls.__name__} on {kind} ({variant} q0): not stress free at (t0, q0)", "input": {"variant": variant}, "detail": f"E_pot={E}, |h|max={np.max(np.abs(h), initial=0.0)}, h.shape={h.shape}"})
                except Exception as e:  # noqa: BLE001
                    failures.append({"what": f"{cls.__name__} on {kind} ({variant} q0): assembling raised {type(e).__name__}", "input": {"variant": variant}, "detail": str(e)[:200]})
    return {"cases": cases, "distinct": cases, "failures": failures, "bound": "3 force laws x 3 subsystem kinds x 3 dtype variants of q0, through System.assemble"}


@bounded("C09", "native/force law attached to a joint that was assembled before with another initial state")
def b_reused_joint(tier, seed):
    """history: a mechanism (body on a Revolute joint / two bodies for a TwoPointInteraction) is assembled, gets a new
    ADMISSIBLE initial state (System.set_new_initial_state: the body turned about the joint axis), and only then a force
    law with default l_ref is attached and the system assembled again: the default reference belongs to the current state.
    (A symbolic version over arbitrary new states was dropped: off the joint manifold Revolute.l is not defined.)"""
    import contextlib, io, warnings

    from cardillo import System
    from cardillo.discrete import RigidBody
    from cardillo.math.rotations import Exp_SO3

    rng = np.random.default_rng(seed + 91)
    cases, failures = 0, []
    for cls in (Spring, KelvinVoigtElement, MaxwellElement):
        for axis in (0, 1, 2):
            for rep in range(2 if tier == "quick" else 6):
                cases += 1
                phi = float(rng.uniform(-1.4, 1.4))  # within the tracking precondition |increment| < pi/2 (C25)
                angle0 = float(rng.uniform(-1.5, 1.5))
                A0 = Exp_SO3(rng.uniform(-1, 1, 3))
                e = np.eye(3)[axis]
                rJ = rng.uniform(-1, 1, 3)
                r_body = rJ + A0 @ rng.uniform(-0.5, 0.5, 3)
                with warnings.catch_warnings(), contextlib.redirect_stdout(io.StringIO()), contextlib.redirect_stderr(io.StringIO()):
                    warnings.simplefilter("ignore")
                    try:
                        sysm = System(t0=0.5)
                        rb = RigidBody(1.0, np.diag([1.0, 2.0, 3.0]), q0=RigidBody.pose2q(r_body, A0), u0=np.zeros(6))
                        j = Revolute(sysm.origin, rb, axis=axis, angle0=angle0, r_OJ0=rJ, A_IJ0=A0)
                        sysm.add(rb, j)
                        sysm.assemble()
                        R = A0 @ Exp_SO3(phi * e) @ A0.T  # rotation about the joint axis through the joint point
                        q_new = RigidBody.pose2q(rJ + R @ (r_body - rJ), R @ A0)
                        sysm.set_new_initial_state(q_new, np.zeros(6), t0=0.5)
                        kw = {} if cls is MaxwellElement else {"compliance_form": bool(rep % 2)}
                        el = cls(j, 7.0, 0.5) if cls is MaxwellElement else (cls(j, k=7.0, d=0.3, **kw) if cls is KelvinVoigtElement else cls(j, k=7.0, **kw))
                        sysm.add(el)
                        sysm.assemble()
                        t0, q0, u0 = sysm.t0, sysm.q0, sysm.u0
                        vals = dict(E_pot=abs(float(sysm.E_pot(t0, q0))), h=float(np.max(np.abs(sysm.h(t0, q0, u0)), initial=0.0)), la_c0=float(np.max(np.abs(sysm.la_c0), initial=0.0)), angle=abs(float(j.l(t0, q0[j.qDOF])) - (angle0 + phi)))
                    except Exception as ex:  # noqa: BLE001
                        failures.append({"what": f"{cls.__name__} on a re-assembled Revolute[axis={axis}]: raised {type(ex).__name__}", "input": {"seed": seed, "phi": phi}, "detail": str(ex)[:200]})
                        continue
                bad = {a: b for a, b in vals.items() if not b <= 1e-9}
                if bad:
                    failures.append({"what": f"{cls.__name__} with default l_ref on a Revolute[axis={axis}] that was assembled before with another initial state is not stress free at the current initial state", "input": {"seed": seed, "phi": phi, "angle0": angle0}, "detail": str(bad)})
    return {"cases": cases, "distinct": cases, "failures": failures[:12], "bound": "3 force laws x 3 joint axes x random admissible re-initialisations (rotation about the joint axis), force/compliance form alternating"}
