"""C15 - Sparse COO assembly accumulates exactly.

CooMatrix.__setitem__ / tosparse / asformat are executed for real with symbolic block
values for an exhaustively enumerated space of small shapes, index kinds (slices, index
arrays incl. permuted and repeated indices, scalars) and write sequences of length <= 3
(overlapping), with dense arrays, 1-D arrays, nested CooMatrix containers and None as
values; scipy sparse values are covered natively.  Specification: the dense matrix
obtained by adding every written block at its (rows x cols) positions.  Writes with
inconsistent block shapes must raise AssertionError.
"""

import itertools

import numpy as np
from scipy.sparse import coo_array, csr_array

from cardillo.utility.coo_matrix import CooMatrix
from vk.registry import bounded, contract

LEVEL = "other"
TRUSTED = [
    "scipy's COO constructor sums duplicate entries (documented semantics; the sparse shim of vk/npshim.py implements exactly this for symbolic data)",
    "numpy repeat / tile / ravel / atleast_2d contracts (executed natively on index arrays)",
    "generality in the matrix shape rests on the enumerated shapes (bounded); values are fully symbolic",
]
EXPLANATION = (
    "symbolic block values over an exhaustively enumerated bounded space of shapes, index kinds and write sequences; the real __setitem__ runs "
    "natively on symbolic data and the result is compared entrywise with the dense accumulation spec (obligations are linear identities, mostly closed by the normal form)"
)


def _index_options(n):
    opts = [("slice:all", slice(None)), ("scalar", 0)]
    if n >= 2:
        opts += [("slice:1:", slice(1, None)), ("perm", np.arange(n)[::-1].copy()), ("dup", np.array([0, 0])), ("sub", np.array([n - 1]))]
    if n >= 3:
        opts += [("step", slice(0, None, 2)), ("unsorted", np.array([2, 0]))]
    return opts


def _resolve(idx, n):
    if isinstance(idx, slice):
        return np.arange(*idx.indices(n))
    return np.atleast_1d(idx)


def _scenarios(tier):
    shapes = [(2, 2), (2, 3), (3, 3)] if tier == "quick" else [(1, 1), (1, 3), (2, 2), (2, 3), (3, 2), (3, 3), (4, 3)]
    for M, N in shapes:
        ro, co = _index_options(M), _index_options(N)
        singles = list(itertools.product(ro, co))
        # all single writes, all ordered pairs from a reduced set, a few triples
        for w in singles:
            yield (M, N, [w])
        red = singles[:: max(1, len(singles) // (6 if tier == "quick" else 12))]
        for w1, w2 in itertools.product(red, red):
            yield (M, N, [w1, w2])
        for w1, w2, w3 in itertools.islice(itertools.product(red, red, red), 0, None, 7 if tier == "quick" else 3):
            yield (M, N, [w1, w2, w3])


@contract("C15", "CooMatrix/accumulation", samples=1, timeout=60)
def c_accumulate(k):
    k.covers(CooMatrix.__init__, CooMatrix.__setitem__, CooMatrix.tosparse, CooMatrix.asformat, CooMatrix.tocoo, CooMatrix.tocsr, CooMatrix.tocsc, CooMatrix.toarray)
    pool = k.reals("v", 36, sample=lambda g: g.normal(size=36))
    count = 0
    for M, N, writes in _scenarios(k.tier):
        coo = CooMatrix((M, N))
        spec = np.zeros((M, N), dtype=object if k.sym else float)
        off = 0
        for wi, ((rn, ri), (cn, ci)) in enumerate(writes):
            rows, cols = _resolve(ri, M), _resolve(ci, N)
            blk = pool[off : off + len(rows) * len(cols)].reshape(len(rows), len(cols))
            off += len(rows) * len(cols)
            kind = (count + wi) % 4
            if kind == 0:
                val = blk
            elif kind == 1 and len(rows) == 1:
                val = blk[0]  # 1-D value -> one row
            elif kind == 2:
                val = CooMatrix(blk.shape)  # nested container, filled in two steps
                val[slice(None), slice(None)] = blk
            elif kind == 3 and wi == 1:
                val = None  # contributes nothing
            else:
                val = blk
            coo[ri, ci] = val
            if val is not None:
                for a, r in enumerate(rows):
                    for b, c in enumerate(cols):
                        spec[r, c] = spec[r, c] + blk[a, b]
        count += 1
        fmt = ("coo", "csr", "csc", "array")[count % 4]
        out = coo.asformat(fmt)
        dense = out.toarray() if hasattr(out, "toarray") else np.asarray(out)
        k.prove_eq(f"{M}x{N} {[(w[0][0], w[1][0]) for w in writes]} -> {fmt}", dense, spec, tol=1e-12)
    k.prove("scenarios enumerated", count > 50, show=f"{count} write sequences")


@contract("C15", "CooMatrix/inconsistent-shapes-rejected", samples=1)
def c_reject(k):
    k.covers(CooMatrix.__setitem__)
    v = k.reals("v", (2, 3))
    cases = [
        ("dense 2x3 into 2x2 slot", (slice(0, 2), slice(0, 2)), v),
        ("dense 2x3 into 3x2 slot", (np.array([0, 1, 2]), np.array([0, 1])), v),
        ("1-D of length 3 into 2x1 slot", (np.array([0, 1]), 0), v[0]),
        ("dense 2x3 into scalar slot", (0, 0), v),
    ]
    for name, key, val in cases:
        coo = CooMatrix((3, 3))

        def put(coo=coo, key=key, val=val):
            coo[key] = val

        k.must_raise("rejects " + name, put, exc=(AssertionError,))
    inner = CooMatrix((2, 2))
    inner[slice(None), slice(None)] = v[:, :2]
    coo = CooMatrix((3, 3))

    def put2():
        coo[np.array([0, 1, 2]), np.array([0, 1])] = inner

    k.must_raise("rejects nested CooMatrix of wrong shape", put2, exc=(AssertionError,))
    k.prove_le("dummy", 0, 1)


@bounded("C15", "native/scipy-sparse-values-and-long-sequences")
def b_native(tier, seed):
    """random write sequences of length 0..40 with mixed value kinds incl. scipy sparse arrays (native floats)"""
    rng = np.random.default_rng(seed + 4)
    cases, failures = 0, []
    for trial in range(60 if tier == "quick" else 600):
        M, N = int(rng.integers(1, 7)), int(rng.integers(1, 7))
        coo = CooMatrix((M, N))
        spec = np.zeros((M, N))
        for _ in range(int(rng.integers(0, 41))):
            rows = rng.integers(0, M, size=int(rng.integers(1, M + 1)))
            cols = rng.integers(0, N, size=int(rng.integers(1, N + 1)))
            blk = rng.normal(size=(len(rows), len(cols)))
            kind = int(rng.integers(0, 5))
            if kind == 0:
                val = blk
            elif kind == 1:
                val = coo_array(blk)
            elif kind == 2:
                val = csr_array(blk)
            elif kind == 3:
                val = CooMatrix(blk.shape)
                val[:, :] = blk
            else:
                val = None
            coo[rows, cols] = val
            if val is not None:
                np.add.at(spec, (rows[:, None], cols[None, :]), blk)
        for fmt in ("coo", "csr", "csc", "array"):
            cases += 1
            out = coo.asformat(fmt)
            dense = out.toarray() if hasattr(out, "toarray") else np.asarray(out)
            if not np.allclose(dense, spec, atol=1e-12):
                failures.append({"what": f"asformat({fmt}) differs from dense accumulation", "input": {"shape": [M, N], "trial": trial}})
    return {"cases": cases, "distinct": cases, "failures": failures[:3], "bound": "random shapes <= 6x6, sequences of length 0..40, value kinds dense/coo/csr/nested/None"}


@contract("C15", "CooMatrix/dense blocks of any numeric dtype", samples=0, replayable=False, timeout=30)
def c_dtypes(k):
    """the property is about values, not about their machine type: integer / single-precision / boolean blocks and Python
    numbers accumulate like their float64 values (executed natively; exact small integers, so equality is exact)"""
    if not k.sym:
        from vk import kit as K

        raise K.Reject("decided by native execution")
    from vk import npshim

    k.covers(CooMatrix.__setitem__, CooMatrix.asformat)
    with npshim.active(False):
        base = np.arange(1, 7).reshape(2, 3)
        for name, block in (("int64", base.astype(np.int64)), ("int32", base.astype(np.int32)), ("float32", base.astype(np.float32)), ("bool", base % 2 == 0), ("nested list of ints", base.tolist()), ("float64", base.astype(float))):
            coo = CooMatrix((4, 5))
            coo[1:3, 2:5] = np.asarray(block) if not isinstance(block, list) else block
            coo[0:2, 0:3] = 0.5 * np.ones((2, 3))
            coo[1:3, 2:5] = np.asarray(block) if not isinstance(block, list) else block
            ref = np.zeros((4, 5))
            ref[1:3, 2:5] += 2 * np.asarray(block, dtype=float)
            ref[0:2, 0:3] += 0.5
            for fmt in ("array", "coo", "csr", "csc"):
                got = coo.asformat(fmt)
                got = got if isinstance(got, np.ndarray) else got.toarray()
                k.prove(f"{name} block written twice + float block: format {fmt} equals the dense sum", np.array_equal(np.asarray(got, dtype=float), ref))
        # the same for blocks handed over as scipy sparse arrays (their own branch of __setitem__) and nested CooMatrix blocks
        from scipy.sparse import coo_array, csc_array, csr_array

        for name, dt in (("int64", np.int64), ("int32", np.int32), ("float32", np.float32), ("bool", bool), ("float64", float)):
            dense = (base % 2 == 0) if dt is bool else base.astype(dt)
            for sname, ctor in (("csr_array", csr_array), ("csc_array", csc_array), ("coo_array", coo_array)):
                coo = CooMatrix((4, 5))
                try:
                    coo[1:3, 2:5] = ctor(dense)
                    coo[0:2, 0:3] = 0.5 * np.ones((2, 3))
                    coo[1:3, 2:5] = ctor(dense)
                    inner = CooMatrix((2, 3))
                    inner[0:2, 0:3] = dense
                    coo[1:3, 2:5] = inner
                    ref = np.zeros((4, 5))
                    ref[1:3, 2:5] += 3 * np.asarray(dense, dtype=float)
                    ref[0:2, 0:3] += 0.5
                    oks = []
                    for fmt in ("array", "coo", "csr", "csc"):
                        got = coo.asformat(fmt)
                        got = got if isinstance(got, np.ndarray) else got.toarray()
                        oks.append(np.array_equal(np.asarray(got, dtype=float), ref))
                    ok, how = all(oks), str(oks)
                except Exception as e:  # noqa: BLE001
                    ok, how = False, f"raised {type(e).__name__}: {e}"
                k.prove(f"{sname} of dtype {name} written twice + nested CooMatrix + float block: every format equals the dense sum", ok, show=how)
        coo = CooMatrix((3, 3))
        coo[1, 2] = 1
        coo[1, 2] = 2.5
        coo[0, 0] = np.int64(3)
        k.prove("Python / numpy integer scalars accumulate with floats", np.array_equal(coo.asformat("array"), np.array([[3.0, 0, 0], [0, 0, 3.5], [0, 0, 0]])))
