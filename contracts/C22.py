"""C22 - Nonlinear and fixed-point helpers honour their convergence contract.

fsolve, fixed_point_iteration and fixed_point_iteration_with_momentum are verified
with their loops cut at an inductive invariant (vk/loopcut.py): the function `fun`,
the Jacobian and the linear solver are uninterpreted (opaque callees), the iterates
are havocked, so the result holds for every number of iterations and every map.
Dimension n in {1, 2} is enumerated so that a counter-model is a concrete input.

  fsolve     Inv:  f = fun(x)  and  error = E(f, scale)  and  converged <=> error < 1  and  x = x0 + Delta_x
             Post: res.fun = fun(res.x), res.error = E(res.fun, scale), res.success <=> res.error < 1,
                   not success => warned
  fixed-point helpers  Post at every `return`: ||(x_new - x)/(atol + max(|x|,|x_new|) rtol)|| / sqrt(n) < 1
                   for the returned x_new and its predecessor x;  exhaustion raises.
  approx_fprime   2-point exact on affine maps, 3-point exact on quadratic maps (symbolic eps != 0).
"""

import numpy as np

import cardillo.math.approx_fprime as afp
import cardillo.math.fsolve as fs
import cardillo.solver.dual_stormer_verlet as dsv
from cardillo.solver import SolverOptions
from vk import kit as K
from vk import loopcut
from vk import sym as S
from vk.registry import bounded, contract

LEVEL = "proof"
TRUSTED = [
    "opaque callees: fun, jac, linear_solver / lu.solve are uninterpreted functions (pure-function assumption => congruence); numpy's norm/abs/maximum are the shim's definitions",
    "loop cut (vk/loopcut.py): mechanical AST rewrite of the current source dropping only the back edge; termination is not proved",
    "the iteration counter is an arbitrary integer in range(max_iter)",
]
EXPLANATION = "loop-invariant obligations on the real helper functions with opaque callees; QF_UFNRA"


def _uf_fun(name, n):
    def fun(x, *args):
        x = np.atleast_1d(x)
        return np.array([S.uf(f"{name}{i}", list(x)) for i in range(n)], dtype=object)

    return fun


def _havoc(name, old):
    if old is None:
        return None
    if isinstance(old, np.ndarray):
        if old.dtype == object or old.dtype.kind == "f":
            return S.symarray(name + "_h", old.shape)
        return old
    if isinstance(old, (S.Sym, float, np.floating)):
        return S.var(name + "_h")
    if isinstance(old, (S.SymBool, bool, np.bool_)):
        return S.boolvar(name + "_h")
    return old


class _FsolveHelper(loopcut.Helper):
    def __init__(self, mode, k, fun_spec, x0, n):
        super().__init__(mode)
        self.k, self.fun_spec, self.x0, self.n = k, fun_spec, x0, n
        self.scale = None

    def E(self, f, scale):
        with K.npshim.active(True):
            return fs.np.linalg.norm(f / scale) / scale.size**0.5

    def inv(self, loc):
        x, f, err, conv, Dx, scale = loc["x"], loc["f"], loc["error"], loc["converged"], loc["Delta_x"], loc["scale"]
        fx = self.fun_spec(x)
        c = S.TRUE
        for i in range(self.n):
            c = c & (S._coerce(f[i]) == fx[i]) & (S._coerce(x[i]) == self.x0[i] + Dx[i])
        e = S._coerce(err)
        c = c & (e == self.E(fx, scale))
        cb = S._cb(conv)
        c = c & (cb.implies(e < 1)) & ((e < 1).implies(cb))
        return c

    def at_entry(self, loc):
        self.k.prove("Inv at loop entry", self.inv(loc))

    def havoc(self, name, old):
        if name == "i":
            return None
        return _havoc(name, old)

    def assume_inv(self, loc):
        self.k.assume(self.inv(loc))
        self.k.assume(~S._cb(loc["converged"]))  # the loop only continues while not converged

    def back_edge(self, loc):
        self.k.prove("Inv preserved at the back edge", self.inv(loc) & ~S._cb(loc["converged"]))

    def element(self, it):
        i = S.var("iter_i")
        self.k.assume(i >= 0)
        self.k.assume(i <= len(it) - 1)
        return i

    def last(self, it):
        return len(it) - 1


def _fsolve(mode, jac_kind, n):
    def c(k):
        if not k.sym:
            raise K.Reject("loop-cut contract is symbolic only")
        k.covers(fs.fsolve)
        x0 = S.symarray("x0", n)
        fun = _uf_fun("F", n)
        atol, rtol = S.var("atol"), S.var("rtol")
        k.assume(atol > 0)
        k.assume(rtol > 0)

        def lin_solve(J, rhs):
            return np.array([S.uf(f"SOLVE{i}", list(np.atleast_1d(J.x)) + list(rhs)) for i in range(n)], dtype=object)

        class Opaque:
            def __init__(self, x):
                self.x = x

        class StubLU:
            def __init__(self, J=None):
                self.J = J

            def solve(self, rhs):
                return np.array([S.uf(f"LUSOLVE{i}", list(rhs)) for i in range(n)], dtype=object)

        opts = SolverOptions(newton_atol=atol, newton_rtol=rtol, newton_max_iter=20, linear_solver=lin_solve, numerical_jacobian_method="2-point" if jac_kind == "numerical" else False)
        warned = []
        saved = (fs.warn, fs.splu, fs.SuperLU, fs.csc_array, afp.warnings.warn)
        fs.warn = lambda msg, *a, **kw: warned.append(str(msg))
        fs.splu = lambda J: StubLU(J)
        fs.SuperLU = StubLU
        fs.csc_array = lambda a: Opaque(x0) if not isinstance(a, Opaque) else a
        afp.warnings.warn = lambda *a, **kw: None
        helper = _FsolveHelper(mode, k, fun, x0, n)
        run = loopcut.cut(fs.fsolve, loop=0)
        k.loop_info = run.info
        try:
            if jac_kind == "exact":
                kw = dict(jac=lambda x, *a: Opaque(x))
            elif jac_kind == "numerical":
                kw = dict(jac=None)
            elif jac_kind == "inexact":
                kw = dict(jac=lambda x, *a: Opaque(x), inexact=True)
            else:
                kw = dict(jac=StubLU())
            try:
                res = run(helper, fun, x0, options=opts, **kw)
            except loopcut.Stop:
                return
        finally:
            fs.warn, fs.splu, fs.SuperLU, fs.csc_array, afp.warnings.warn = saved
        # ---- postcondition at the return
        fx = fun(res.x)
        f0 = fun(x0)
        with K.npshim.active(True):
            scale = atol + fs.np.abs(f0) * rtol  # scaling is fixed by the initial residual
        k.prove_eq("res.fun = fun(res.x)", res.fun, fx)
        k.prove_eq("res.error = E(res.fun, scale)", res.error, helper.E(fx, scale))
        succ = S._cb(res.success)
        e = S._coerce(res.error)
        k.prove("res.success <=> scaled residual criterion at the returned point", succ.implies(e < 1) & (e < 1).implies(succ))
        if succ.op == "F" or (succ.op not in ("T",) and not bool(succ)):
            k.prove("not converged => warned", len(warned) > 0, show="warn() was called on this path")
        else:
            k.prove("converged => no warning", len(warned) == 0, show="no warn() on this path")

    return c


for _mode in ("entry", "iter", "exhausted"):
    for _jk in ("exact", "numerical", "inexact", "reused-LU"):
        for _n in (1, 2):
            _tiers = ("quick", "thorough") if (_n == 1 or _jk == "exact") else ("thorough",)
            contract("C22", f"fsolve[{_jk},n={_n}]/{_mode}", tiers=_tiers, samples=0, replayable=False, timeout=60, max_paths=200)(_fsolve(_mode, _jk, _n))


# --------------------------------------------------------------- fixed point helpers
class _FPHelper(loopcut.Helper):
    def __init__(self, mode, k, names):
        super().__init__(mode)
        self.k = k
        self.names = names

    def inv(self, loc):
        c = S.TRUE
        if "converged" in loc and loc["converged"] is not None:
            c = c & ~S._cb(loc["converged"])  # set only immediately before `break`
        if "error_old" in loc and isinstance(loc["error_old"], S.Sym):
            c = c & (loc["error_old"] >= 1)  # previous error of a non-converged step (or inf initially)
        if "thk" in loc and isinstance(loc["thk"], S.Sym):
            c = c & (loc["thk"] >= 1)
        return c

    def assume_inv(self, loc):
        self.k.assume(self.inv(loc))

    def back_edge(self, loc):
        self.k.prove("Inv preserved at the back edge", self.inv(loc))

    def havoc(self, name, old):
        if name in ("k",):
            return None
        return _havoc(name, old)

    def element(self, it):
        i = S.var("iter_k")
        self.k.assume(i >= 0)
        self.k.assume(i <= len(it) - 1)
        return i

    def last(self, it):
        return len(it) - 1


class _FPHelperTwoRounds(_FPHelper):
    """two consecutive iterations from the havocked loop head: what iteration i kept is read by iteration i + 1"""

    def one(self, it):
        i = S.var("iter_k")
        self.k.assume(i >= 0)
        self.k.assume(i <= len(it) - 2)
        return (i, i + 1)


def _criterion(x_new, x, atol, rtol, n):
    with K.npshim.active(True):
        scale = atol + dsv.np.maximum(dsv.np.abs(x), dsv.np.abs(x_new)) * rtol
        return dsv.np.linalg.norm((x_new - x) / scale) / np.sqrt(n)


def _fixed_point(which, mode, n, purity="pure"):
    """purity: how the fixed-point map treats its argument - "pure" (returns a new array), "in-place" (overwrites the
    array it was given and returns that very array), "partly-in-place" (overwrites a view of it and returns a new array
    built from the view: the pattern of DualStormerVerlet._step's own map), "own-buffer" (does not touch its argument but
    writes every result into one array of its own and returns that: `np.dot(A, x, out=buf); return buf` - a helper that
    keeps a reference to a result instead of a copy sees its previous iterate change under it; this needs two consecutive
    rounds of the loop to show).  The helpers must meet their contract for all."""

    def c(k):
        if not k.sym:
            raise K.Reject("loop-cut contract is symbolic only")
        fn = dsv.fixed_point_iteration if which == "plain" else dsv.fixed_point_iteration_with_momentum
        k.covers(fn)
        x0 = S.symarray("x0", n)
        G = _uf_fun("G", n)
        calls = []
        buf = np.empty(n, dtype=object)

        def fun(x):
            before = np.array(x, dtype=object).copy()
            y = G(before)
            calls.append((before, y))
            if purity == "in-place":
                x[:] = y
                return x
            if purity == "partly-in-place":
                head = x[:1]
                head[:] = y[:1]
                return np.concatenate([head, y[1:]])
            if purity == "own-buffer":
                buf[:] = y  # the map keeps one output array and returns it on every call
                return buf
            return y

        atol, rtol = S.var("atol"), S.var("rtol")
        k.assume(atol > 0)
        k.assume(rtol > 0)
        helper = (_FPHelperTwoRounds if purity == "own-buffer" else _FPHelper)(mode, k, None)
        run = loopcut.cut(fn, loop=0)
        raised = None
        try:
            out = run(helper, fun, x0, atol=atol, rtol=rtol, max_iter=50)
        except loopcut.Stop:
            return
        except (ValueError, RuntimeError) as e:
            raised = e
        if raised is not None:
            k.prove("non-convergence raises only when the loop is exhausted", mode == "exhausted", show=f"raised {type(raised).__name__} in mode {mode}")
            return
        if mode == "exhausted":
            k.prove("exhausted loop does not return silently", False, show="function returned after exhausting max_iter")
            return
        x_ret, nit, err = out
        # the returned point is fun(x_prev) for the last evaluation point x_prev
        x_prev, y = calls[-1]
        k.prove_eq("returned point is the last iterate fun(x_prev)", x_ret, y)
        crit = _criterion(y, x_prev, atol, rtol, n)
        k.prove_lt("returned point meets the absolute/relative tolerance", crit, 1)
        k.prove_eq("reported error is that criterion", err, crit)

    return c


for _which in ("plain", "momentum"):
    for _mode in ("iter", "exhausted"):
        for _n in (1, 2):
            contract("C22", f"fixed_point_iteration[{_which},n={_n}]/{_mode}", samples=0, replayable=False, timeout=60, max_paths=300,
                     tiers=("quick", "thorough") if _n == 1 else ("thorough",))(_fixed_point(_which, _mode, _n))
    if _which == "plain":  # (two rounds of the momentum variant fork beyond what is practical: > 20 min; not registered)
        contract("C22", "fixed_point_iteration[plain,n=1,map returns its own work array]/two consecutive iterations", samples=0, replayable=False, timeout=60, max_paths=600)(_fixed_point(_which, "iter", 1, "own-buffer"))
    for _purity in ("in-place", "partly-in-place"):
        for _n in (1, 2):
            contract("C22", f"fixed_point_iteration[{_which},n={_n},map updates its argument {_purity}]/iter", samples=0, replayable=False, timeout=60, max_paths=300,
                     tiers=("quick", "thorough") if (_n == 1 and _purity == "in-place") or (_n == 2 and _purity == "partly-in-place" and _which == "plain") else ("thorough",))(_fixed_point(_which, "iter", _n, _purity))


# ------------------------------------------------------------------- approx_fprime
def _fprime(method):
    def c(k):
        k.covers(afp.approx_fprime)
        n, m = 2, 2
        A = k.reals("A", (m, n))
        b = k.reals("b", m)
        Qd = k.reals("Q", (m, n, n))
        x0 = k.reals("x0", n)
        eps = k.real("eps", sample=lambda g: g.choice([1e-3, 1e-2, 0.1]))
        if k.sym:
            k.assume(~(eps == 0))
        saved = afp.warnings.warn
        afp.warnings.warn = lambda *a, **kw: None
        try:
            if method == "2-point":
                f = lambda x: A @ x + b
                J = afp.approx_fprime(x0, f, method="2-point", eps=eps)
                k.prove_eq("2-point is exact on affine maps", J, A, tol=1e-6)
            else:
                f = lambda x: A @ x + b + np.array([x @ Qd[i] @ x for i in range(m)])
                J = afp.approx_fprime(x0, f, method="3-point", eps=eps)
                exact = A + np.array([(Qd[i] + Qd[i].T) @ x0 for i in range(m)])
                k.prove_eq("3-point is exact on quadratic maps", J, exact, tol=1e-6)
        finally:
            afp.warnings.warn = saved

    return c


contract("C22", "approx_fprime[2-point]/exact-on-affine", samples=3)(_fprime("2-point"))
contract("C22", "approx_fprime[3-point]/exact-on-quadratic", samples=3)(_fprime("3-point"))


@contract("C22", "non-finite residuals are never reported as converged", samples=0, replayable=False, timeout=30)
def c_non_finite(k):
    """IEEE semantics the real-arithmetic contracts cannot see: a comparison with NaN is false whichever way it is
    written, so `error < 1` and `not (error >= 1)` differ exactly there.  The helpers are executed natively on residual
    functions that are NaN / +-inf at the initial guess, from a later iterate on, or in one component only: fsolve must
    report success False and warn; the fixed-point helpers must raise (they return only points meeting the tolerance)."""
    if not k.sym:
        raise K.Reject("decided by native execution")
    import contextlib
    import io
    import warnings

    k.covers(fs.fsolve, dsv.fixed_point_iteration, dsv.fixed_point_iteration_with_momentum)
    with K.npshim.active(False), np.errstate(all="ignore"):
        for bad_name, bad in (("nan", np.nan), ("+inf", np.inf), ("-inf", -np.inf)):
            for n in (1, 3):
                for comp in ("all components", "one component"):
                    for start in (0, 1, 3):  # the call of the residual function from which on it is non-finite
                        for jac in ("exact", "numerical"):
                            calls = [0]

                            def fun(x, calls=calls, n=n, comp=comp, start=start, bad=bad):
                                f = x**3 + 2.0 * x - 1.0
                                calls[0] += 1
                                if calls[0] > start:
                                    f = f.copy()
                                    if comp == "one component":
                                        f[-1] = bad
                                    else:
                                        f[:] = bad
                                return f

                            kw = dict(jac=(lambda x: np.diag(3.0 * x**2 + 2.0)) if jac == "exact" else None)
                            opts = SolverOptions(newton_max_iter=6, numerical_jacobian_method="2-point")
                            with warnings.catch_warnings(record=True) as w:
                                warnings.simplefilter("always")
                                try:
                                    res = fs.fsolve(fun, np.full(n, 5.0), options=opts, **kw)
                                    ok = (not bool(res.success)) and any("not converged" in str(x.message) for x in w)
                                    how = f"success={res.success}, error={res.error}, warnings={len(w)}"
                                except Exception as e:  # noqa: BLE001  (raising is not silent either)
                                    ok, how = True, f"raised {type(e).__name__}"
                            if jac == "numerical" and start > 0:
                                continue  # the finite-difference Jacobian calls fun itself: `start` does not address an iterate
                            k.prove(f"fsolve[{jac}, n={n}]: residual {bad_name} in {comp} from call {start} on => success False and a warning", ok, show=how)
                    for which, fp in (("plain", dsv.fixed_point_iteration), ("momentum", dsv.fixed_point_iteration_with_momentum)):
                        for start in (0, 2):
                            calls = [0]

                            def g(x, calls=calls, comp=comp, start=start, bad=bad):
                                y = 0.5 * np.cos(x)
                                calls[0] += 1
                                if calls[0] > start:
                                    y = y.copy()
                                    if comp == "one component":
                                        y[-1] = bad
                                    else:
                                        y[:] = bad
                                return y

                            try:
                                with contextlib.redirect_stdout(io.StringIO()):  # the momentum helper prints before it raises
                                    x, nit, err = fp(g, np.full(n, 0.3), max_iter=8)
                                ok, how = False, f"returned x={x}, error={err}"
                            except (ValueError, RuntimeError) as e:
                                ok, how = True, f"raised {type(e).__name__}: {str(e)[:60]}"
                            k.prove(f"fixed_point_iteration[{which}, n={n}]: map value {bad_name} in {comp} from call {start} on => raises", ok, show=how)


@contract("C22", "fixed-point helpers/maps that return their own work array (native, both helpers)", samples=0, replayable=False, timeout=30)
def c_own_buffer_native(k):
    """the two-round symbolic contract above covers the plain helper; the same question for both helpers on concrete affine
    contractions whose map writes every result into one array of its own: the returned point is fun(y) for the last
    evaluation point y (recorded by copy) and the criterion recomputed from those copies is below 1 and is the reported error"""
    if not k.sym:
        raise K.Reject("decided by native execution")
    k.covers(dsv.fixed_point_iteration, dsv.fixed_point_iteration_with_momentum)
    import contextlib
    import io

    rng = np.random.default_rng(4)
    with K.npshim.active(False):
        for which, fp in (("plain", dsv.fixed_point_iteration), ("momentum", dsv.fixed_point_iteration_with_momentum)):
            for n in (1, 3, 6):
                for tol in (1e-6, 1e-10):
                    Q, _ = np.linalg.qr(rng.normal(size=(n, n)))
                    A = 0.5 * Q @ np.diag(rng.uniform(0.2, 1.0, n)) @ Q.T  # symmetric, ||A|| <= 0.5
                    b = rng.normal(size=n)
                    buf, seen = np.empty(n), []

                    def g(x, A=A, b=b, buf=buf, seen=seen):
                        seen.append(x.copy())
                        np.dot(A, x, out=buf)
                        buf += b
                        return buf

                    try:
                        with contextlib.redirect_stdout(io.StringIO()):
                            x, nit, err = fp(g, 10.0 * rng.normal(size=n), atol=tol, rtol=tol, max_iter=200)
                        y = seen[-1]
                        gy = A @ y + b
                        scale = tol + np.maximum(np.abs(y), np.abs(gy)) * tol
                        crit = np.linalg.norm((gy - y) / scale) / np.sqrt(n)
                        ok = bool(np.allclose(x, gy, rtol=0, atol=1e-14) and crit < 1 and abs(err - crit) <= 1e-9 * max(1.0, crit))
                        how = f"criterion recomputed {crit:.3e}, reported {err:.3e}, |x - g(y)| = {np.max(np.abs(x - gy)):.2e}, {nit} iterations"
                    except (ValueError, RuntimeError) as e:
                        ok, how = False, f"raised {type(e).__name__} on a contraction with Lipschitz constant 0.5 and 200 iterations"
                    k.prove(f"fixed_point_iteration[{which}, n={n}, tol={tol:g}]: own-buffer map, returned point meets the tolerance it reports", ok, show=how)


@bounded("C22", "approx_fprime[cs]/accuracy")
def b_cs(tier, seed):
    """complex-step derivative against exact derivatives on polynomial/trigonometric families (bounded)."""
    import warnings

    rng = np.random.default_rng(seed + 9)
    cases, failures = 0, []
    with warnings.catch_warnings():
        warnings.simplefilter("ignore")
        for _ in range(20 if tier == "quick" else 200):
            n = rng.integers(1, 5)
            A = rng.normal(size=(n, n))
            x0 = rng.normal(size=n)
            f = lambda x: np.sin(A @ x) + (A @ x) ** 3
            exact = (np.cos(A @ x0)[:, None] + 3 * ((A @ x0) ** 2)[:, None]) * A
            for method, tol in (("cs", 1e-10), ("3-point", 1e-5), ("2-point", 1e-3)):
                cases += 1
                J = np.atleast_2d(afp.approx_fprime(x0, f, method=method, eps=1e-12 if method == "cs" else 1e-6))
                err = np.abs(J - exact).max() / (1 + np.abs(exact).max())
                if not err <= tol:
                    failures.append({"what": f"approx_fprime[{method}] inaccurate", "input": {"A": A.tolist(), "x0": x0.tolist()}, "detail": f"relative error {err:.2e} > {tol}"})
    return {"cases": cases, "distinct": cases, "failures": failures[:3], "bound": "random maps sin(Ax)+(Ax)^3, n=1..4"}
