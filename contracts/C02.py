"""C02 - Rotation charts invert each other on their whole domain.

Functions under contract (cardillo/math/rotations.py): Exp_SO3, Log_SO3, T_SO3,
T_SO3_inv, Spurrier, SE3, SE3inv, Exp_SE3, Log_SE3.  "Every rotation matrix" is
A = Exp_SO3_quat(P) for symbolic P != 0 (the half-turns are the points P_0 = 0 of
that domain).  Trigonometric facts enter only through the axiom table of vk/smt.py.
"""

import numpy as np

import cardillo.math.rotations as rot
from contracts.common import axial
from vk.registry import bounded, contract

LEVEL = "proof"
TRUSTED = [
    "every rotation matrix is Exp_SO3_quat(P) for some P != 0 (surjectivity of the quaternion map)",
    "T_SO3_inv at |psi| = pi exactly: real-number tan(pi/2) is undefined while the code's floating-point value is finite; that single sphere is excluded from the real-arithmetic obligation and covered by the bounded stand-in",
]
EXPLANATION = "SMT obligations over the reals with the transcendental axiom table; rounding-distance clauses by a bounded stand-in"


def det3(a):
    return a[0, 0] * (a[1, 1] * a[2, 2] - a[1, 2] * a[2, 1]) - a[0, 1] * (a[1, 0] * a[2, 2] - a[1, 2] * a[2, 0]) + a[0, 2] * (a[1, 0] * a[2, 1] - a[1, 1] * a[2, 0])


def _psi(k, bound=None, name="psi"):
    """rotation vector with |psi| < bound*pi (sym: psi.psi < (bound*pi)^2)"""
    psi = k.reals(name, 3, sample=lambda g: (lambda v: v / np.linalg.norm(v) * g.uniform(0, (bound or 1.0) * np.pi * 0.999))(g.normal(size=3)))
    if bound is not None:
        if k.sym:
            from vk import sym as S

            k.assume(psi @ psi < (bound * S.PI) * (bound * S.PI))
        else:
            k.assume(psi @ psi < (bound * np.pi) ** 2)
    return psi


@contract("C02", "Exp_SO3/is-rotation", timeout=120)
def c_exp(k):
    k.covers(rot.Exp_SO3)
    psi = _psi(k, None)
    R = rot.Exp_SO3(psi)
    k.prove_eq("R^T R = I", R.T @ R, np.eye(3))
    k.prove_eq("det R = 1", det3(R), 1)


@contract("C02", "Log_SO3(Exp_SO3(psi))=psi", timeout=120)
def c_logexp(k):
    k.covers(rot.Log_SO3, rot.Exp_SO3)
    psi = _psi(k, 1.0)
    k.prove_eq("Log(Exp(psi)) = psi", rot.Log_SO3(rot.Exp_SO3(psi)), psi, tol=1e-6)


@contract("C02", "Exp_SO3(Log_SO3(A))=A", timeout=120)
def c_explog(k):
    k.covers(rot.Log_SO3, rot.Exp_SO3)
    P = k.reals("P", 4)
    k.assume(P @ P > 0)
    A = rot.Exp_SO3_quat(P)
    k.prove_eq("Exp(Log(A)) = A", rot.Exp_SO3(rot.Log_SO3(A)), A, tol=1e-6)


@contract("C02", "Spurrier", timeout=120, max_paths=64)
def c_spurrier(k):
    k.covers(rot.Spurrier)
    P = k.reals("P", 4)
    k.assume(P @ P > 0)
    A = rot.Exp_SO3_quat(P)
    Q = rot.Spurrier(A)
    k.prove_eq("|Spurrier(A)| = 1", Q @ Q, 1)
    k.prove_eq("R(Spurrier(A)) = A", rot.Exp_SO3_quat(Q), A)
    k.prove_eq("R(Spurrier(A), normalize=False) = A", rot.Exp_SO3_quat(Q, normalize=False), A)


@contract("C02", "T_SO3.T_SO3_inv=I", timeout=180)
def c_T(k):
    k.covers(rot.T_SO3, rot.T_SO3_inv)
    psi = _psi(k, 2.0)
    if k.sym:
        from vk import sym as S

        k.assume(~(psi @ psi == S.PI * S.PI))  # tan(pi/2): see TRUSTED
    T = rot.T_SO3(psi)
    Ti = rot.T_SO3_inv(psi)
    k.prove_eq("T T_inv = I", T @ Ti, np.eye(3), tol=1e-6)
    k.prove_eq("T_inv T = I", Ti @ T, np.eye(3), tol=1e-6)


@contract("C02", "T_SO3 maps increments to body-fixed spin", timeout=180)
def c_spin(k):
    k.covers(rot.T_SO3, rot.Exp_SO3)
    psi = _psi(k, None)
    psi_dot = k.reals("psid", 3)
    R = rot.Exp_SO3(psi)
    R_dot = k.jvp(lambda p: rot.Exp_SO3(p), [psi], [psi_dot])
    k.prove_eq("skew2ax(R^T R_dot) = T(psi) psi_dot", axial(R.T @ R_dot), rot.T_SO3(psi) @ psi_dot, tol=1e-6)


@contract("C02", "SE3/inverse", timeout=60)
def c_se3inv(k):
    k.covers(rot.SE3, rot.SE3inv)
    P = k.reals("P", 4)
    k.assume(P @ P > 0)
    r = k.reals("r", 3)
    H = rot.SE3(rot.Exp_SO3_quat(P), r)
    k.prove_eq("SE3inv(H) H = I", rot.SE3inv(H) @ H, np.eye(4))
    k.prove_eq("H SE3inv(H) = I", H @ rot.SE3inv(H), np.eye(4))


@contract("C02", "Log_SE3(Exp_SE3(h))=h", timeout=180)
def c_se3_logexp(k):
    k.covers(rot.Exp_SE3, rot.Log_SE3)
    psi = _psi(k, 1.0)
    if k.sym:
        from vk import sym as S

        k.assume(~(psi @ psi == 0) | (psi @ psi == 0))
    r = k.reals("r", 3)
    h = np.concatenate([r, psi])
    H = rot.Exp_SE3(h)
    if k.sym:
        # modular step: Log_SE3 is verified against the *contract* of its callee Log_SO3
        # (contract 'Log_SO3(Exp_SO3(psi))=psi' above): on the rotation block of Exp_SE3(h),
        # which is literally the term Exp_SO3(psi), it returns psi.
        R = rot.Exp_SO3(psi)
        real_log = rot.Log_SO3

        def log_stub(A_):
            if A_.shape == (3, 3) and all(a is b for a, b in zip(np.asarray(A_).ravel(), R.ravel())):
                return psi.copy()
            return real_log(A_)

        rot.Log_SO3 = log_stub
        try:
            out = rot.Log_SE3(H)
        finally:
            rot.Log_SO3 = real_log
    else:
        out = rot.Log_SE3(H)
    k.prove_eq("Log_SE3(Exp_SE3(h)) = h", out, h, tol=1e-6)


@contract("C02", "Exp_SE3(Log_SE3(H))=H", timeout=180)
def c_se3_explog(k):
    k.covers(rot.Exp_SE3, rot.Log_SE3)
    P = k.reals("P", 4)
    k.assume(P @ P > 0)
    r = k.reals("r", 3)
    # exact half-turns (P_0 = 0): T_SO3_inv needs tan(pi/2), undefined over the reals -> bounded stand-in (TRUSTED)
    k.assume(P[0] * P[0] > 0)
    H = rot.SE3(rot.Exp_SO3_quat(P), r)
    k.prove_eq("Exp_SE3(Log_SE3(H)) = H", rot.Exp_SE3(rot.Log_SE3(H)), H, tol=1e-6)


@bounded("C02", "near-half-turn/rounding")
def b_half_turn(tier, seed):
    """Bounded stand-in for the floating-point clause 'within rounding distance of a half-turn'."""
    rng = np.random.default_rng(seed)
    axes = [np.array(v, float) for v in [(1, 0, 0), (0, 1, 0), (0, 0, 1), (1, 1, 0), (1, 0, 1), (0, 1, 1), (1, 1, 1), (1, -1, 0), (-1, 2, 3)]]
    axes += [rng.normal(size=3) for _ in range(4 if tier == "quick" else 17)]
    cases, failures = 0, []
    for ax in axes:
        ax = ax / np.linalg.norm(ax)
        for kk in list(range(1, 16)) + [None]:
            ang = np.pi if kk is None else np.pi - 10.0 ** (-kk)
            A = rot.Exp_SO3(ang * ax)
            cases += 1
            err = np.linalg.norm(rot.Exp_SO3(rot.Log_SO3(A)) - A)
            if not err <= 1e-6:
                failures.append({"what": "Exp(Log(A)) != A near a half-turn" if kk is not None else "Exp(Log(A)) != A at an exact half-turn", "input": {"axis": ax.tolist(), "angle": ang}, "detail": f"||Exp(Log A) - A|| = {err:.3e}"})
            Q = rot.Spurrier(A)
            e2 = max(abs(Q @ Q - 1), np.linalg.norm(rot.Exp_SO3_quat(Q) - A))
            if not e2 <= 1e-6:
                failures.append({"what": "Spurrier does not reproduce A near a half-turn", "input": {"axis": ax.tolist(), "angle": ang}, "detail": f"error {e2:.3e}"})
    # SE(3) round trip at and near half-turns (floating point)
    for ax in axes[:8]:
        ax = ax / np.linalg.norm(ax)
        for kk in (2, 6, 9, 12, None):
            ang = np.pi if kk is None else np.pi - 10.0 ** (-kk)
            H = rot.SE3(rot.Exp_SO3(ang * ax), rng.normal(size=3))
            cases += 1
            err = np.linalg.norm(rot.Exp_SE3(rot.Log_SE3(H)) - H)
            if not err <= 1e-6:
                failures.append({"what": "Exp_SE3(Log_SE3(H)) != H near a half-turn", "input": {"axis": ax.tolist(), "angle": ang}, "detail": f"{err:.3e}"})
    # T_SO3_inv at |psi| = pi in floats
    for ax in axes[:6]:
        ax = ax / np.linalg.norm(ax)
        psi = np.pi * ax
        cases += 1
        err = np.linalg.norm(rot.T_SO3(psi) @ rot.T_SO3_inv(psi) - np.eye(3))
        if not err <= 1e-6:
            failures.append({"what": "T T_inv != I at |psi| = pi", "input": {"psi": psi.tolist()}, "detail": f"{err:.3e}"})
    seen, out = set(), []
    for f in failures:
        if f["what"] not in seen:
            seen.add(f["what"])
            out.append(f)
    return {"cases": cases, "distinct": cases, "failures": out, "bound": f"{len(axes)} axes x angles pi - 10^-k, k = 1..15, and pi; tolerance 1e-6"}


@bounded("C02", "tiny-rotation-vectors/rounding")
def b_tiny(tier, seed):
    """Bounded stand-in for the other end of the domain in floating point: rotation vectors of tiny but non-zero norm
    (|psi| = 10^-k, k = 1..17: the relative rotation of an almost straight rod element, rounding noise).  The closed forms
    are removable singularities there; a formula that is exact over the reals (e.g. gamma = alpha / beta with
    beta = 2 (1 - cos)/angle^2) can lose every digit.  Tolerance 1e-7 (the unchanged routines are at 5e-9 or better)."""
    rng = np.random.default_rng(seed + 2)
    axes = [np.array(v, float) for v in [(1, 0, 0), (0, 0, 1), (1, 1, 0), (1, 2, 2), (-1, 2, 3)]] + [rng.normal(size=3) for _ in range(2 if tier == "quick" else 8)]
    cases, failures = 0, []
    with np.errstate(all="ignore"):
        for ax in axes:
            ax = ax / np.linalg.norm(ax)
            for kk in range(1, 18):
                psi = 10.0 ** (-kk) * ax
                r = rng.normal(size=3)
                h = np.concatenate([r, psi])
                checks = {
                    "T_SO3 T_SO3_inv = I": lambda: rot.T_SO3(psi) @ rot.T_SO3_inv(psi) - np.eye(3),
                    "T_SO3_inv T_SO3 = I": lambda: rot.T_SO3_inv(psi) @ rot.T_SO3(psi) - np.eye(3),
                    "Log_SO3(Exp_SO3(psi)) = psi (relative)": lambda: (rot.Log_SO3(rot.Exp_SO3(psi)) - psi) / np.linalg.norm(psi),
                    "Exp_SO3(Log_SO3(A)) = A": lambda: rot.Exp_SO3(rot.Log_SO3(rot.Exp_SO3(psi))) - rot.Exp_SO3(psi),
                    "Log_SE3(Exp_SE3(h)) = h": lambda: rot.Log_SE3(rot.Exp_SE3(h)) - h,
                    "Exp_SE3(Log_SE3(H)) = H": lambda: rot.Exp_SE3(rot.Log_SE3(rot.Exp_SE3(h))) - rot.Exp_SE3(h),
                }
                for what, f in checks.items():
                    cases += 1
                    try:
                        err = float(np.max(np.abs(f())))
                    except Exception as e:  # noqa: BLE001
                        err = float("nan")
                    if not err <= 1e-7:
                        failures.append({"what": f"{what} fails for a tiny rotation vector", "input": {"psi": psi.tolist(), "r": r.tolist()}, "detail": f"max deviation {err:.3e} at |psi| = 1e-{kk}"})
    seen, out = set(), []
    for f in failures:
        if f["what"] not in seen:
            seen.add(f["what"])
            out.append(f)
    return {"cases": cases, "distinct": cases, "failures": out, "bound": f"{len(axes)} axes x |psi| = 10^-k, k = 1..17, six round trips each; tolerance 1e-7"}
