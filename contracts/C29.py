"""C29 - VTK export writes what was simulated.

The part of the property that is a statement about cardillo's code is a DATAFLOW statement: which frames are
kept, which file a frame goes to, which numbers are handed to VTK and what the collection file lists.  The
real `Export.__init__ / __prepare_data / export_contr / make_ugrid` and the real `export` methods of the
contributions are executed on solutions whose rows are SYMBOLIC (every number of every frame a distinct atom,
so "equals" means "is that very entry of the solution", for all values at once); the VTK classes they talk
to are external and replaced by their assumed contract (a recording implementation: points, cells and named
tuple arrays accumulate in call order, `Write()` stores the grid it was given under the file name it was
given).  Obligations:

  frame selection    the kept frames are the original frames 0, s, 2s, ... for one stride s >= 1 shared by every
                     field (row i of every kept field belongs to time t[i s]); s = max(1, floor(n / max(1, floor(T fps))))
  collection file    one DataSet per kept frame, in time order, timestep = that frame's time, file = the file the
                     writer was told to write for that very frame; every listed file was written exactly once
  file contents      the grid written for frame i has exactly the points / cells / point data / cell data that
                     contr.export(sol_i) returned for that frame (lists of contributions: concatenated, cell
                     connectivity shifted by the number of points before them)
  no clobbering      a second export under the same name writes new files and lists only those; files listed by
                     the first collection still hold the first export's data
  geometry           RigidBody / PointMass / Frame / Sphere2Plane / Force / Moment .export(sol_i) return the
                     kinematic quantities (r_OP, v_P, A_IB columns, ...) evaluated at sol_i.t and at the
                     contribution's own slice of sol_i.q / sol_i.u (C04 proves those quantities themselves)

What VTK's C++ writer puts on disk (bytes, ASCII precision, binary encoding) is outside any contract on
cardillo code: the bounded stand-in writes real files for real simulations and reads them back with VTK's
reader (rigid bodies, point masses, frames, contacts, rods; binary and ASCII; several frame rates).
"""

import contextlib
import io
import os
import tempfile
import warnings
from pathlib import Path
from xml.dom import minidom

import numpy as np

import cardillo.visualization.vtk_export as ve
from cardillo.contacts import Sphere2Plane
from cardillo.discrete import Frame, PointMass, RigidBody
from cardillo.forces import Force
from cardillo.solver import Solution
from contracts.sysstub import patched
from vk import kit as K
from vk import npshim
from vk import sym as S
from vk.registry import bounded, contract

LEVEL = "proof"
TRUSTED = [
    "VTK is external: vtkPoints / vtkUnstructuredGrid / vtk*Array / vtkXMLUnstructuredGridWriter are replaced by their assumed contract (data accumulates in call order; Write() stores the grid under the given file name); what the real writer puts on disk is covered by the bounded read-back only",
    "object arrays of symbolic reals count as floating-point arrays for dtype_map (np.issubdtype shim inside vtk_export only)",
    "frame times, frame counts and frame rates are enumerated (concrete); every other number of the solution is symbolic",
    "rods: the centerline + directors export level is under contract (executed natively on real rods); the volume levels (Bezier projection, cross-section surfaces) are covered by the bounded read-back only",
]
EXPLANATION = "symbolic native execution of the real Export / make_ugrid / contribution export methods against a recording contract of the VTK classes; path-execution and normal-form obligations on the recorded data; bounded read-back of real files with VTK's reader"


# --------------------------------------------------------------------------- assumed contract of the VTK classes
class _FakeVTK:
    """recording stand-in for the vtk module as vtk_export uses it"""

    def __init__(self):
        self.files = {}  # file name -> list of grids written to it (in order)
        self.order = []
        outer = self

        class vtkPoints:
            def __init__(self):
                self.pts = []

            def Allocate(self, n):
                pass

            def InsertNextPoint(self, p):
                self.pts.append(np.array(p, dtype=object).copy())

        class _Array:
            kind = "double"

            def __init__(self):
                self.name, self.tuples, self.ncomp, self.ntup = None, {}, None, None

            def SetName(self, n):
                self.name = n

            def SetNumberOfTuples(self, n):
                self.ntup = n

            def SetNumberOfComponents(self, n):
                self.ncomp = n

            def InsertTuple(self, i, v):
                self.tuples[i] = np.array(v, dtype=object).copy()

        class vtkDoubleArray(_Array):
            kind = "double"

        class vtkIntArray(_Array):
            kind = "int"

        class vtkBitArray(_Array):
            kind = "bit"

        class _Data:
            def __init__(self):
                self.arrays, self.special = [], {}

            def AddArray(self, a):
                self.arrays.append(a)

            def SetRationalWeights(self, a):
                self.special["RationalWeights"] = a

            def SetHigherOrderDegrees(self, a):
                self.special["HigherOrderDegrees"] = a

        class vtkUnstructuredGrid:
            def __init__(self):
                self.points, self.cells, self.pd, self.cd = None, [], _Data(), _Data()

            def SetPoints(self, p):
                self.points = p

            def Allocate(self, n):
                pass

            def InsertNextCell(self, t, n, conn):
                self.cells.append((t, n, list(conn)))

            def GetPointData(self):
                return self.pd

            def GetCellData(self):
                return self.cd

        class vtkXMLUnstructuredGridWriter:
            def __init__(self):
                self.grid, self.fn, self.mode = None, None, None

            def SetInputData(self, g):
                self.grid = g

            def SetFileName(self, fn):
                self.fn = str(fn)

            def SetDataModeToAscii(self):
                self.mode = "ascii"

            def SetDataModeToBinary(self):
                self.mode = "binary"

            def Write(self):
                outer.files.setdefault(self.fn, []).append((self.grid, self.mode))
                outer.order.append(self.fn)
                Path(self.fn).write_text("written")  # the file exists afterwards
                return 1

        self.vtkPoints, self.vtkDoubleArray, self.vtkIntArray, self.vtkBitArray = vtkPoints, vtkDoubleArray, vtkIntArray, vtkBitArray
        self.vtkUnstructuredGrid, self.vtkXMLUnstructuredGridWriter = vtkUnstructuredGrid, vtkXMLUnstructuredGridWriter


class _NP:
    """numpy as vtk_export sees it in symbolic mode: object arrays of reals are floating"""

    def __init__(self, real):
        self._real = real

    def issubdtype(self, a, b):
        if a == object:
            return b is np.floating
        return np.issubdtype(a, b)

    def __getattr__(self, name):
        return getattr(self._real, name)


@contextlib.contextmanager
def _env(fake):
    with patched(ve, vtk=fake, np=_NP(ve.np)), npshim.active(True):
        yield


def _solution(k, n, T, widths=dict(q=3, u=2), extra=()):
    """n frames on [0, T]; every entry of every field a distinct atom"""

    class Sys:
        pass

    t = np.linspace(0.0, T, n)
    fields = {nm: S.symarray(f"{nm}_", (n, w)) for nm, w in widths.items()}
    for nm in extra:
        fields[nm] = S.symarray(f"{nm}_", (n, 1))
    return Solution(Sys(), t, **fields), fields


def _grid_eq(k, tag, grid, pts, cells, pdata, cdata):
    got = grid.points.pts
    k.prove(f"{tag}: number of points", len(got) == len(pts))
    if len(got) == len(pts) and len(pts):
        k.prove_eq(f"{tag}: point coordinates", np.array(got, dtype=object), np.array([np.asarray(p, dtype=object) for p in pts], dtype=object))
    k.prove(f"{tag}: cells (type, connectivity)", [(t, c) for t, _, c in grid.cells] == [(t, list(c)) for t, c in cells] and all(n == len(c) for _, n, c in grid.cells))
    for what, data, rec in (("point data", pdata, grid.pd), ("cell data", cdata, grid.cd)):
        data = data or {}
        names = [a.name for a in rec.arrays] + list(rec.special)
        k.prove(f"{tag}: {what} arrays by name", sorted(names) == sorted(data))
        for a in rec.arrays + list(rec.special.values()):
            if a.name not in data:
                continue
            want = np.array(data[a.name], dtype=object)
            k.prove(f"{tag}: {what} '{a.name}' has one tuple per row", sorted(a.tuples) == list(range(len(want))) and a.ntup == len(want) and a.ncomp == want.shape[1])
            if sorted(a.tuples) == list(range(len(want))) and len(want):
                k.prove_eq(f"{tag}: {what} '{a.name}' values", np.array([a.tuples[i] for i in range(len(want))], dtype=object), want)


class _Contr:
    """a contribution whose export returns data made of the frame's own solution entries (stub of the geometry side)"""

    def __init__(self, name, npts=2, off=0):
        self.name, self.npts, self.off = name, npts, off
        self.calls = []
        # data that do not depend on the frame are kept on the contribution and handed out as the SAME list object on
        # every call (the rods do this with their HigherOrderDegrees): the exporter must not grow it
        self._per_cell_constant = [np.array([2 + j, 1], dtype=object) for j in range(npts)]

    def export(self, sol_i, **kwargs):
        self.calls.append((sol_i.t, dict(kwargs)))
        q, u = sol_i.q, sol_i.u
        pts = [np.array([q[(j + self.off) % 3], q[(j + 1 + self.off) % 3], u[j % 2]], dtype=object) for j in range(self.npts)]
        cells = [(3, [j, (j + 1) % self.npts]) for j in range(self.npts)]
        # data come as lists of rows (RigidBody, PointMass, ...) and as 2-D arrays (rods' directors, Sphere2Plane's P_F): both kinds
        pdata = {"v": [np.array([u[0], u[1], q[j % 3]], dtype=object) for j in range(self.npts)],
                 "d": np.array([[q[(j + self.off) % 3], u[(j + 1) % 2]] for j in range(self.npts)], dtype=object)}
        cdata = {"w": [np.array([q[0] * 1, u[1] * 1], dtype=object) for _ in cells],
                 "e": np.array([[u[0] * 1, q[(j + self.off) % 3]] for j in range(len(cells))], dtype=object),
                 "k": self._per_cell_constant}
        return pts, cells, pdata, cdata


CASES = ((11, 1.0, 5), (11, 1.0, 50), (7, 0.5, 3), (2, 0.1, 100), (40, 2.0, 7))  # (frames, horizon, fps)


@contract("C29", "frame-selection", samples=0, replayable=False, timeout=30)
def c_frames(k):
    if not k.sym:
        raise K.Reject("symbolic only")
    k.covers(ve.Export.__init__)
    for n, T, fps in CASES:
        sol, fields = _solution(k, n, T, extra=("P_N",))
        sol.la_g = None
        fake = _FakeVTK()
        with tempfile.TemporaryDirectory() as tmp, _env(fake):
            e = ve.Export(Path(tmp), "out", True, fps, sol)
        kept = e.solution
        s = max(1, int(n / max(1, int(T * fps))))
        tag = f"[{n} frames, T={T}, fps={fps}]"
        idx = list(range(0, n, s))
        k.prove(f"kept times are the original times 0, s, 2s, ... with s = {s} {tag}", len(kept.t) == len(idx) and all(float(a) == float(sol.t[i]) for a, i in zip(kept.t, idx)))
        k.prove(f"kept times are strictly increasing {tag}", all(kept.t[i] < kept.t[i + 1] for i in range(len(kept.t) - 1)))
        for nm, arr in fields.items():
            k.prove_eq(f"field {nm}: row i belongs to the kept time i {tag}", getattr(kept, nm), arr[idx])
        k.prove(f"fields that are None stay None {tag}", kept.la_g is None)
        k.prove(f"system and solver summary are passed on {tag}", kept.system is sol.system)


def _read_pvd(path):
    doc = minidom.parse(str(path))
    return [(d.getAttribute("timestep"), d.getAttribute("file")) for d in doc.getElementsByTagName("DataSet")]


NAMES = [("body", "other", "other2"), ("pm_0.5", "table_rev.2", "v1.2.3"), ("left wheel", "a.b", "a.c")]


@contract("C29", "export_contr/dataflow", samples=0, replayable=False, timeout=60)
def c_dataflow(k):
    if not k.sym:
        raise K.Reject("symbolic only")
    k.covers(ve.Export.export_contr, ve.make_ugrid, ve.dtype_map)
    # contribution names are arbitrary strings: plain ones, and ones that contain dots (names built from floats or
    # version tags: "pm_0.5", "v1.2.3") or blanks - the frame index and the extension are appended, nothing is replaced
    for (nA, nB, nC), (n, T, fps), ascii_ in [(NAMES[0], c_, a_) for c_ in CASES[:3] for a_ in (False, True)] + [(nm, CASES[1], False) for nm in NAMES[1:]]:
        if True:
            sol, fields = _solution(k, n, T)
            fake = _FakeVTK()
            tag = f"[{n} frames, fps={fps}, {'ascii' if ascii_ else 'binary'}{'' if nA == 'body' else ', names ' + repr((nA, nB, nC))}]"
            with tempfile.TemporaryDirectory() as tmp, _env(fake):
                e = ve.Export(Path(tmp), "out", True, fps, sol, write_ascii=ascii_)
                a, b, c2 = _Contr(nA), _Contr(nA), _Contr(nB, npts=3, off=1)
                e.export_contr(a)
                first = dict(fake.files)
                e.export_contr(b, file_name=nA)  # same resolved name: must not touch the first export's files
                e.export_contr([c2, _Contr(nC, npts=2)], some_option=1)
                frames = list(e.solution)
                pvds = sorted(p.name for p in Path(e.path).glob("*.pvd"))
                k.prove(f"one collection per export, names made unique {tag}", pvds == sorted([f"{nA}.pvd", f"{nA}1.pvd", f"{nB}.pvd"]))
                for pvd, contrs in ((f"{nA}.pvd", [a]), (f"{nA}1.pvd", [b]), (f"{nB}.pvd", None)):
                    entries = _read_pvd(Path(e.path) / pvd)
                    k.prove(f"{pvd}: one DataSet per kept frame {tag}", len(entries) == len(frames))
                    k.prove(f"{pvd}: timesteps are the kept times in order {tag}", [ts for ts, _ in entries] == [f"{f.t:0.6f}" for f in frames])
                    names = [fn for _, fn in entries]
                    k.prove(f"{pvd}: every listed file exists, is listed once and was written exactly once {tag}", len(set(names)) == len(names) and all((Path(e.path) / fn).exists() and len(fake.files.get(str(Path(e.path) / fn), [])) == 1 for fn in names))
                    for i, (fn, fr) in enumerate(zip(names, frames)):
                        if str(Path(e.path) / fn) not in fake.files:
                            continue
                        grid, mode = fake.files[str(Path(e.path) / fn)][0]
                        if contrs is not None:
                            pts, cells, pd, cd = _Contr("x").export(fr)
                        else:
                            p1, c1, pd1, cd1 = _Contr("x", npts=3, off=1).export(fr)
                            p2, c2_, pd2, cd2 = _Contr("x", npts=2).export(fr)
                            pts = p1 + p2
                            cells = c1 + [(t, [j + len(p1) for j in conn]) for t, conn in c2_]
                            pd = {"v": pd1["v"] + pd2["v"], "d": list(pd1["d"]) + list(pd2["d"])}
                            cd = {"w": cd1["w"] + cd2["w"], "e": list(cd1["e"]) + list(cd2["e"]), "k": list(cd1["k"]) + list(cd2["k"])}
                        _grid_eq(k, f"{pvd} frame {i} {tag}", grid, pts, cells, pd, cd)
                for fn, recs in first.items():
                    k.prove(f"a later export under the same name does not rewrite {Path(fn).name} {tag}", len(fake.files[fn]) == 1 and fake.files[fn][0] is recs[0])
                k.prove(f"export kwargs reach the contribution, file_name too {tag}", all(kw == {} for _, kw in a.calls) and all(kw == {"file_name": nA} for _, kw in b.calls) and all(kw == {"some_option": 1} for _, kw in c2.calls))
                k.prove(f"each contribution is asked once per kept frame, in time order {tag}", [float(t) for t, _ in a.calls] == [float(f.t) for f in frames])


# --------------------------------------------------------------------------- geometry handed to the exporter
def _sol_i(k, nq, nu, t=None, **extra):
    from collections import namedtuple

    t = S.var("t_i") if t is None else t
    q, u = S.symarray("qi", nq), S.symarray("ui", nu)
    R = namedtuple("Result", ["t", "q", "u"] + list(extra))
    return R(t, q, u, *extra.values())


@contract("C29", "geometry/RigidBody-PointMass-Frame", samples=0, replayable=False, timeout=120)
def c_geometry(k):
    if not k.sym:
        raise K.Reject("symbolic only")
    k.covers(RigidBody.export, PointMass.export, Frame.export)
    # the contribution's DOFs are NOT the leading ones: a slip in the slicing shows
    rb = RigidBody(2.0, np.diag([1.0, 2.0, 3.0]))
    rb.qDOF, rb.uDOF = np.arange(4, 11), np.arange(3, 9)
    sol = _sol_i(k, 13, 11)
    k.assume(sol.q[7:11] @ sol.q[7:11] > 0)
    with k.spec():
        pts, cells, pd, cd = rb.export(sol)
        q, u = sol.q[rb.qDOF], sol.u[rb.uDOF]
        A = rb.A_IB(sol.t, q)
        k.prove("RigidBody: one vertex cell on one point, no point data", len(pts) == 1 and [(t, list(c)) for t, c in cells] == [(1, [0])] and pd is None)
        k.prove_eq("RigidBody: point = r_OP(t_i, q_i[qDOF])", pts[0], rb.r_OP(sol.t, q))
        k.prove_eq("RigidBody: v = v_P(t_i, q_i[qDOF], u_i[uDOF])", cd["v"][0], rb.v_P(sol.t, q, u))
        k.prove_eq("RigidBody: Omega = A_IB B_Omega", cd["Omega"][0], A @ rb.B_Omega(sol.t, q, u))
        for j, nm in enumerate(("ex", "ey", "ez")):
            k.prove_eq(f"RigidBody: {nm} = column {j} of A_IB", cd[nm][0], A[:, j])
        k.prove("RigidBody: exactly these cell data", sorted(cd) == ["Omega", "ex", "ey", "ez", "v"])
    pm = PointMass(1.5)
    pm.qDOF, pm.uDOF = np.arange(5, 8), np.arange(2, 5)
    with k.spec():
        pts, cells, pd, cd = pm.export(sol)
        k.prove("PointMass: one vertex cell on one point", len(pts) == 1 and [(t, list(c)) for t, c in cells] == [(1, [0])] and pd is None and sorted(cd) == ["v"])
        k.prove_eq("PointMass: point = its slice of q_i", pts[0], sol.q[5:8])
        k.prove_eq("PointMass: v = its slice of u_i", cd["v"][0], sol.u[2:5])
    # a frame with prescribed motion: the exported values are the prescribed functions at the frame's time
    r, r_t, _ = k.timefun("r_fr", 3, sol.t)
    tick = [0]

    def A_fun(t_):
        tick[0] += 1
        return S.symarray("A_fr", (3, 3))

    fr = Frame(r_OP=r, r_OP_t=r_t, A_IB=np.eye(3))
    with k.spec():
        pts, cells, pd, cd = fr.export(sol)
        k.prove("Frame: one vertex cell on one point", len(pts) == 1 and [(t, list(c)) for t, c in cells] == [(1, [0])] and pd is None)
        k.prove_eq("Frame: point = r_OP(t_i)", pts[0], r(sol.t))
        k.prove_eq("Frame: v = r_OP_t(t_i)", cd["v"][0], r_t(sol.t))
        k.prove_eq("Frame: axes = columns of A_IB(t_i)", np.array([cd["ex"][0], cd["ey"][0], cd["ez"][0]], dtype=object).T, np.eye(3))


@contract("C29", "geometry/Sphere2Plane-Force", samples=0, replayable=False, timeout=120)
def c_geometry2(k):
    if not k.sym:
        raise K.Reject("symbolic only")
    k.covers(Sphere2Plane.export, Force.export)
    pm = PointMass(1.0, q0=np.array([0.0, 0.0, 1.0]))
    plane = Frame()
    con = Sphere2Plane(plane, pm, mu=0.0, r=0.25, e_N=0.0)
    pm.qDOF, pm.uDOF = np.arange(2, 5), np.arange(1, 4)
    pm.t0 = plane.t0 = 0.0
    con.assembler_callback()
    con.la_NDOF = np.array([1])
    PN = S.symarray("PNi", 3)
    sol = _sol_i(k, 6, 5, t=0.5, P_N=PN)
    with k.spec():
        pts, cells, pd, cd = con.export(sol)
        q, u = sol.q[con.qDOF], sol.u[con.uDOF]
        n = con.n(sol.t)
        c = q[:3]
        gN = con.g_N(sol.t, q)
        k.prove("Sphere2Plane: one line cell on two points", len(pts) == 2 and [(t, list(cc)) for t, cc in cells] == [(3, [0, 1])])
        k.prove_eq("Sphere2Plane: first point = contact point on the sphere (centre - r n)", pts[0], c - 0.25 * n)
        k.prove_eq("Sphere2Plane: second point = its projection onto the plane", pts[1], c - (gN + 0.25) * n)
        k.prove_eq("Sphere2Plane: P_N = the contact's own entry of the stored percussions", np.array(pd["P_N"], dtype=object), np.array([PN[1:2], PN[1:2]], dtype=object))
        k.prove_eq("Sphere2Plane: g_N at (t_i, q_i[qDOF])", cd["g_N"][0], gN)
        k.prove_eq("Sphere2Plane: g_N_dot at (t_i, q_i[qDOF], u_i[uDOF])", cd["g_N_dot"][0], con.g_N_dot(sol.t, q, u))
        k.prove_eq("Sphere2Plane: velocity of the sphere's contact point", pd["v_Ci"][0], u[:3])
    F = S.symarray("Fvec", 3)
    f = Force(lambda t: F * t, pm)
    f.assembler_callback()
    with k.spec():
        pts, cells, pd, cd = f.export(sol)
        k.prove_eq("Force: applied at r_OP(t_i, q_i[qDOF]) of its body", pts[0], sol.q[2:5])
        k.prove_eq("Force: exported vector = force(t_i)", cd["F"][0], F * 0.5)


# --------------------------------------------------------------------------- bounded: real files, read back
def _read_vtu(path):
    import vtk
    from vtk.util.numpy_support import vtk_to_numpy

    rd = vtk.vtkXMLUnstructuredGridReader()
    rd.SetFileName(str(path))
    rd.Update()
    g = rd.GetOutput()
    pts = vtk_to_numpy(g.GetPoints().GetData()) if g.GetNumberOfPoints() else np.zeros((0, 3))
    out = {"points": np.array(pts, dtype=float), "ncells": g.GetNumberOfCells(), "pd": {}, "cd": {}}
    for key, data in (("pd", g.GetPointData()), ("cd", g.GetCellData())):
        for i in range(data.GetNumberOfArrays()):
            out[key][data.GetArrayName(i)] = np.array(vtk_to_numpy(data.GetArray(i)), dtype=float)
    return out


@bounded("C29", "native/write-and-read-back")
def b_readback(tier, seed):
    from cardillo import System
    from cardillo.contacts import Sphere2Plane
    from cardillo.discrete import Box, Frame, PointMass, RigidBody
    from cardillo.forces import Force
    from cardillo.solver import Moreau

    rng = np.random.default_rng(seed + 290)
    cases, failures = 0, []

    def scene():
        s = System()
        rb = Box(RigidBody)(dimensions=np.array([0.3, 0.2, 0.1]), mass=1.0, B_Theta_C=np.diag([0.01, 0.02, 0.03]), q0=np.concatenate([rng.uniform(-1, 1, 3), [1, 0, 0, 0]]), u0=rng.uniform(-1, 1, 6), name="box")
        pm = PointMass(1.0, q0=np.array([0.0, 0.0, 0.3]), u0=np.array([rng.uniform(0.5, 1), 0.0, 0.0]), name="ball")
        fr = Frame(r_OP=lambda t: np.array([0.0, t, 0.0]), r_OP_t=lambda t: np.array([0.0, 1.0, 0.0]), name="mover")
        con = Sphere2Plane(s.origin, pm, mu=0.3, r=0.1, e_N=0.2, name="contact")
        parts = [rb, pm, fr, con, Force(np.array([0, 0, -9.81]), pm, name="weight"), Force(np.array([0, 0, -9.81]), rb, name="weight_box")]
        s.add(*parts)
        s.assemble()
        return s, [c for c in parts if hasattr(c, "export")]

    configs = [(False, 30.0, 0.2, 1e-2), (True, 7.0, 0.3, 1e-2)]
    if tier != "quick":
        configs += [(False, 200.0, 0.1, 5e-3), (True, 50.0, 0.25, 2.5e-2)]
    for ascii_, fps, t1, dt in configs:
        with warnings.catch_warnings(), contextlib.redirect_stdout(io.StringIO()), contextlib.redirect_stderr(io.StringIO()):
            warnings.simplefilter("ignore")
            s, contrs = scene()
            sol = Moreau(s, t1, dt).solve()
        with tempfile.TemporaryDirectory() as tmp:
            with warnings.catch_warnings(), contextlib.redirect_stdout(io.StringIO()):
                warnings.simplefilter("ignore")
                e = ve.Export(Path(tmp), "vtk", True, fps, sol, write_ascii=ascii_)
                for c in contrs:
                    e.export_contr(c, file_name=c.name)
                e.export_contr(contrs[0], file_name=contrs[0].name, base_export=True)  # same name again, other representation
            frames = list(e.solution)
            listing = [(c, c.name, {}) for c in contrs] + [(contrs[0], contrs[0].name + "1", {"base_export": True})]
            for c, stem, kw in listing:
                what = f"{'ascii' if ascii_ else 'binary'}, fps={fps}, {stem}"
                pvd = Path(e.path) / f"{stem}.pvd"
                cases += 1
                if not pvd.exists():
                    failures.append({"what": f"{what}: collection file missing", "input": {"seed": seed}, "detail": ""})
                    continue
                entries = _read_pvd(pvd)
                ok = len(entries) == len(frames) and all(abs(float(ts) - float(f.t)) <= 5e-7 for (ts, _), f in zip(entries, frames)) and len({fn for _, fn in entries}) == len(entries)
                if not ok:
                    failures.append({"what": f"{what}: collection does not list one file per kept frame in time order", "input": {"seed": seed}, "detail": f"{len(entries)} entries, {len(frames)} frames"})
                    continue
                for (ts, fn), f in zip(entries, frames):
                    cases += 1
                    if not (Path(e.path) / fn).exists():
                        failures.append({"what": f"{what}: listed file {fn} does not exist", "input": {"seed": seed}, "detail": ""})
                        continue
                    got = _read_vtu(Path(e.path) / fn)
                    pts, cells, pd, cd = c.export(f, **kw)
                    pts = np.array(pts, dtype=float).reshape(-1, 3)
                    bad = got["points"].shape != pts.shape or np.max(np.abs(got["points"] - pts), initial=0.0) > 1e-5 or got["ncells"] != len(cells)
                    for key, data in (("pd", pd), ("cd", cd)):
                        for nm, val in (data or {}).items():
                            val = np.array(val, dtype=float)
                            g = got[key].get(nm)
                            if g is None or np.size(g) != np.size(val) or np.max(np.abs(np.reshape(g, val.shape) - val), initial=0.0) > 1e-5 * (1 + np.max(np.abs(val), initial=0.0)):
                                bad = True
                    if bad:
                        failures.append({"what": f"{what}: file {fn} (t={float(f.t):.4f}) does not hold the geometry evaluated from the solution at that time", "input": {"seed": seed}, "detail": f"{got['points'].shape} points read, {pts.shape} expected"})
    # --- rods: the export only needs (t, q); the frames are a straight rod bent a little more in every frame
    from cardillo.rods import CircularCrossSection, RectangularCrossSection, Simo1986
    from cardillo.rods.cosseratRod import make_CosseratRod

    levels = ["centerline + directors", "NodalVolume"] + (["volume"] if tier != "quick" else [])
    for level in levels:
        with warnings.catch_warnings(), contextlib.redirect_stdout(io.StringIO()), contextlib.redirect_stderr(io.StringIO()):
            warnings.simplefilter("ignore")
            Rod = make_CosseratRod(interpolation="Quaternion", mixed=True, polynomial_degree=2)
            q0 = Rod.straight_configuration(3, 1.0, r_OP0=np.array([0.0, 0.0, 2.0]))
            rod = Rod(RectangularCrossSection(0.1, 0.05) if level != "NodalVolume" else CircularCrossSection(0.05), Simo1986(np.array([5, 1, 1.0]), np.array([0.5, 2, 2.0])), 3, Q=q0, q0=q0, name="rod")
            pm0 = PointMass(1.0, q0=np.zeros(3), name="first")  # so that the rod's DOFs are not the leading ones
            s = System()
            s.add(pm0, rod)
            s.assemble(options=__import__("cardillo.solver", fromlist=["SolverOptions"]).SolverOptions(compute_consistent_initial_conditions=False))
            rod._export_dict["level"] = level
            nfr = 5
            Q = np.tile(s.q0, (nfr, 1))
            for i in range(nfr):
                Q[i, rod.qDOF] += 0.02 * (i + 1) * rng.normal(size=len(rod.qDOF))
            sol = Solution(s, np.linspace(0, 0.4, nfr), Q, u=np.zeros((nfr, s.nu)))
            with tempfile.TemporaryDirectory() as tmp:
                e = ve.Export(Path(tmp), "vtk", True, 100.0, sol)
                e.export_contr(rod, file_name="rod")
                frames = list(e.solution)
                entries = _read_pvd(Path(e.path) / "rod.pvd")
                cases += 1
                if len(entries) != len(frames):
                    failures.append({"what": f"rod [{level}]: collection lists {len(entries)} files for {len(frames)} frames", "input": {"seed": seed}, "detail": ""})
                    continue
                for (ts, fn), f in zip(entries, frames):
                    cases += 1
                    got = _read_vtu(Path(e.path) / fn)
                    pts, cells, pd, cd = rod.export(f)
                    pts = np.array(pts, dtype=float).reshape(-1, 3)
                    bad = got["points"].shape != pts.shape or np.max(np.abs(got["points"] - pts), initial=0.0) > 1e-5 or got["ncells"] != len(cells)
                    # independent anchor: the exported centerline / volume passes through the rod's own r_OP at both ends
                    ends = [rod.r_OP(f.t, f.q[rod.qDOF][rod.local_qDOF_P((xi,))], (xi,)) for xi in (0.0, 1.0)]
                    if level == "centerline + directors" and not bad:
                        bad = np.max(np.abs(got["points"][0] - ends[0])) > 1e-5 or np.max(np.abs(got["points"][-1] - ends[1])) > 1e-5
                    for nm, val in (pd or {}).items():
                        val = np.array(val, dtype=float)
                        g = got["pd"].get(nm)
                        if nm in ("RationalWeights",):
                            continue
                        if g is None or np.size(g) != np.size(val) or np.max(np.abs(np.reshape(g, val.shape) - val), initial=0.0) > 1e-5 * (1 + np.max(np.abs(val), initial=0.0)):
                            bad = True
                    if bad:
                        failures.append({"what": f"rod [{level}]: file {fn} (t={float(f.t):.3f}) does not hold the rod geometry evaluated from the solution at that time", "input": {"seed": seed}, "detail": f"{got['points'].shape} points read, {pts.shape} expected"})
    return {"cases": cases, "distinct": cases, "failures": failures[:12], "bound": f"rod export levels {levels} on a crafted 5-frame solution; {len(configs)} simulated scenes (meshed rigid body, point mass with contact, moving frame, forces) x {'ascii/binary'} x frame rates, every exported frame read back with vtkXMLUnstructuredGridReader (tolerance 1e-5)"}


@contract("C29", "geometry/rod centerline + directors", samples=0, replayable=False, timeout=60)
def c_rod_centerline(k):
    """RodExportBase.export at level "centerline + directors" (executed natively on real rods whose DOFs are not the leading
    ones): point j is the centerline point r_OP at xi_j = j / (num - 1) evaluated from the frame's q, the directors are the
    columns of A_IB there, the cells are Lagrange curves over consecutive groups of p + 1 points"""
    if not k.sym:
        raise K.Reject("decided by native execution")
    from collections import namedtuple

    from cardillo.rods import CircularCrossSection, Simo1986
    from cardillo.rods._base_export import RodExportBase
    from cardillo.rods.cosseratRod import make_CosseratRod

    k.covers(RodExportBase.export, RodExportBase.frames, RodExportBase.preprocess_export)
    rng = np.random.default_rng(29)
    R = namedtuple("Result", ["t", "q", "u"])
    with npshim.active(False), warnings.catch_warnings():
        warnings.simplefilter("ignore")
        for interp, deg, nel in (("Quaternion", 2, 3), ("R12", 1, 2), ("SE3", 1, 2)):
            Rod = make_CosseratRod(interpolation=interp, mixed=True, polynomial_degree=deg)
            q0 = Rod.straight_configuration(nel, 1.3, r_OP0=np.array([0.2, -0.1, 0.4]))
            rod = Rod(CircularCrossSection(0.05), Simo1986(np.array([5, 1, 1.0]), np.array([0.5, 2, 2.0])), nel, Q=q0, q0=q0)
            off = 5
            rod.qDOF = np.arange(len(q0)) + off
            rod._export_dict["level"] = "centerline + directors"
            q = np.concatenate([rng.normal(size=off), q0 + 0.05 * rng.normal(size=len(q0)), rng.normal(size=3)])
            pts, cells, pd, cd = rod.export(R(0.7, q, None))
            pts = np.asarray(pts, dtype=float)
            p = rod.polynomial_degree_r
            num = p * nel + 1
            tag = f"[{interp}, degree {deg}, {nel} elements]"
            k.prove(f"{p * nel + 1} points, {nel} Lagrange-curve cells over consecutive groups of p + 1 points {tag}", pts.shape == (num, 3) and len(cells) == nel and all(list(c[1]) == [i * p, i * p + p] + [i * p + j for j in range(1, p)] for i, c in enumerate(cells)))
            qb = q[rod.qDOF]
            ok_r, ok_d = True, True
            for j, xi in enumerate(np.linspace(0, 1, num)):
                qp = qb[rod.local_qDOF_P(xi)]
                ok_r &= bool(np.allclose(pts[j], rod.r_OP(0.7, qp, xi), atol=1e-12))
                A = rod.A_IB(0.7, qp, xi)
                ok_d &= all(np.allclose(np.asarray(pd[nm])[j], A[:, i], atol=1e-12) for i, nm in enumerate(("d1", "d2", "d3")))
            k.prove(f"point j = r_OP at xi = j / (num - 1), from the rod's own slice of the frame's q {tag}", ok_r)
            k.prove(f"directors = columns of A_IB at the same points {tag}", ok_d and sorted(pd) == ["d1", "d2", "d3"])
