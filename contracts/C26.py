"""C26 - Memoised kinematic evaluations are transparent.

Frame obligations on the REAL source of every @cachedmethod (extracted by AST on every run):

  key        every parameter the body reads is part of the cache key, or is declared (below) to be a
             function of key parameters and every call site establishes that dependency
             (rod _eval/_deval: N, N_xi are the basis functions at xi)
  attributes every `self.<attr>` the body reads (transitively through self-calls inside the class and
             its bases) is written only by construction-time methods, or every other writer clears the
             caches that depend on it
  aliasing   no caller mutates a cached result in place (subscript/augmented assignment on a name bound
             to the result of a cached call)

These are discharged syntactically (back end 'ast-frame-analysis', level 'other'); a bounded
differential run (cached vs cache-cleared evaluation under random operation sequences) stands next to it.
"""

import ast
import inspect
import sys
import textwrap

import numpy as np

from vk.registry import bounded, static

LEVEL = "other"
TRUSTED = [
    "the frame analysis is syntactic: attribute writes through aliases (other objects holding a reference), setattr() and writes from outside the class files listed here are not seen",
    "construction-time writers: __init__, assembler_callback, set_reference_strains (rods: called from __init__), and module-level factory code",
    "declared dependencies: rod _eval/_deval parameters N, N_xi must be the basis functions evaluated at the key parameter xi (call sites are checked against the accepted argument patterns)",
]
EXPLANATION = "frame conditions of the memoised methods decided by an AST analysis of the current source; bounded differential run as a cross-check"

CONSTRUCTION = {"__init__", "assembler_callback", "set_reference_strains"}
DECLARED_DEPENDENT = {"_eval": {"N", "N_xi"}, "_deval": {"N", "N_xi"}}
# accepted (xi, N, N_xi) argument patterns at _eval/_deval call sites: table lookups at quadrature points or
# locals assigned from a basis-function evaluation at the same xi in the same function
ACCEPTED_TABLES = {("qpi", "self.N_r[el, i]", "self.N_r_xi[el, i]"), ("qp", "self.N_r[el, i]", "self.N_r_xi[el, i]")}

FILES = {
    "cardillo.discrete.rigid_body": ["RigidBody"],
    "cardillo.contacts.sphere2sphere": ["Sphere2Sphere"],
    "cardillo.rods.discretization.mesh1D": ["Mesh1D"],
    "cardillo.rods.cosseratRod": ["CosseratRod_Quat", "CosseratRod_SE3", "CosseratRod_R12"],
}
BASE_FILES = ["cardillo.rods._base"]


def _module_tree(modname):
    import importlib

    m = importlib.import_module(modname)
    return ast.parse(inspect.getsource(m)), m


def _classes(tree):
    return {n.name: n for n in ast.walk(tree) if isinstance(n, ast.ClassDef)}


def _methods(cls):
    return {n.name: n for n in cls.body if isinstance(n, ast.FunctionDef)}


def _cached_info(fn):
    for d in fn.decorator_list:
        if isinstance(d, ast.Call) and ast.unparse(d.func).endswith("cachedmethod"):
            cache_attr = None
            if d.args and isinstance(d.args[0], ast.Lambda):
                cache_attr = ast.unparse(d.args[0].body).replace("self.", "")
            key_params = set()
            for kw in d.keywords:
                if kw.arg == "key" and isinstance(kw.value, ast.Lambda):
                    for n in ast.walk(kw.value.body):
                        if isinstance(n, ast.Name):
                            key_params.add(n.id)
            return cache_attr, key_params
    return None


def _reads(fn):
    params = [a.arg for a in fn.args.args if a.arg != "self"]
    pread, attrs, selfcalls = set(), set(), set()
    for n in ast.walk(fn):
        if isinstance(n, ast.Name) and isinstance(n.ctx, ast.Load) and n.id in params:
            pread.add(n.id)
        if isinstance(n, ast.Attribute) and isinstance(n.value, ast.Name) and n.value.id == "self":
            attrs.add(n.attr)
        if isinstance(n, ast.Call) and isinstance(n.func, ast.Attribute) and isinstance(n.func.value, ast.Name) and n.func.value.id == "self":
            selfcalls.add(n.func.attr)
    return pread, attrs, selfcalls


def _writers(all_methods):
    """attr -> set of method names that assign self.attr (plain, subscript or augmented)"""
    w = {}
    clears = {}
    for mname, fn in all_methods:
        for n in ast.walk(fn):
            targets = []
            if isinstance(n, ast.Assign):
                targets = n.targets
            elif isinstance(n, (ast.AugAssign, ast.AnnAssign)):
                targets = [n.target]
            for t in targets:
                for tt in ast.walk(t):
                    if isinstance(tt, ast.Attribute) and isinstance(tt.value, ast.Name) and tt.value.id == "self" and isinstance(tt.ctx, ast.Store):
                        w.setdefault(tt.attr, set()).add(mname)
                    if isinstance(tt, ast.Subscript):
                        b = tt.value
                        while isinstance(b, ast.Subscript):
                            b = b.value
                        if isinstance(b, ast.Attribute) and isinstance(b.value, ast.Name) and b.value.id == "self":
                            w.setdefault(b.attr, set()).add(mname)
            if isinstance(n, ast.Call) and ast.unparse(n.func).startswith("self.") and ast.unparse(n.func).endswith(".clear"):
                clears.setdefault(mname, set()).add(ast.unparse(n.func)[5:-6])
    return w, clears


def _analyse():
    results = []
    base_methods = []
    for bf in BASE_FILES:
        tree, _ = _module_tree(bf)
        for cname, c in _classes(tree).items():
            for mname, fn in _methods(c).items():
                base_methods.append((mname, fn))
    for modname, clsnames in FILES.items():
        tree, mod = _module_tree(modname)
        classes = _classes(tree)
        for cname in clsnames:
            c = classes[cname]
            own = list(_methods(c).items())
            is_rod = modname.endswith("cosseratRod")
            all_methods = own + (base_methods if is_rod else [])
            mdict = dict(all_methods)
            writers, clears = _writers(all_methods)
            cached = {m: _cached_info(fn) for m, fn in own if _cached_info(fn)}
            for m, (cache_attr, key_params) in cached.items():
                fn = mdict[m]
                pread, attrs, calls = _reads(fn)
                # transitive closure over self-calls
                seen, todo = set(), list(calls)
                while todo:
                    cm = todo.pop()
                    if cm in seen or cm not in mdict:
                        continue
                    seen.add(cm)
                    _, a2, c2 = _reads(mdict[cm])
                    attrs |= a2
                    todo += list(c2)
                dep = DECLARED_DEPENDENT.get(m, set())
                bad_params = sorted(pread - key_params - dep)
                results.append({"name": f"{cname}.{m}: parameters read are in the key (declared dependent: {sorted(dep & pread)})", "ok": not bad_params, "backend": "ast-frame-analysis", "show": f"reads {sorted(pread)}, key {sorted(key_params - {'self', 'hashkey'})}", "detail": f"not keyed: {bad_params}", "replay": {"class": cname, "method": m, "unkeyed_parameters": bad_params}})
                bad_attrs = {}
                for a in sorted(attrs):
                    if a == cache_attr or a in mdict:
                        continue
                    # an attribute that some method other than the construction-time ones writes is STATE: then every writer
                    # that can run after the first evaluation - re-assembly (assembler_callback) included - must drop the cache
                    is_state = any(wm not in CONSTRUCTION for wm in writers.get(a, ()))
                    for wm in writers.get(a, ()):
                        if wm == "__init__" or (wm in CONSTRUCTION and not is_state):
                            continue
                        if cache_attr in clears.get(wm, set()):
                            continue
                        bad_attrs.setdefault(a, []).append(wm)
                results.append({"name": f"{cname}.{m}: attributes read are construction-time constants or their writers clear {cache_attr}", "ok": not bad_attrs, "backend": "ast-frame-analysis", "show": f"{len(attrs)} attributes read (transitively)", "detail": f"written later without clearing the cache: {bad_attrs}", "replay": {"class": cname, "method": m, "stale_attributes": bad_attrs}})
            # aliasing: callers mutating cached results
            muts = []
            for mname, fn in all_methods:
                bound = {}
                for n in ast.walk(fn):
                    if isinstance(n, ast.Assign) and isinstance(n.value, ast.Call) and isinstance(n.value.func, ast.Attribute) and n.value.func.attr in cached and ast.unparse(n.value.func.value) == "self":
                        for t in n.targets:
                            for nm in ast.walk(t):
                                if isinstance(nm, ast.Name):
                                    bound[nm.id] = n.value.func.attr
                for n in ast.walk(fn):
                    tgt = None
                    if isinstance(n, ast.AugAssign):
                        tgt = n.target
                    elif isinstance(n, ast.Assign):
                        for t in n.targets:
                            if isinstance(t, ast.Subscript):
                                tgt = t
                    if tgt is not None:
                        b = tgt
                        while isinstance(b, ast.Subscript):
                            b = b.value
                        if isinstance(b, ast.Name) and b.id in bound and b.id != "_":
                            muts.append(f"{mname}: {ast.unparse(tgt)} (result of {bound[b.id]})")
            results.append({"name": f"{cname}: no caller mutates a cached result in place", "ok": not muts, "backend": "ast-frame-analysis", "show": f"{len(cached)} cached methods", "detail": str(muts[:5]), "replay": {"class": cname, "mutations": muts[:5]}})
    # call-site precondition for the rods: (xi, N, N_xi) consistent
    tree, _ = _module_tree("cardillo.rods._base")
    tree2, _ = _module_tree("cardillo.rods.cosseratRod")
    bad_sites = []
    n_sites = 0
    for tr in (tree, tree2):
        for fn in [n for n in ast.walk(tr) if isinstance(n, ast.FunctionDef)]:
            if any(isinstance(x, (ast.FunctionDef, ast.ClassDef)) and x is not fn for x in ast.walk(fn)):
                continue  # factory functions: their methods are analysed one by one
            basis_locals = {}
            for n in ast.walk(fn):
                if isinstance(n, ast.Assign) and isinstance(n.value, ast.Call) and "basis_functions" in ast.unparse(n.value.func):
                    names = [x.id for t in n.targets for x in ast.walk(t) if isinstance(x, ast.Name)]
                    arg = ast.unparse(n.value.args[0]) if n.value.args else ""
                    for nm in names:
                        basis_locals[nm] = arg
            none_locals = set()
            for n in ast.walk(fn):
                if isinstance(n, ast.Assign) and ast.unparse(n.value).replace(" ", "") in ("None,None", "(None,None)", "None"):
                    none_locals |= {x.id for t in n.targets for x in ast.walk(t) if isinstance(x, ast.Name)}
            params = {a.arg for a in fn.args.args}
            for n in ast.walk(fn):
                if isinstance(n, ast.Call) and isinstance(n.func, ast.Attribute) and n.func.attr in ("_eval", "_deval") and ast.unparse(n.func.value) == "self":
                    n_sites += 1
                    args = [ast.unparse(a) for a in n.args] + [None] * 4
                    kws = {k.arg: ast.unparse(k.value) for k in n.keywords}
                    xi = args[1]
                    N = kws.get("N", args[2])
                    N_xi = kws.get("N_xi", args[3])
                    ok = (xi, N, N_xi) in ACCEPTED_TABLES
                    ok = ok or (N in basis_locals and N_xi in basis_locals and basis_locals[N] == basis_locals[N_xi] and basis_locals[N].split(",")[0] == xi)
                    ok = ok or ({"xi", "N", "N_xi"} <= params and (xi, N, N_xi) == ("xi", "N", "N_xi"))  # forwarded unchanged from the caller's own parameters
                    ok = ok or (N in none_locals and N_xi in none_locals)  # SE(3) interpolation: its _eval/_deval do not read N, N_xi (checked by the key obligation)
                    if not ok:
                        bad_sites.append(f"{fn.name}: _eval/_deval({xi}, {N}, {N_xi})")
    results.append({"name": f"rod _eval/_deval call sites pass basis functions of the keyed xi ({n_sites} sites)", "ok": not bad_sites, "backend": "ast-frame-analysis", "show": "table lookup at the quadrature point, or N, N_xi = self.basis_functions_r(xi) in the same function, or forwarded parameters", "detail": str(bad_sites[:6]), "replay": {"sites": bad_sites[:6]}})
    return results


def COVERS_STATIC():
    """the memoised methods (and the classes' cache-clearing writers) the frame analysis extracts from the current source"""
    import importlib

    out = []
    for modname, clsnames in FILES.items():
        tree, _ = _module_tree(modname)
        mod = importlib.import_module(modname)
        for cname in clsnames:
            cls = getattr(mod, cname, None)
            if cls is None and hasattr(mod, "make_" + cname):  # classes built by a factory function
                cls = getattr(mod, "make_" + cname)()
            if cls is None:
                continue
            for mname, fn in _methods(_classes(tree)[cname]).items():
                if _cached_info(fn) or mname in CONSTRUCTION:
                    f = getattr(cls, mname, None)
                    if f is not None:
                        out.append(getattr(f, "__wrapped__", f))
    return out


@static("C26", "frame-analysis")
def s_frames(tier):
    return _analyse()


@bounded("C26", "differential/cached-vs-cleared")
def b_differential(tier, seed):
    """random interleavings of evaluations and state-changing operations; every memoised evaluation is
    compared with the same evaluation after clearing all caches"""
    import warnings

    from cardillo.contacts.sphere2sphere import Sphere2Sphere
    from cardillo.discrete.rigid_body import RigidBody
    from cardillo.rods.discretization.lagrange import LagrangeKnotVector
    from cardillo.rods.discretization.mesh1D import Mesh1D

    rng = np.random.default_rng(seed + 31)
    cases, failures = 0, []
    # --- RigidBody
    rb = RigidBody(1.0, np.eye(3))
    pool_q = [np.concatenate([rng.normal(size=3), rng.normal(size=4)]) for _ in range(3)]
    pool_u = [rng.normal(size=6) for _ in range(2)]
    pool_B = [np.zeros(3), rng.normal(size=3)]
    caches = [rb.A_IB_cache, rb.A_IB_q_cache, rb.r_OP_cache, rb.v_P_cache, rb.J_P_cache]
    for _ in range(200 if tier == "quick" else 2000):
        q, u, B, t = pool_q[rng.integers(3)], pool_u[rng.integers(2)], pool_B[rng.integers(2)], float(rng.integers(2))
        name = ["A_IB", "A_IB_q", "r_OP", "v_P", "J_P"][rng.integers(5)]
        call = {"A_IB": lambda: rb.A_IB(t, q), "A_IB_q": lambda: rb.A_IB_q(t, q), "r_OP": lambda: rb.r_OP(t, q, B_r_CP=B), "v_P": lambda: rb.v_P(t, q, u, B_r_CP=B), "J_P": lambda: rb.J_P(t, q, B_r_CP=B)}[name]
        a = np.array(call())
        for c in caches:
            c.clear()
        b = np.array(call())
        cases += 1
        if not np.array_equal(a, b):
            failures.append({"what": f"RigidBody.{name}: cached value differs from recomputation", "input": {"q": q.tolist()}})
    # --- Sphere2Sphere with step_callback in between
    b1, b2 = RigidBody(1.0, np.eye(3)), RigidBody(1.0, np.eye(3))
    for i, b_ in enumerate((b1, b2)):
        b_.qDOF = np.arange(7) + 7 * i
        b_.uDOF = np.arange(6) + 6 * i
        b_.q0 = np.array([2.0 * i, 0.3 * i, 0, 1, 0, 0, 0])
        b_.t0 = 0.0
    c = Sphere2Sphere(b1, b2, 0.5, 0.5, 0.3)
    c.t0 = 0.0
    c.assembler_callback()
    pool = [np.concatenate([b1.q0 + 0.1 * rng.normal(size=7), b2.q0 + 0.4 * rng.normal(size=7)]) for _ in range(3)]
    u0 = np.zeros(12)
    for _ in range(100 if tier == "quick" else 1000):
        q = pool[rng.integers(3)]
        op = rng.integers(5)
        if op == 0:
            c.step_callback(0.0, pool[rng.integers(3)], u0)
            continue
        if op == 4:
            c.assembler_callback()  # re-assembly redefines the reference contact basis
            continue
        name = ["n", "t1t2", "t1t2_q1_q2"][op - 1]
        a = [np.array(x) for x in np.atleast_1d(getattr(c, name)(0.0, q))] if name == "n" else [np.array(x) for x in getattr(c, name)(0.0, q)]
        for cc in (c.n_cache, c.n_q1_q2_cache, c.t1t2_cache, c.t1t2_q1_q2_cache):
            cc.clear()
        b = [np.array(x) for x in np.atleast_1d(getattr(c, name)(0.0, q))] if name == "n" else [np.array(x) for x in getattr(c, name)(0.0, q)]
        cases += 1
        if not all(np.array_equal(x, y) for x, y in zip(a, b)):
            failures.append({"what": f"Sphere2Sphere.{name}: cached value is stale after step_callback / re-assembly", "input": {"q": q.tolist()}})
    # --- Mesh1D.eval_basis
    m = Mesh1D(LagrangeKnotVector(2, 3), 3, dim_q=3, derivative_order=1)
    xis = [0.0, 0.2, 1 / 3, 0.5, 1.0]
    for _ in range(100):
        xi = xis[rng.integers(5)]
        el = [None, int(m.knot_vector.element_number(xi)[0])][rng.integers(2)]
        a = np.array(m.eval_basis(xi, el))
        m._eval_basis_cache.clear()
        b = np.array(m.eval_basis(xi, el))
        cases += 1
        if not np.array_equal(a, b):
            failures.append({"what": "Mesh1D.eval_basis: cached value differs", "input": {"xi": xi}})
    # --- rods
    try:
        from cardillo.rods import CircularCrossSection, Simo1986
        from cardillo.rods.cosseratRod import make_CosseratRod

        with warnings.catch_warnings():
            warnings.simplefilter("ignore")
            for interp in ("Quaternion", "SE3", "R12"):
                Rod = make_CosseratRod(interpolation=interp, mixed=False)
                cs_ = CircularCrossSection(0.1)
                mat = Simo1986(np.array([5, 1, 1.0]), np.array([0.5, 0.1, 0.1]))
                q0 = Rod.straight_configuration(2, 1.0)
                rod = Rod(cs_, mat, 2, Q=q0, q0=q0)
                pool = [q0 + 0.05 * rng.normal(size=len(q0)) for _ in range(2)]
                for _ in range(40):
                    q = pool[rng.integers(2)]
                    xi = [0.0, 0.3, 0.5, 1.0][rng.integers(4)]
                    if rng.integers(4) == 0:
                        rod.set_reference_strains(pool[rng.integers(2)])
                        continue
                    qe = q[rod.elDOF_P(xi)] if hasattr(rod, "elDOF_P") else q[rod.local_qDOF_P(xi)]
                    a = np.array(rod.r_OP(0.0, qe, xi))
                    A = np.array(rod.A_IB(0.0, qe, xi))
                    rod._eval_cache.clear()
                    rod._deval_cache.clear()
                    b = np.array(rod.r_OP(0.0, qe, xi))
                    Bm = np.array(rod.A_IB(0.0, qe, xi))
                    cases += 1
                    if not (np.array_equal(a, b) and np.array_equal(A, Bm)):
                        failures.append({"what": f"rod[{interp}] r_OP/A_IB: cached value differs", "input": {"xi": xi}})
    except Exception as e:  # noqa: BLE001
        failures.append({"what": f"rod differential run raised {type(e).__name__}", "input": {}, "detail": str(e)[:200]})
    seen, out = set(), []
    for f in failures:
        if f["what"] not in seen:
            seen.add(f["what"])
            out.append(f)
    return {"cases": cases, "distinct": cases, "failures": out, "bound": "random operation sequences over small argument pools (RigidBody, Sphere2Sphere incl. step_callback, Mesh1D, three rod interpolations incl. set_reference_strains)"}


@static("C26", "no-aliasing")
def s_no_alias(tier):
    """a memoised result must not share memory with an argument of the call: the caller owns its arrays and may update them
    in place later, which would silently rewrite the cached entry while its key still describes the old values
    (executed on real objects; every memoised method, every way of passing the optional offsets)"""
    import warnings

    from cardillo.contacts.sphere2sphere import Sphere2Sphere
    from cardillo.discrete.rigid_body import RigidBody

    rng = np.random.default_rng(7)
    out = []

    def arrays(x):
        if isinstance(x, np.ndarray):
            yield x
        elif isinstance(x, (tuple, list)):
            for e in x:
                yield from arrays(e)

    def same(x, y):
        xs, ys = list(arrays(x)), list(arrays(y))
        return len(xs) == len(ys) and all(p.shape == q_.shape and np.array_equal(p, q_) for p, q_ in zip(xs, ys))

    def check(name, fn, args, mutable=None):
        """fn(*args) evaluates the method; `mutable`: positions of the arguments that are state (overwritten in place below)"""
        res = fn(*args)
        bad = [i for i, a in enumerate(args) if isinstance(a, np.ndarray) and any(np.shares_memory(r, a) for r in arrays(res))]
        # second evaluation (served from the cache) must not alias the arguments of the FIRST call either
        res2 = fn(*args)
        bad += [i for i, a in enumerate(args) if isinstance(a, np.ndarray) and any(np.shares_memory(r, a) for r in arrays(res2))]
        out.append(dict(name=f"{name}: result shares no memory with its arguments", ok=not bad, backend="native-execution (np.shares_memory)", show=f"arguments aliased: {sorted(set(bad))}", detail=f"the memoised result is a view of argument(s) {sorted(set(bad))}", replay={"method": name, "aliased_arguments": sorted(set(bad))} if bad else None))
        # the caller overwrites its arrays IN PLACE and asks again with the very same array objects: the answer is the one for
        # the new values (what the same call returns for copies of them) - a memo keyed on the identity of an argument, or a
        # cached view of it, answers with the old state
        first = [np.array(r, copy=True) for r in arrays(res)]
        for i in range(len(args)) if mutable is None else mutable:
            if isinstance(args[i], np.ndarray) and args[i].size:
                args[i][...] = args[i] * rng.uniform(0.6, 1.5) + 0.2 * rng.normal(size=args[i].shape)
        again = fn(*args)
        fresh = fn(*[a.copy() if isinstance(a, np.ndarray) else a for a in args])
        ok = same(again, fresh)
        out.append(dict(name=f"{name}: asked again with the same array objects overwritten in place, it evaluates the new values", ok=ok, backend="native-execution (second call on overwritten arguments vs copies)", show="equal" if ok else "differs from the evaluation on copies of the new values", detail="the second call returned a result that does not belong to the current contents of its arguments", replay=None if ok else {"method": name, "stale": bool(same(again, first))}))

    rb = RigidBody(1.0, np.diag([1.0, 2.0, 3.0]))
    for tag, B in (("default offset", None), ("zero offset", np.zeros(3)), ("non-zero offset", rng.normal(size=3))):
        q, u = np.concatenate([rng.normal(size=3), rng.normal(size=4)]), rng.normal(size=6)
        kw = {} if B is None else {"B_r_CP": B}
        extra = [] if B is None else [B]
        kwof = (lambda B_: {"B_r_CP": B_[0]} if B_ else {})
        # (a zero offset stays zero: only the state arguments are overwritten for that variant)
        mut = None if tag == "non-zero offset" else ([0], [0, 1])
        check(f"RigidBody.r_OP [{tag}]", lambda q_, *B_: rb.r_OP(0.0, q_, **kwof(B_)), [q] + extra, mutable=mut and mut[0])
        check(f"RigidBody.v_P [{tag}]", lambda q_, u_, *B_: rb.v_P(0.0, q_, u_, **kwof(B_)), [q, u] + extra, mutable=mut and mut[1])
        check(f"RigidBody.J_P [{tag}]", lambda q_, *B_: rb.J_P(0.0, q_, **kwof(B_)), [q] + extra, mutable=mut and mut[0])
    q = np.concatenate([rng.normal(size=3), rng.normal(size=4)])
    check("RigidBody.A_IB", lambda q_: rb.A_IB(0.0, q_), [q])
    check("RigidBody.A_IB_q", lambda q_: rb.A_IB_q(0.0, q_), [q])
    b1, b2 = RigidBody(1.0, np.eye(3)), RigidBody(1.0, np.eye(3))
    for i, b_ in enumerate((b1, b2)):
        b_.qDOF, b_.uDOF = np.arange(7) + 7 * i, np.arange(6) + 6 * i
        b_.q0, b_.t0 = np.array([2.0 * i, 0.3 * i, 0, 1, 0, 0, 0]), 0.0
    c = Sphere2Sphere(b1, b2, 0.5, 0.5, 0.3)
    c.t0 = 0.0
    c.assembler_callback()
    qq = np.concatenate([b1.q0 + 0.1 * rng.normal(size=7), b2.q0 + 0.3 * rng.normal(size=7)])
    for nm in ("n", "n_q1_q2", "t1t2", "t1t2_q1_q2"):
        check(f"Sphere2Sphere.{nm}", lambda q_, nm=nm: getattr(c, nm)(0.0, q_), [qq])
    from cardillo.rods import CircularCrossSection, Simo1986
    from cardillo.rods.cosseratRod import make_CosseratRod

    with warnings.catch_warnings():
        warnings.simplefilter("ignore")
        for interp in ("Quaternion", "SE3", "R12"):
            Rod = make_CosseratRod(interpolation=interp, mixed=False)
            q0 = Rod.straight_configuration(2, 1.3)
            rod = Rod(CircularCrossSection(0.1), Simo1986(np.array([5, 1, 1.0]), np.array([0.5, 0.1, 0.1])), 2, Q=q0, q0=q0)
            for xi in (0.0, 0.4, 1.0):
                qe = (q0 + 0.05 * rng.normal(size=len(q0)))[rod.local_qDOF_P(xi)]
                el = rod.element_number(xi)
                N, N_xi = rod.basis_functions_r(xi, el)
                # (N, N_xi are the basis functions AT xi - a declared dependency of the key - so only qe is overwritten)
                check(f"rod[{interp}]._eval (xi={xi})", lambda qe_, N_, Nx_: rod._eval(qe_, xi, N_, Nx_), [qe, N, N_xi], mutable=[0])
                check(f"rod[{interp}]._deval (xi={xi})", lambda qe_, N_, Nx_: rod._deval(qe_, xi, N_, Nx_), [qe, N, N_xi], mutable=[0])
                for tag, B in (("zero offset", np.zeros(3)), ("non-zero offset", rng.normal(size=3))):
                    check(f"rod[{interp}].r_OP (xi={xi}, {tag})", lambda qe_, B_: rod.r_OP(0.0, qe_, xi, B_), [qe, B], mutable=None if tag == "non-zero offset" else [0])
    return out


@static("C26", "pure-functions")
def s_pure_functions(tier):
    """the module-level mathematics (rotations, algebra, prox) is used as pure functions by every contract: a memo that any
    of them might carry (lru_cache on an array's identity, a module-level 'last argument' shortcut) is a cache in the sense
    of this property.  Every function whose parameters this sweep knows how to generate is called, its array arguments are
    overwritten in place, and it is called again with the same objects: the answer must be the one for copies of the new
    values, and the arguments must not have been modified by the call."""
    import inspect

    import cardillo.math.algebra as alg
    import cardillo.math.prox as prox
    import cardillo.math.rotations as rot

    rng = np.random.default_rng(11)

    def rotm():
        return rot.Exp_SO3(rng.normal(size=3) * 0.8)

    def se3():
        H = np.eye(4)
        H[:3, :3], H[:3, 3] = rotm(), rng.normal(size=3)
        return H

    GEN = {
        "psi": lambda: rng.normal(size=3) * 0.7, "psi_dot": lambda: rng.normal(size=3), "h": lambda: np.concatenate([rng.normal(size=3), rng.normal(size=3) * 0.7]),
        "P": lambda: rng.normal(size=4), "Q": lambda: rng.normal(size=4), "A": rotm, "R": rotm, "A_IB": rotm, "H": se3, "r_OP": lambda: rng.normal(size=3),
        "a": lambda: rng.normal(size=3), "b": lambda: rng.normal(size=3), "J_a": lambda: rng.normal(size=3), "J_b": lambda: rng.normal(size=3), "axis": lambda: rng.normal(size=3),
        "angle": lambda: float(rng.uniform(-2, 2)), "x": lambda: rng.normal(size=3), "y": lambda: rng.normal(size=3),
    }
    SKIP = {"LeviCivita3", "ei", "is_positive_definite", "skew2ax", "atan2", "sign"}  # integer or scalar arguments / arguments with structure (skew2ax is swept separately below)
    out, unknown = [], []

    def same(x, y):
        x, y = np.asarray(x, dtype=float), np.asarray(y, dtype=float)
        return x.shape == y.shape and bool(np.array_equal(x, y, equal_nan=True))

    def _arrs(x):
        if isinstance(x, np.ndarray):
            yield x
        elif isinstance(x, (tuple, list)):
            for e in x:
                yield from _arrs(e)

    def sweep(label, fn, args):
        before = [a.copy() if isinstance(a, np.ndarray) else a for a in args]
        first = fn(*args)
        untouched = all(same(a, b) for a, b in zip(args, before) if isinstance(a, np.ndarray))
        for a in args:
            if isinstance(a, np.ndarray):
                a[...] = GEN_FOR[id(a)]()
        again = fn(*args)
        fresh = fn(*[a.copy() if isinstance(a, np.ndarray) else a for a in args])
        ok = same_all(again, fresh)
        out.append(dict(name=f"{label}: second call with the same array objects overwritten in place evaluates the new values", ok=ok, backend="native-execution (second call on overwritten arguments vs copies)", show="equal" if ok else f"stale: {same_all(again, first)}", detail="the second call does not belong to the current contents of its arguments", replay=None if ok else {"function": label, "stale": bool(same_all(again, first))}))
        out.append(dict(name=f"{label}: the call does not modify its arguments", ok=untouched, backend="native-execution", show=str(untouched), detail="an argument array was written to", replay=None if untouched else {"function": label}))
        # each call hands out arrays of its own: what a caller writes into an earlier result must not reach a later call (a
        # memo that returns its stored arrays - lru_cache around a function that builds arrays - fails here)
        keep = [np.array(r, copy=True) for r in _arrs(fresh)]
        for r in list(_arrs(fresh)) + list(_arrs(again)) + list(_arrs(first)):
            if r.flags.writeable and r.size:
                r[...] = 12345.0
        later = list(_arrs(fn(*[a.copy() if isinstance(a, np.ndarray) else a for a in args])))
        own = len(keep) == len(later) and all(np.array_equal(x, y, equal_nan=True) for x, y in zip(keep, later))
        out.append(dict(name=f"{label}: a result modified by its caller does not change what a later call returns", ok=own, backend="native-execution (earlier results overwritten)", show=str(own), detail="a later call returned what the caller wrote into an earlier result: results are shared with a memo", replay=None if own else {"function": label}))

    def same_all(x, y):
        xs, ys = list(_arrs(x)), list(_arrs(y))
        if not xs and not ys:
            return same(x, y)
        return len(xs) == len(ys) and all(same(p_, q_) for p_, q_ in zip(xs, ys))

    GEN_FOR = {}
    for mod in (rot, alg):
        for name, fn in inspect.getmembers(mod, inspect.isfunction):
            if fn.__module__ != mod.__name__ or name in SKIP:
                continue
            params = [p for p in inspect.signature(fn).parameters.values()]
            req = [p.name for p in params if p.default is inspect.Parameter.empty]
            if not req:
                continue
            if not all(p in GEN for p in req):
                unknown.append(f"{mod.__name__.split('.')[-1]}.{name}({', '.join(req)})")
                continue
            with np.errstate(all="ignore"):
                args = []
                for p in req:
                    a = GEN[p]()
                    if isinstance(a, np.ndarray):
                        GEN_FOR[id(a)] = GEN[p]
                    args.append(a)
                try:
                    sweep(f"{mod.__name__.split('.')[-1]}.{name}", fn, args)
                except Exception as e:  # noqa: BLE001  (a function this sweep cannot call is listed, not failed)
                    unknown.append(f"{mod.__name__.split('.')[-1]}.{name}: {type(e).__name__}")
    from cardillo.rods.discretization.gauss import gauss, lobatto

    for nm, rule in (("gauss", gauss), ("lobatto", lobatto)):
        for npts in (2, 3):
            iv = np.array([0.0, 0.25])
            GEN_FOR[id(iv)] = lambda: np.array([0.25, 0.75])
            sweep(f"discretization.{nm}(n={npts})", lambda iv_, npts=npts, rule=rule: rule(npts, interval=iv_), [iv])
    # the special branches: zero rotation vector / identity (first-order or limit formulas, where returning a module-level
    # constant such as the 3x3 identity itself is tempting) - ownership of the result only
    specials = [("rotations.Exp_SO3(0)", lambda: rot.Exp_SO3(np.zeros(3))), ("rotations.Exp_SE3(0)", lambda: rot.Exp_SE3(np.zeros(6))), ("rotations.T_SO3(0)", lambda: rot.T_SO3(np.zeros(3))),
                ("rotations.T_SO3_inv(0)", lambda: rot.T_SO3_inv(np.zeros(3))), ("rotations.T_SE3(0)", lambda: rot.T_SE3(np.zeros(6))), ("rotations.Log_SO3(identity)", lambda: rot.Log_SO3(np.eye(3))),
                ("rotations.Log_SE3(identity)", lambda: rot.Log_SE3(np.eye(4))), ("rotations.Exp_SO3_quat(identity quaternion)", lambda: rot.Exp_SO3_quat(np.array([1.0, 0, 0, 0]))),
                ("rotations.Exp_SO3_quat(normalize=False)", lambda: rot.Exp_SO3_quat(np.array([1.0, 0, 0, 0]), normalize=False)), ("rotations.SE3inv(identity)", lambda: rot.SE3inv(np.eye(4))),
                ("algebra.ax2skew(0)", lambda: alg.ax2skew(np.zeros(3))), ("algebra.ax2skew_a()", lambda: alg.ax2skew_a()), ("algebra.skew2ax_A()", lambda: alg.skew2ax_A())]
    for label, call in specials:
        try:
            keep = [np.array(r, copy=True) for r in _arrs(call())]
            for r in _arrs(call()):
                if r.flags.writeable and r.size:
                    r[...] = 12345.0
            later = list(_arrs(call()))
            regular = np.asarray(rot.Exp_SO3(np.array([0.3, -0.2, 0.5])))  # a module constant overwritten above shows in every later result
            own = len(keep) == len(later) and all(np.array_equal(x, y, equal_nan=True) for x, y in zip(keep, later)) and bool(np.allclose(regular.T @ regular, np.eye(3), atol=1e-12))
        except Exception as e:  # noqa: BLE001
            own = False
        out.append(dict(name=f"{label}: a result modified by its caller does not change what a later call returns", ok=own, backend="native-execution (earlier results overwritten)", show=str(own), detail="a later call returned what the caller wrote into an earlier result: the function hands out a shared array (module constant or memo)", replay=None if own else {"function": label}))
    A = rng.normal(size=(3, 3))
    Askew = A - A.T
    GEN_FOR[id(Askew)] = lambda: (lambda B: B - B.T)(rng.normal(size=(3, 3)))
    sweep("algebra.skew2ax", alg.skew2ax, [Askew])
    for cname, obj, dim in (("NegativeOrthant", prox.NegativeOrthant(), 3), ("Sphere", prox.Sphere(0.4), 2)):
        x = rng.normal(size=dim)
        GEN_FOR[id(x)] = lambda dim=dim: rng.normal(size=dim)
        if cname == "Sphere":
            try:
                sweep("prox.Sphere.prox", lambda x_, z_: obj.prox(x_, z_), [x, 1.7])
            except Exception as e:  # noqa: BLE001
                unknown.append(f"prox.Sphere.prox: {type(e).__name__}: {e}")
        else:
            sweep("prox.NegativeOrthant.prox", lambda x_: obj.prox(x_), [x])
    out.append(dict(name="vacuity guard: the sweep reaches at least 30 functions", ok=len(out) >= 90, backend="native-execution", show=f"{len(out) // 3} functions swept; not swept: {unknown}"))
    return out


@static("C26", "read-only-results")
def s_read_only(tier):
    """Frame condition on the CLIENTS of the memoised methods, decided dynamically over the whole code base instead of the
    class files the syntactic analysis reads: every array a memoised method stores in its cache is made read-only
    (numpy's writeable flag - the array object handed to the caller IS the cached one), then every System evaluation
    routine is executed, twice and in both orders, on real systems that contain every contribution class.  A client that
    updates such a result in place (`v = body.v_P(...); v -= ...`) stops with numpy's 'assignment destination is
    read-only'; on a correct tree nothing does."""
    import contextlib
    import inspect
    import io
    import traceback
    import warnings

    from cachetools import LRUCache

    from contracts.C14 import _EVAL_ARGS, _EVAL_SKIP, _real_scenes

    class Freezing(LRUCache):
        def __setitem__(self, key, value, **kw):
            for a in _arrays(value):
                a.setflags(write=False)
            super().__setitem__(key, value, **kw)

    def _arrays(x):
        if isinstance(x, np.ndarray):
            yield x
        elif isinstance(x, (tuple, list)):
            for e in x:
                yield from _arrays(e)

    def install(obj, seen, depth=0):
        n = 0
        if id(obj) in seen or depth > 2:
            return 0
        seen.add(id(obj))
        for name, val in list(getattr(obj, "__dict__", {}).items()):
            if type(val) is LRUCache:
                setattr(obj, name, Freezing(maxsize=val.maxsize))
                n += 1
            elif hasattr(val, "__dict__") and type(val).__module__.startswith("cardillo"):
                n += install(val, seen, depth + 1)
        return n

    out = []
    rng = np.random.default_rng(3)
    with warnings.catch_warnings(), contextlib.redirect_stdout(io.StringIO()):
        warnings.simplefilter("ignore")
        for name, build in _real_scenes().items():
            s = build()
            s.assemble()
            seen, ncache = set(), 0
            for c in s.contributions:
                ncache += install(c, seen)
                for sub in ("subsystem", "subsystem1", "subsystem2"):
                    if hasattr(c, sub):
                        ncache += install(getattr(c, sub), seen)
            vals = dict(t=0.37, q=s.q0 + 0.05 * rng.normal(size=s.nq), u=rng.normal(size=s.nu), u_dot=rng.normal(size=s.nu), la_g=rng.normal(size=s.nla_g), la_gamma=rng.normal(size=s.nla_gamma), la_c=rng.normal(size=s.nla_c), la_N=rng.normal(size=s.nla_N), la_F=rng.normal(size=s.nla_F))
            fns = []
            for n_, f in inspect.getmembers(type(s), inspect.isfunction):
                ps = [p for p in inspect.signature(f).parameters if p not in ("self", "format")]
                if not n_.startswith("_") and n_ not in _EVAL_SKIP and set(ps) <= set(_EVAL_ARGS):
                    fns.append((n_, ps))
            writes = []
            for order in (fns, fns[::-1], fns):
                for n_, ps in order:
                    try:
                        getattr(s, n_)(*[vals[p] for p in ps])
                    except ValueError as e:
                        if "read-only" in str(e):
                            tb = traceback.extract_tb(e.__traceback__)
                            site = next((f"{fr.filename.split('cardillo/')[-1]}:{fr.lineno} {fr.line}" for fr in reversed(tb) if "/cardillo/" in fr.filename), "?")
                            writes.append(f"System.{n_}: {site}")
                    except Exception:  # noqa: BLE001  (an evaluation this scene does not support: not this obligation's business)
                        pass
            # the exporters and sensors are clients too: each contribution's export() and every Sensor record on one frame
            from cardillo.solver import Solution

            frame = next(iter(Solution(s, np.array([vals["t"]]), np.array([vals["q"]]), np.array([vals["u"]]), la_g=np.array([vals["la_g"]]), la_c=np.array([vals["la_c"]]), la_N=np.array([vals["la_N"]]), la_F=np.array([vals["la_F"]]), P_N=np.array([vals["la_N"]]), P_F=np.array([vals["la_F"]]))))
            n_clients = 0
            for c in s.contributions:
                calls = []
                if hasattr(c, "export"):
                    calls.append((f"{type(c).__name__}.export", lambda c=c: c.export(frame)))
                for rec, f_ in getattr(c, "functions", {}).items() if type(c).__name__ == "Sensor" else ():
                    qc, uc = vals["q"][c.qDOF], vals["u"][c.uDOF]
                    calls.append((f"Sensor.{getattr(rec, 'name', rec)}", lambda f_=f_, qc=qc, uc=uc: f_(0.37, qc, uc) if f_.__code__.co_argcount == 4 else f_(0.37, qc)))
                for label, call in calls:
                    n_clients += 1
                    for _ in range(2):
                        try:
                            call()
                        except ValueError as e:
                            if "read-only" in str(e):
                                tb = traceback.extract_tb(e.__traceback__)
                                writes.append(f"{label}: " + next((f"{fr.filename.split('cardillo/')[-1]}:{fr.lineno} {fr.line}" for fr in reversed(tb) if "/cardillo/" in fr.filename), "?"))
                        except Exception:  # noqa: BLE001
                            pass
            writes = sorted(set(writes))
            out.append(dict(name=f"{name}: no evaluation routine writes into an array held by a cache ({ncache} caches made read-only, {len(fns)} System routines x 3 passes, {n_clients} exporters / sensor records)", ok=not writes, backend="native-execution (cached arrays read-only)", show="no write" if not writes else "; ".join(writes[:4]), detail="; ".join(writes[:6]), replay=None if not writes else {"scene": name, "writes": writes[:10]}))
            out.append(dict(name=f"{name}: vacuity guard - the scene has memoised methods", ok=ncache > 0, backend="native-execution", show=str(ncache)))
    return out
