"""Shared builders for the rod contracts (C10, C11, C07): real rods with curved, non-unit
reference configurations; rigid motions of nodal coordinates; finite differences."""

import itertools
import warnings

import numpy as np

import cardillo.math.rotations as rot
from cardillo.rods import CircularCrossSection, CrossSectionInertias, Harsch2021, Simo1986
from cardillo.rods.cosseratRod import make_CosseratRod

FORMULATIONS = []
for _interp in ("Quaternion", "SE3", "R12"):
    for _mixed, _constraints in ((False, None), (True, None), (False, (1, 2)), (True, (0, 1, 2)), (False, (0, 1, 2, 3, 4, 5))):
        for _deg in ((1,) if _interp == "SE3" else (1, 2)):
            FORMULATIONS.append((_interp, _mixed, _constraints, _deg))


def make_rod(interp, mixed, constraints, degree, nelement, rng, material="Simo1986", curved=True):
    from vk import npshim

    with warnings.catch_warnings(), npshim.active(False):  # the rod object itself is always built natively
        warnings.simplefilter("ignore")
        Rod = make_CosseratRod(interpolation=interp, mixed=mixed, constraints=constraints, polynomial_degree=degree)
        cs = CircularCrossSection(0.1)
        Ei = np.array([5.0, 1.0, 1.5])
        Fi = np.array([0.5, 0.1, 0.15])
        mat = Simo1986(Ei, Fi) if material == "Simo1986" else Harsch2021(Ei, Fi)
        Q = Rod.straight_configuration(nelement, 1.3)
        nn = len(Q) // 7
        if curved:
            Q = Q.copy()
            r = Q[: 3 * nn].reshape(3, nn)
            r += 0.05 * rng.normal(size=r.shape)
            P = Q[3 * nn :].reshape(4, nn)
            P += 0.12 * rng.normal(size=P.shape)
            P *= rng.uniform(0.7, 1.4, size=nn)  # non-unit nodal quaternions
        inert = CrossSectionInertias(A_rho0=2.0, B_I_rho0=np.diag([0.3, 0.2, 0.25]))
        rod = Rod(cs, mat, nelement, Q=Q, q0=Q.copy(), cross_section_inertias=inert)
        rod.assembler_callback()  # constant matrices (mass, compliance) as System.assemble would
    return rod, Q


def perturb(Q, rng, scale=0.08):
    q = Q.copy()
    nn = len(Q) // 7
    q[: 3 * nn] += scale * rng.normal(size=3 * nn)
    q[3 * nn :] += scale * rng.normal(size=4 * nn)
    return q


def rigid_motion(q, c, Pq):
    """r_i -> c + R(Pq) r_i,  p_i -> quatprod(Pq, p_i)"""
    nn = len(q) // 7
    R = rot.Exp_SO3_quat(Pq)
    out = q.copy()
    r = q[: 3 * nn].reshape(3, nn)
    P = q[3 * nn :].reshape(4, nn)
    out[: 3 * nn] = (c[:, None] + R @ r).reshape(-1)
    out[3 * nn :] = np.array([rot.quatprod(Pq, P[:, i]) for i in range(nn)]).T.reshape(-1)
    return out


def fd(fun, x, h=1e-6):
    x = np.asarray(x, dtype=float)
    f0 = np.asarray(fun(x), dtype=float)
    out = np.zeros(f0.shape + x.shape)
    for i in range(len(x)):
        xp, xm = x.copy(), x.copy()
        xp[i] += h
        xm[i] -= h
        out[..., i] = (np.asarray(fun(xp), dtype=float) - np.asarray(fun(xm), dtype=float)) / (2 * h)
    return out


def dense(m):
    if m is None:
        return None
    if hasattr(m, "toarray"):
        return m.toarray()
    if hasattr(m, "tocoo"):
        return m.tocoo().toarray()
    return np.asarray(m)


def relerr(a, b):
    a, b = np.asarray(a, dtype=float), np.asarray(b, dtype=float)
    if a.shape != b.shape:
        return float("inf")
    return float(np.max(np.abs(a - b), initial=0.0) / (1.0 + max(np.max(np.abs(a), initial=0.0), np.max(np.abs(b), initial=0.0))))
