"""Callee contract of an assembled `System`, as the solvers see it (symbolic mode only).

Every System quantity is an uninterpreted function of its arguments (same arguments ->
same value, different arguments -> unrelated values), together with the structural
relations that C04-C14 prove for the real subsystems and the real System dispatch:

    q_dot(t,q,u)        = B(t,q) u + beta(t,q),        q_dot_u = B
    g_dot(t,q,u)        = W_g(t,q)^T u + chi_g(t,q),   g_dot_u = W_g^T
    g_ddot(t,q,u,ud)    = W_g^T ud + zeta_g(t,q,u)
    gamma(t,q,u)        = W_gamma^T u + chi_gamma,     gamma_u = W_gamma^T,  gamma_dot = W_gamma^T ud + zeta_gamma
    g_N_dot, g_N_ddot, gamma_F, gamma_F_dot            likewise with W_N, W_F
    xi_N, xi_F                                         Newton's impact law combinations (the real System methods)
    M(t,q)                                             symmetric

and linear-algebra callees with an assumed contract:

    bmat(blocks)        dense block matrix (object array), None = zero block
    splu(A).solve(b)    a vector x with A x = b        (SuperLU; A regular)
    spsolve(A, b)       likewise
    estimate_prox_parameter(...)   positive numbers    (proved in C27 under the same spsolve contract)

The stub is deliberately small (default nu = nq = 2, one multiplier of each kind, one
contact with two friction directions); sizes are a parameter of each contract.
"""

import numpy as np

from vk import npshim
from vk import sym as S


def _k1(x):
    # a constant term and the same number as a float are the same argument value
    if isinstance(x, S.Sym):
        return ("c", float(x.a)) if x.op == "c" else x.uid
    return ("c", float(x))


def _key(args):
    out = []
    for a in args:
        if a is None:
            out.append(None)
        elif isinstance(a, (S.Sym, int, float, np.integer, np.floating)):
            out.append(_k1(a))
        else:
            arr = np.asarray(a, dtype=object).ravel()
            out.append(tuple(_k1(x) for x in arr))
    return tuple(out)


class Mat(np.ndarray):
    """object matrix accepted where the solvers expect a scipy sparse array"""

    def toarray(self, *a, **k):
        return np.asarray(self).view(np.ndarray)

    todense = toarray

    def tocsc(self, *a, **k):
        return self

    tocsr = tocoo = tocsc

    def asformat(self, *a, **k):
        return self

    def diagonal(self, *a, **k):
        return np.asarray(self).view(np.ndarray).diagonal(*a, **k)

    def sum(self, axis=None, **kw):
        return np.asarray(self).view(np.ndarray).sum(axis=axis)

    def __array_finalize__(self, obj):
        pass

    @property
    def T(self):
        return np.asarray(self).view(np.ndarray).T.view(Mat)

    def __matmul__(self, o):
        r = np.asarray(self).view(np.ndarray) @ (np.asarray(o).view(np.ndarray) if isinstance(o, np.ndarray) else o)
        return r.view(Mat) if isinstance(r, np.ndarray) and r.ndim == 2 else r

    def __rmatmul__(self, o):
        r = (np.asarray(o).view(np.ndarray) if isinstance(o, np.ndarray) else o) @ np.asarray(self).view(np.ndarray)
        return r.view(Mat) if isinstance(r, np.ndarray) and r.ndim == 2 else r

    def __getitem__(self, idx):
        r = np.asarray(self).view(np.ndarray)[idx]
        return r.view(Mat) if isinstance(r, np.ndarray) and r.ndim == 2 else r


def mat(a):
    a = np.asarray(a, dtype=object)
    return a.view(Mat)


class Lin:
    """linear-algebra callees (one instance per contract run, fresh-variable counter deterministic per path)"""

    def __init__(self, k, inverse=False):
        self.k = k
        self.n = 0
        self.solves = []  # (A, x, b)
        self.inverse = inverse  # True: x = Ainv b with an explicit two-sided inverse (A regular), shared between solves with the same matrix
        self._inv = {}

    def bmat(self, blocks, format=None, dtype=None):
        blocks = [list(r) for r in blocks]
        nr, nc = len(blocks), len(blocks[0])
        hs, ws = [None] * nr, [None] * nc
        for i in range(nr):
            for j in range(nc):
                b = blocks[i][j]
                if b is None:
                    continue
                if hasattr(b, "toarray") and not isinstance(b, np.ndarray):
                    b = b.toarray()  # a genuine (numeric) scipy sparse block
                b = np.asarray(b, dtype=object)
                if b.ndim == 1:
                    b = b.reshape(1, -1)
                blocks[i][j] = b
                hs[i] = b.shape[0] if hs[i] is None else hs[i]
                ws[j] = b.shape[1] if ws[j] is None else ws[j]
                if hs[i] != b.shape[0] or ws[j] != b.shape[1]:
                    raise ValueError(f"bmat: blocks[{i},{j}] has incompatible shape {b.shape} (expected {hs[i]} x {ws[j]})")
        if any(h is None for h in hs) or any(w is None for w in ws):
            raise ValueError("bmat: a block row/column holds only None")
        out = np.empty((sum(hs), sum(ws)), dtype=object)
        out[...] = S.ZERO
        r0 = 0
        for i in range(nr):
            c0 = 0
            for j in range(nc):
                if blocks[i][j] is not None:
                    out[r0 : r0 + hs[i], c0 : c0 + ws[j]] = blocks[i][j]
                c0 += ws[j]
            r0 += hs[i]
        return out.view(Mat)

    def solve(self, A, b, tag="x"):
        A = np.asarray(A, dtype=object).view(np.ndarray)
        b = np.asarray(b, dtype=object).view(np.ndarray)
        if A.ndim != 2 or A.shape[0] != A.shape[1] or b.shape[0] != A.shape[0]:
            raise ValueError(f"linear solve: shapes {A.shape} and {b.shape}")
        self.n += 1
        if self.inverse and A.shape[0]:
            key = tuple(S._coerce(e).uid for e in A.ravel())
            if key not in self._inv:
                n = A.shape[0]
                Ai = S.symarray(f"inv{len(self._inv)}_", (n, n))
                with npshim.active(True):
                    for P in (A @ Ai, Ai @ A):
                        for i in range(n):
                            for j in range(n):
                                self.k.axiom(S._coerce(P[i, j]) == (1 if i == j else 0), "assumed contract of spsolve: the matrix is regular (two-sided inverse exists), x = A^-1 b")
                self._inv[key] = Ai
            with npshim.active(True):
                x = self._inv[key] @ b
            self.solves.append((A, x, b))
            return x
        x = S.symarray(f"{tag}{self.n}", b.shape)
        if A.shape[0]:
            with npshim.active(True):
                r = A @ x - b
            for e in np.asarray(r, dtype=object).ravel():
                self.k.axiom(S._coerce(e) == 0, "assumed contract of the sparse linear solver (splu/spsolve): A x = b")
        self.solves.append((A, x, b))
        return x

    def splu(self, A, *a, **kw):
        lin = self

        class LU:
            def solve(self_, b):
                return lin.solve(A, b)

        return LU()

    def spsolve(self, A, b, *a, **kw):
        return self.solve(A, b)


DEFAULT_SIZES = dict(nq=2, nu=2, nla_g=1, nla_gamma=1, nla_c=1, nla_tau=1, nla_N=1, nla_F=2, nla_S=0)


class SysStub:
    is_stub = True

    def __init__(self, k, sizes=None, friction=True, t0=None, mu=None, layout=None):
        """layout: friction directions per contact, e.g. (0, 2) = a frictionless contact assembled before a frictional
        one (one normal force each; a frictionless contact defines no friction law, like Sphere2Plane with mu = 0)"""
        self.k = k
        sz = dict(DEFAULT_SIZES)
        sz.update(sizes or {})
        for a, b in sz.items():
            setattr(self, a, b)
        if not friction:
            self.nla_F = 0
        if layout is not None:
            self.nla_N, self.nla_F = len(layout), sum(layout)
        self._memo = {}
        self._count = {}
        self.t0 = S.var("t0") if t0 is None else t0
        self.q0 = S.symarray("q0", self.nq)
        self.u0 = S.symarray("u0", self.nu)
        self.e_N = S.symarray("eN", self.nla_N)
        self.e_F = S.symarray("eF", self.nla_F)
        for v in list(self.e_N) + list(self.e_F):
            k.assume(v >= 0)
            k.assume(v <= 1)
        self.constant_force_reservoir = False
        self.calls = []
        # one contact with a Coulomb disk of radius mu * la_N
        self.mu = S.var("mu") if mu is None else mu
        k.assume(self.mu >= 0)
        self._contacts = []
        self.mus = [self.mu]
        if layout is not None:
            from cardillo.math.prox import Sphere

            class _Contact:
                pass

            self.mus, f0 = [], 0
            for i, nf in enumerate(layout):
                c = _Contact()
                c.la_NDOF = np.array([i])
                c.la_FDOF = np.arange(f0, f0 + nf)
                c.qDOF = np.arange(self.nq)
                c.uDOF = np.arange(self.nu)
                mu_i = S.var(f"mu{i}")
                k.assume(mu_i >= 0)
                self.mus.append(mu_i)
                with npshim.active(True):
                    c.friction_laws = [([0], list(range(nf)), Sphere(mu_i))] if nf else []
                c.gamma_F = (lambda t, q, u, sl=slice(f0, f0 + nf): self.gamma_F(t, q, u)[sl])
                f0 += nf
                self._contacts.append(c)
        elif self.nla_N and self.nla_F:
            from cardillo.math.prox import Sphere

            class _Contact:
                pass

            c = _Contact()
            c.la_NDOF = np.arange(self.nla_N)
            c.la_FDOF = np.arange(self.nla_F)
            c.qDOF = np.arange(self.nq)
            c.uDOF = np.arange(self.nu)
            c.gamma_F = lambda t, q, u: self.gamma_F(t, q, u)
            with npshim.active(True):
                c.friction_laws = [([0], list(range(self.nla_F)), Sphere(self.mu))]
            self._contacts.append(c)
        # consistent initial accelerations / forces as stored by System.assemble
        self.q_dot0 = None
        self.u_dot0 = S.symarray("ud0", self.nu)
        self.la_g0 = S.symarray("lag0", self.nla_g)
        self.la_gamma0 = S.symarray("lagam0", self.nla_gamma)
        self.la_c0 = S.symarray("lac0", self.nla_c)
        self.la_N0 = S.symarray("laN0", self.nla_N)
        self.la_F0 = S.symarray("laF0", self.nla_F)

    # ------------------------------------------------------------ uninterpreted functions of the arguments
    def fn(self, name, shape, *args):
        key = (name,) + _key(args)
        if key not in self._memo:
            n = self._count.get(name, 0)
            self._count[name] = n + 1
            shape = (shape,) if isinstance(shape, int) else tuple(shape)
            self._memo[key] = S.symarray(f"{name}@{n}_", shape) if shape else S.var(f"{name}@{n}")
        self.calls.append(key[0])
        v = self._memo[key]
        return v.copy() if isinstance(v, np.ndarray) else v

    def get_contribution_list(self, name):
        if name == "g_N":
            return list(self._contacts)
        if name == "gamma_F":
            return [c for c in self._contacts if c.friction_laws]
        return []

    def step_callback(self, t, q, u):
        # contract of System.step_callback (C04/C11): returns a state with the same rotation, unit quaternions
        return self.fn("cbq", self.nq, t, q, u), self.fn("cbu", self.nu, t, q, u)

    # kinematics
    def B(self, t, q):
        return self.fn("B", (self.nq, self.nu), t, q)

    def q_dot(self, t, q, u):
        with npshim.active(True):
            return self.B(t, q) @ np.asarray(u, dtype=object) + self.fn("beta", self.nq, t, q)

    def q_dot_u(self, t, q, format="coo"):
        return mat(self.B(t, q))

    def q_dot_q(self, t, q, u, format="coo"):
        return mat(self.fn("q_dot_q", (self.nq, self.nq), t, q, u))

    def M(self, t, q, format="coo"):
        raw = self.fn("M", (self.nu, self.nu), t, q)
        out = raw.copy()
        for i in range(self.nu):
            for j in range(i):
                out[i, j] = raw[j, i]
        return mat(out)

    def Mu_q(self, t, q, u, format="coo"):
        return mat(self.fn("Mu_q", (self.nu, self.nq), t, q, u))

    def h(self, t, q, u):
        return self.fn("h", self.nu, t, q, u)

    def h_q(self, t, q, u, format="coo"):
        return mat(self.fn("h_q", (self.nu, self.nq), t, q, u))

    def h_u(self, t, q, u, format="coo"):
        return mat(self.fn("h_u", (self.nu, self.nu), t, q, u))

    # actuators
    def W_tau(self, t, q, format="coo"):
        return mat(self.fn("W_tau", (self.nu, self.nla_tau), t, q))

    def la_tau(self, t, q, u):
        return self.fn("la_tau", self.nla_tau, t, q, u)

    def Wla_tau_q(self, t, q, u, format="coo"):
        return mat(self.fn("Wla_tau_q", (self.nu, self.nq), t, q, u))

    def Wla_tau_u(self, t, q, u, format="coo"):
        return mat(self.fn("Wla_tau_u", (self.nu, self.nu), t, q, u))

    # compliance
    def W_c(self, t, q, format="coo"):
        return mat(self.fn("W_c", (self.nu, self.nla_c), t, q))

    def la_c(self, t, q, u):
        return self.fn("la_c", self.nla_c, t, q, u)

    def c(self, t, q, u, la_c, **kw):
        return self.fn("c", self.nla_c, t, q, u, la_c)

    def c_q(self, t, q, u, la_c, format="coo"):
        return mat(self.fn("c_q", (self.nla_c, self.nq), t, q, u, la_c))

    def c_u(self, t, q, u, la_c, format="coo"):
        return mat(self.fn("c_u", (self.nla_c, self.nu), t, q, u, la_c))

    def c_la_c(self, format="coo"):
        return mat(self.fn("c_la_c", (self.nla_c, self.nla_c)))

    def Wla_c_q(self, t, q, la_c, format="coo"):
        return mat(self.fn("Wla_c_q", (self.nu, self.nq), t, q, la_c))

    # bilateral constraints
    def _bil(self, nm, n):
        W = lambda t, q, format="coo": mat(self.fn(f"W_{nm}", (self.nu, n), t, q))
        chi = lambda t, q: self.fn(f"chi_{nm}", n, t, q)
        zeta = lambda t, q, u: self.fn(f"zeta_{nm}", n, t, q, u)
        return W, chi, zeta

    def W_g(self, t, q, format="coo"):
        return mat(self.fn("W_g", (self.nu, self.nla_g), t, q))

    def g(self, t, q):
        return self.fn("g", self.nla_g, t, q)

    def g_q(self, t, q, format="coo"):
        return mat(self.fn("g_q", (self.nla_g, self.nq), t, q))

    def chi_g(self, t, q):
        return self.fn("chi_g", self.nla_g, t, q)

    def zeta_g(self, t, q, u):
        return self.fn("zeta_g", self.nla_g, t, q, u)

    def _lin(self, W, u, rest):
        with npshim.active(True):
            return np.asarray(W, dtype=object).view(np.ndarray).T @ np.asarray(u, dtype=object) + rest

    def g_dot(self, t, q, u):
        return self._lin(self.W_g(t, q), u, self.chi_g(t, q))

    def g_dot_u(self, t, q, format="coo"):
        return self.W_g(t, q).T

    def g_dot_q(self, t, q, u, format="coo"):
        return mat(self.fn("g_dot_q", (self.nla_g, self.nq), t, q, u))

    def g_ddot(self, t, q, u, u_dot):
        return self._lin(self.W_g(t, q), u_dot, self.zeta_g(t, q, u))

    def Wla_g_q(self, t, q, la, format="coo"):
        return mat(self.fn("Wla_g_q", (self.nu, self.nq), t, q, la))

    def W_gamma(self, t, q, format="coo"):
        return mat(self.fn("W_gamma", (self.nu, self.nla_gamma), t, q))

    def chi_gamma(self, t, q):
        return self.fn("chi_gamma", self.nla_gamma, t, q)

    def zeta_gamma(self, t, q, u):
        return self.fn("zeta_gamma", self.nla_gamma, t, q, u)

    def gamma(self, t, q, u):
        return self._lin(self.W_gamma(t, q), u, self.chi_gamma(t, q))

    def gamma_u(self, t, q, format="coo"):
        return self.W_gamma(t, q).T

    def gamma_q(self, t, q, u, format="coo"):
        return mat(self.fn("gamma_q", (self.nla_gamma, self.nq), t, q, u))

    def gamma_dot(self, t, q, u, u_dot):
        return self._lin(self.W_gamma(t, q), u_dot, self.zeta_gamma(t, q, u))

    def Wla_gamma_q(self, t, q, la, format="coo"):
        return mat(self.fn("Wla_gamma_q", (self.nu, self.nq), t, q, la))

    def g_S(self, t, q):
        return self.fn("g_S", self.nla_S, t, q)

    def g_S_q(self, t, q, format="coo"):
        return mat(self.fn("g_S_q", (self.nla_S, self.nq), t, q))

    # contacts
    def W_N(self, t, q, format="coo"):
        return mat(self.fn("W_N", (self.nu, self.nla_N), t, q))

    def W_F(self, t, q, format="coo"):
        return mat(self.fn("W_F", (self.nu, self.nla_F), t, q))

    def g_N(self, t, q):
        return self.fn("g_N", self.nla_N, t, q)

    def g_N_q(self, t, q, format="coo"):
        return mat(self.fn("g_N_q", (self.nla_N, self.nq), t, q))

    def g_N_dot(self, t, q, u):
        return self._lin(self.W_N(t, q), u, self.fn("chi_N", self.nla_N, t, q))

    def g_N_ddot(self, t, q, u, u_dot):
        return self._lin(self.W_N(t, q), u_dot, self.fn("zeta_N", self.nla_N, t, q, u))

    def gamma_F(self, t, q, u):
        return self._lin(self.W_F(t, q), u, self.fn("chi_F", self.nla_F, t, q))

    def gamma_F_q(self, t, q, u, format="coo"):
        return mat(self.fn("gamma_F_q", (self.nla_F, self.nq), t, q, u))

    def gamma_F_dot(self, t, q, u, u_dot):
        return self._lin(self.W_F(t, q), u_dot, self.fn("zeta_F", self.nla_F, t, q, u))

    def Wla_N_q(self, t, q, la, format="coo"):
        return mat(self.fn("Wla_N_q", (self.nu, self.nq), t, q, la))

    def Wla_F_q(self, t, q, la, format="coo"):
        return mat(self.fn("Wla_F_q", (self.nu, self.nq), t, q, la))

    def xi_N(self, t_pre, t_post, q_pre, q_post, u_pre, u_post):
        with npshim.active(True):
            return self.e_N * self.g_N_dot(t_pre, q_pre, u_pre) + self.g_N_dot(t_post, q_post, u_post)

    def xi_F(self, t_pre, t_post, q_pre, q_post, u_pre, u_post):
        with npshim.active(True):
            return self.e_F * self.gamma_F(t_pre, q_pre, u_pre) + self.gamma_F(t_post, q_post, u_post)


def patched(module, **names):
    """context manager: rebind module globals for the duration of a contract run"""
    import contextlib

    @contextlib.contextmanager
    def cm():
        missing = object()
        old = {n: module.__dict__.get(n, missing) for n in names}
        try:
            for n, v in names.items():
                setattr(module, n, v)
            yield
        finally:
            for n, v in old.items():
                if v is missing:
                    module.__dict__.pop(n, None)  # the name was not a module global before (e.g. a builtin)
                else:
                    setattr(module, n, v)

    return cm()
