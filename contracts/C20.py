"""C20 - Solver results honour the Solution contract.

What contracts can decide here, and how:
  * Solution / SolutionIterator (plain Python): executed with symbolic field entries; one record per
    instant equal to the rows, StopIteration at len(t), never a stale/unbound record (proof by path
    execution + normal form; shapes enumerated).
  * time grids: every solver builds its grid with numpy.arange (extracted from the current source by AST,
    so a changed construction is noticed).  From numpy's documented contract
    len = ceil((stop - start)/step), values start + i*step, the real-arithmetic obligation
    "last point is the first one >= t1" is discharged in LRA/LIA by z3; the SAME obligation in IEEE
    doubles (QF_FP) is refutable: z3 finds (t1, dt) with an extra step, the model is replayed on the
    real solver constructors -> recorded as a known finding (changing the grids touches every trajectory).
  * shapes/widths of stored fields and save/load: bounded stand-in (real runs of every solver on a small
    system; dill round trip) - labelled bounded.
"""

import ast
import inspect
import os
import subprocess
import tempfile
import textwrap
import warnings

import numpy as np

import cardillo.solver as cs
from cardillo.solver.solution import Solution, load_solution, save_solution
from vk import kit as K
from vk import npshim, smt
from vk import sym as S
from vk.registry import bounded, contract, static

LEVEL = "proof"
TRUSTED = [
    "numpy.arange contract: length ceil((stop-start)/step) and values start + i*step, both in double arithmetic (assumed; every FP counter-model is replayed on numpy itself)",
    "dill serialisation is external: bounded round-trip check only",
    "row counts and widths produced by the solvers' solve() loops are checked by bounded real runs, not proved (the loops call the external linear algebra); C21 covers their control flow",
]
EXPLANATION = "path-execution/normal-form obligations on Solution, LRA + QF_FP obligations on the time-grid arithmetic, bounded real runs for shapes and I/O"


# ------------------------------------------------------------------ Solution iterator
@contract("C20", "Solution/iterator", samples=1)
def c_iter(k):
    k.covers(Solution.__init__, Solution.__iter__, Solution.SolutionIterator.__init__, Solution.SolutionIterator.__next__)
    # (row counts and widths in every relation: fewer / more instants than coordinates, and EQUAL numbers - square fields,
    # where a row and a column have the same length and only the values tell them apart)
    for nt, nq, nu, nla in ((1, 2, 2, 1), (3, 2, 1, 0), (4, 1, 3, 2), (3, 3, 3, 3), (2, 2, 3, 2), (1, 1, 1, 1)):
        t = np.arange(nt) * 0.5
        tagc = f"{nt}x{nq}x{nu}x{nla}"
        q = k.reals(f"q{tagc}", (nt, nq))
        u = k.reals(f"u{tagc}", (nt, nu))
        la = k.reals(f"la{tagc}", (nt, nla)) if nla else np.zeros((nt, 0))
        sol = Solution(system=None, t=t, q=q, u=u, la_g=la, P_g=2 * la)
        ok, recs = k.no_raise(f"iterating a solution with {nt} instants returns", lambda: list(sol))
        if not ok:
            continue
        k.prove(f"{nt} instants -> {nt} records", len(recs) == nt)
        for i, r in enumerate(recs):
            k.prove_eq(f"record {i} t", r.t, t[i], tol=0)
            k.prove_eq(f"record {i} q", r.q, q[i], tol=0)
            k.prove_eq(f"record {i} u", r.u, u[i], tol=0)
            k.prove_eq(f"record {i} la_g", r.la_g, la[i], tol=0)
            k.prove_eq(f"record {i} extra field P_g", r.P_g, 2 * la[i], tol=0)
            k.prove(f"record {i}: fields that are None stay None", r.u_dot is None and r.la_c is None)
        it = iter(sol)
        for _ in range(nt):
            next(it)
        k.must_raise("StopIteration after the last instant", lambda: next(it), exc=(StopIteration,))
    k.prove_le("dummy", 0, 1)


@contract("C20", "Solution/iterator-degenerate-fields", samples=1)
def c_iter_degenerate(k):
    """fields that are empty arrays (no multipliers of a kind) must not make the iterator fail or return a stale record"""
    k.covers(Solution.SolutionIterator.__next__)
    t = np.arange(3) * 0.1
    q = k.reals("q", (3, 2))
    for name, fld in (("empty 1-D array", np.array([])), ("array of shape (0, 3)", np.zeros((0, 3))), ("array of shape (3, 0)", np.zeros((3, 0)))):
        sol = Solution(system=None, t=t, q=q, la_g=fld)
        # a field without rows cannot be iterated: an explicit RuntimeError is the accepted outcome, a stale/unbound record is not
        ok, recs = k.no_raise(f"iteration with la_g = {name} returns or raises RuntimeError", lambda: list(sol), allowed=(RuntimeError,))
        if ok:
            k.prove(f"la_g = {name}: one record per instant", len(recs) == 3)
            for i, r in enumerate(recs):
                k.prove_eq(f"la_g = {name}: record {i} q", r.q, q[i], tol=0)
    k.prove_le("dummy", 0, 1)


# ------------------------------------------------------------------ time grids
GRIDS = {
    "Moreau": ("moreau", "Moreau", "__init__", "closed"),
    "ScipyIVP": ("scipy_ivp", "ScipyIVP", "__init__", "closed"),
    "ScipyDAE": ("scipy_dae", "ScipyDAE", "__init__", "closed"),
    "Rattle": ("rattle", "Rattle", "solve", "steps"),
    "BackwardEuler": ("backward_euler", "BackwardEuler", "solve", "steps"),
    "DualStormerVerlet": ("dual_stormer_verlet", "DualStormerVerlet", "solve", "steps"),
}


def _arange_calls(fn):
    src = textwrap.dedent(inspect.getsource(fn))
    out = []
    for node in ast.walk(ast.parse(src)):
        if isinstance(node, ast.Call) and ast.unparse(node.func) in ("np.arange", "numpy.arange", "arange"):
            out.append([ast.unparse(a) for a in node.args])
    return out


def _z3(text, timeout=60):
    v, out, dt = smt.run_solver(text, timeout, "z3")
    return v, out


def COVERS_STATIC():
    import sys

    return [getattr(getattr(sys.modules[f"cardillo.solver.{mod}"], cls), meth) for mod, cls, meth, _ in GRIDS.values()]


COVERS_BOUNDED = [save_solution, load_solution, Solution.save]


@static("C20", "time-grid")
def s_grid(tier):
    import sys

    res = []
    # 1. the grid constructions in the current source have the form the arithmetic obligations are about
    expect_closed = ["t0", "self.t1 + self.dt", "self.dt"]
    expect_steps = ["self.t0", "self.t1", "self.dt"]
    for name, (mod, cls, meth, kind) in GRIDS.items():
        m = sys.modules[f"cardillo.solver.{mod}"]
        calls = _arange_calls(getattr(getattr(m, cls), meth))
        want = expect_closed if kind == "closed" else expect_steps
        ok = want in calls
        res.append({"name": f"{name}: grid built as np.arange({', '.join(want)})", "ok": ok, "backend": "ast-extraction", "show": str(calls), "detail": f"found arange calls {calls}", "replay": {"solver": name, "found": calls}})
    # 2. real arithmetic (numpy contract assumed): closed grid ends at the first point >= t1
    lra = """(set-logic QF_LIRA)
(declare-const x Real) (declare-const n Int)
(assert (> x 0.0))
; closed grid: n = ceil(x + 1) points, x = (t1 - t0)/dt
(assert (and (< (- (to_real n) 1.0) (+ x 1.0)) (<= (+ x 1.0) (to_real n))))
; negated goal: last point t0 + (n-1) dt >= t1  and  previous one < t1   (in units of dt)
(assert (not (and (>= (- (to_real n) 1.0) x) (< (- (to_real n) 2.0) x))))
(check-sat)"""
    v, out = _z3(lra)
    res.append({"name": "closed grid over the reals: t[-1] >= t1 > t[-2]", "ok": v == "unsat", "backend": "z3 (LIRA)", "show": "n = ceil((t1+dt-t0)/dt) => (n-1) dt >= t1-t0 > (n-2) dt", "detail": out[:200]})
    lra2 = """(set-logic QF_LIRA)
(declare-const x Real) (declare-const n Int)
(assert (> x 0.0))
; step loop: n = ceil(x) steps of size dt starting from t0
(assert (and (< (- (to_real n) 1.0) x) (<= x (to_real n))))
(assert (not (and (>= (to_real n) x) (< (- (to_real n) 1.0) x) (>= n 1))))
(check-sat)"""
    v, out = _z3(lra2)
    res.append({"name": "step loop over the reals: t0 + n dt >= t1 > t0 + (n-1) dt, n >= 1", "ok": v == "unsat", "backend": "z3 (LIRA)", "show": "n = ceil((t1-t0)/dt)", "detail": out[:200]})
    # 3. the same obligation in IEEE doubles (t0 = 0): search for a counterexample
    fp = """(set-logic QF_FP)
(declare-const t1 (_ FloatingPoint 11 53)) (declare-const dt (_ FloatingPoint 11 53))
(define-fun rm () RoundingMode RNE)
(define-fun zero () (_ FloatingPoint 11 53) ((_ to_fp 11 53) rm 0.0))
(assert (fp.lt ((_ to_fp 11 53) rm 0.001) dt)) (assert (fp.lt dt ((_ to_fp 11 53) rm 1.0)))
(assert (fp.lt dt t1)) (assert (fp.lt t1 ((_ to_fp 11 53) rm 100.0)))
(define-fun stop () (_ FloatingPoint 11 53) (fp.add rm t1 dt))
(define-fun len () (_ FloatingPoint 11 53) (fp.roundToIntegral RTP (fp.div rm stop dt)))
; second to last grid value (len - 2) * dt is already >= t1
(assert (fp.geq (fp.mul rm (fp.sub rm len ((_ to_fp 11 53) rm 2.0)) dt) t1))
(check-sat)
(get-value ((fp.to_real t1) (fp.to_real dt)))"""
    v, out = _z3(fp, timeout=120)
    rep = None
    ok = None
    if v == "sat":
        m = smt.parse_model("(" + out.split("(", 1)[1]) if "(" in out else {}
        vals = [float(x) for x in smt._parse_sexprs(out[out.index("(("):])[0] and [smt._val(p[1]) for p in smt._parse_sexprs(out[out.index("(("):])[0]]]
        t1v, dtv = vals
        grid = np.arange(0.0, t1v + dtv, dtv)
        native = bool(len(grid) >= 2 and grid[-2] >= t1v)
        rep = {"t1": t1v, "dt": dtv, "numpy_grid_tail": grid[-3:].tolist(), "replayed_on_numpy": native}
        ok = False if native else None
    elif v == "unsat":
        ok = True
    res.append({"name": "closed grid in IEEE doubles: no grid point before the last is already >= t1", "ok": ok, "backend": "z3 (QF_FP)", "show": "exists t1, dt: (len-2)*dt >= t1 with len = ceil((t1+dt)/dt)", "detail": out[:300], "replay": rep})
    return res


# --------------------------------------------------------------------------- bounded
def _small_system():
    from cardillo import System
    from cardillo.discrete import PointMass
    from cardillo.forces import Force

    pm = PointMass(1.0, q0=np.array([0.0, 0.0, 1.0]), u0=np.array([0.1, 0.0, 0.0]))
    f = Force(np.array([0.0, 0.0, -9.81]), pm)
    s = System()
    s.add(pm, f)
    s.assemble()
    return s


@bounded("C20", "real-runs/grid-shapes-saveload")
def b_runs(tier, seed):
    cases, failures = 0, []
    pairs = [(0.1, 0.01), (0.3, 0.1), (0.7, 0.1), (0.25, 0.05), (0.35, 0.05), (0.05, 0.02), (0.06, 0.02), (8.8, 0.05) if tier == "thorough" else (0.15, 0.05)]
    solvers = [("Moreau", lambda s, t1, dt: cs.Moreau(s, t1, dt)), ("Rattle", lambda s, t1, dt: cs.Rattle(s, t1, dt)), ("BackwardEuler", lambda s, t1, dt: cs.BackwardEuler(s, t1, dt)),
               ("DualStormerVerlet", lambda s, t1, dt: cs.DualStormerVerlet(s, t1, dt)), ("ScipyIVP", lambda s, t1, dt: cs.ScipyIVP(s, t1, dt)), ("ScipyDAE", lambda s, t1, dt: cs.ScipyDAE(s, t1, dt))]
    import contextlib, io

    for name, mk in solvers:
        for t1, dt in pairs:
            if tier == "quick" and (t1, dt) not in pairs[:5]:
                continue
            cases += 1
            try:
                with warnings.catch_warnings(), contextlib.redirect_stdout(io.StringIO()), contextlib.redirect_stderr(io.StringIO()):
                    warnings.simplefilter("ignore")
                    s = _small_system()
                    sol = mk(s, t1, dt).solve()
            except Exception as e:  # noqa: BLE001
                failures.append({"what": f"{name}: solve raised {type(e).__name__}", "input": {"t1": t1, "dt": dt}, "detail": str(e)[:200]})
                continue
            t = np.asarray(sol.t)
            nt = len(t)
            if abs(t[0] - s.t0) > 0:
                failures.append({"what": f"{name}: grid does not start at t0", "input": {"t1": t1, "dt": dt}})
            if nt > 1 and np.max(np.abs(np.diff(t) - dt)) > 1e-9:
                failures.append({"what": f"{name}: grid increments differ from dt", "input": {"t1": t1, "dt": dt}})
            if not t[-1] >= t1 - 1e-12:
                failures.append({"what": f"{name}: grid ends before t1", "input": {"t1": t1, "dt": dt}, "detail": f"t[-1]={t[-1]}"})
            if nt > 1 and t[-2] >= t1 - 1e-12 * 0 and t[-2] >= t1:
                failures.append({"what": f"{name}: grid overshoots: an earlier point is already >= t1 (floating point), t1={t1}, dt={dt}", "input": {"t1": t1, "dt": dt}, "detail": f"t[-2]={t[-2]!r} >= t1={t1!r}"})
            for fld, width in (("q", s.nq), ("u", s.nu), ("la_g", s.nla_g), ("la_gamma", s.nla_gamma), ("la_N", s.nla_N), ("la_F", s.nla_F)):
                a = getattr(sol, fld, None)
                if a is None:
                    continue
                a = np.asarray(a)
                if a.shape[0] != nt or (a.ndim > 1 and a.shape[1] != width):
                    failures.append({"what": f"{name}: field {fld} has shape {a.shape}, expected ({nt}, {width})", "input": {"t1": t1, "dt": dt}})
            recs = list(sol)
            if len(recs) != nt or not np.array_equal(recs[-1].q, np.asarray(sol.q)[-1]):
                failures.append({"what": f"{name}: iteration does not yield one record per instant", "input": {"t1": t1, "dt": dt}})
        # save / load
        cases += 1
        with tempfile.TemporaryDirectory() as d:
            fn = os.path.join(d, "sol.dill")
            sol.system = None
            save_solution(sol, fn)
            back = load_solution(fn)
            for key, v in sol.__dict__.items():
                w = back.__dict__.get(key)
                if isinstance(v, np.ndarray) and not np.array_equal(v, w):
                    failures.append({"what": f"{name}: field {key} not preserved by save/load", "input": {}})
    seen, out = set(), []
    for f in failures:
        if f["what"] not in seen:
            seen.add(f["what"])
            out.append(f)
    return {"cases": cases, "distinct": cases, "failures": out, "bound": f"{len(solvers)} solvers x {len(pairs)} (t1, dt) pairs on a falling point mass; dill round trip"}


# --------------------------------------------------------------------------- truncated runs: one row per returned instant
def _rows_ok(sol, system):
    """every stored field has exactly one row per returned instant, of the system's width; iteration yields them"""
    nt = len(sol.t)
    widths = dict(q=system.nq, u=system.nu, u_dot=system.nu, la_g=system.nla_g, la_gamma=system.nla_gamma, la_c=system.nla_c, la_N=system.nla_N, la_F=system.nla_F,
                  P_g=system.nla_g, P_gamma=system.nla_gamma, P_N=system.nla_N, P_F=system.nla_F)
    bad = []
    for key, val in sol.__dict__.items():
        if key in ("system", "solver_summary", "t") or val is None:
            continue
        a = np.asarray(val)
        if a.ndim == 0:
            continue
        if a.shape[0] != nt or (key in widths and a.ndim > 1 and a.shape[1] != widths[key]):
            bad.append(f"{key}: shape {a.shape} for {nt} instants")
    recs = list(sol)
    if len(recs) != nt:
        bad.append(f"iteration yields {len(recs)} records for {nt} instants")
    return bad


def _truncated(name):
    """the real solver on a real small system; the run is cut short (stepping solvers: the 4th nonlinear solve reports
    non-convergence; scipy wrappers: the external integrator stops after 3 of the requested instants)"""

    def c(k):
        if not k.sym:
            raise K.Reject("decided by executing the real solver with an injected stop")
        import contextlib, io

        import cardillo.math.fsolve as fs_mod
        from contracts.C21 import _Pbar, _small_real_system
        from contracts.sysstub import patched

        module = {"BackwardEuler": cs.backward_euler, "Rattle": cs.rattle, "Moreau": cs.moreau, "ScipyIVP": cs.scipy_ivp, "ScipyDAE": cs.scipy_dae}[name]
        cls = getattr(module, name)
        k.covers(cls.solve)
        sysm = _small_real_system("contact" if name in ("BackwardEuler", "Rattle", "Moreau") else "free")
        names = {"tqdm": _Pbar, "print": lambda *a, **kw: None}
        if name in ("ScipyIVP", "ScipyDAE"):
            ext = "solve_ivp" if name == "ScipyIVP" else "solve_dae"

            def external(fun, t_span, y0, *a, t_eval=None, **kw):
                class Res:
                    pass

                r = Res()
                r.t = np.asarray(t_eval)[:3]
                r.y = np.tile(np.asarray(y0, dtype=float)[:, None], (1, 3))
                yp0 = a[0] if a and name == "ScipyDAE" else np.zeros_like(y0)
                r.yp = np.tile(np.asarray(yp0, dtype=float)[:, None], (1, 3))
                r.status, r.success, r.message = -1, False, "Required step size is less than spacing between numbers."
                return r

            names[ext] = external
        else:
            real, count = fs_mod.fsolve, [0]

            def inj(*a, **kw):
                r = real(*a, **kw)
                count[0] += 1
                if count[0] == 4:
                    r.success = False
                return r

            if hasattr(module, "fsolve"):
                names["fsolve"] = inj
        opts = cs.SolverOptions()
        if name == "Moreau":
            opts.fixed_point_max_iter, opts.fixed_point_atol, opts.fixed_point_rtol = 1, 1e-300, 1e-300  # the first closed contact cannot converge
        with npshim.active(False), patched(module, **names), warnings.catch_warnings(), contextlib.redirect_stdout(io.StringIO()), contextlib.redirect_stderr(io.StringIO()):
            warnings.simplefilter("ignore")
            try:
                sol, outcome = (cls(sysm, 1.0, 0.1, options=opts) if name in ("BackwardEuler", "Rattle", "Moreau") else cls(sysm, 1.0, 0.1)).solve(), "return"
            except (RuntimeError, ValueError, AssertionError) as e:
                sol, outcome = e, "raise"
        if outcome == "raise":
            k.prove(f"{name}: a run that cannot continue raises (nothing is returned)", True)
            return
        full = 11
        k.prove(f"{name}: the injected stop truncates the run (returned {len(sol.t)} of {full} instants)", len(sol.t) < full)
        bad = _rows_ok(sol, sysm)
        k.prove(f"{name}: truncated run - every stored field has one row per returned instant {bad}", not bad)
        k.prove(f"{name}: truncated run - the returned instants are the leading grid points", np.allclose(np.asarray(sol.t), sysm.t0 + 0.1 * np.arange(len(sol.t))))

    return c


for _name in ("BackwardEuler", "Rattle", "Moreau", "ScipyIVP", "ScipyDAE"):
    contract("C20", f"truncated-run/{_name}", samples=0, replayable=False, timeout=30)(_truncated(_name))


# --------------------------------------------------------------------------- frame: later steps do not modify stored rows
def _stored_rows_frame(name):
    """two consecutive steps of the real solve() loop (loop cut) from an arbitrary solver state: every row that was in
    the output lists after the first step is still there, unchanged, after the second (the lists hold values, not views
    of arrays that the next step updates in place - the defect class found in Riks.solve, C23)"""

    def c(k):
        if not k.sym:
            raise K.Reject("symbolic only")
        import cardillo.solver.backward_euler as be
        import cardillo.solver.moreau as mo
        import cardillo.solver.rattle as ra
        from contracts import C17
        from contracts.C21 import _StepHelper

        module, cls, state, lists = {"BackwardEuler": (be, be.BackwardEuler, ("xn", "yn", "tn", "qn", "un"), ("t", "q", "u")),
                                     "Rattle": (ra, ra.Rattle, ("x1n", "y1n", "x2n", "y2n", "tn", "qn", "un"), ("t", "q", "u")),
                                     "Moreau": (mo, mo.Moreau, ("tn", "qn", "un", "P_Nn", "P_Fn", "P_gn", "P_gamman"), ("q", "u"))}[name]
        k.covers(cls.solve)
        snaps = []

        def is_rows(v):
            return isinstance(v, list) and len(v) > 0 and all(isinstance(e, (np.ndarray, S.Sym, float, int, np.floating)) for e in v)

        class H(_StepHelper):
            def one(self_, it):
                return (S.var("t_a"), S.var("t_b"))

            def back_edge(self_, loc):
                self_.back = dict(loc)
                snaps.append({nm: [np.array(e, dtype=object).copy() for e in v] for nm, v in loc.items() if is_rows(v) and not nm.startswith("_")})

        real_helper = C17._StepHelper
        C17._StepHelper = H
        real_cb = C17.SysStub.step_callback

        def cb_in_place(self_, t, q, u):
            """like the real System.step_callback: the new values are written into the arrays passed in, which are returned"""
            qn, un = real_cb(self_, t, np.array(q, dtype=object).copy(), np.array(u, dtype=object).copy())
            q[:] = qn
            u[:] = un
            return q, u

        C17.SysStub.step_callback = cb_in_place
        try:
            def prep(solver, rec):
                if name == "BackwardEuler":
                    solver.prox = C17._fresh_fn(rec, "prox")
                    solver.J_x = lambda x, y: C17.mat(S.symarray("Jx", (solver.nx, solver.nx)))
                elif name == "Rattle":
                    solver.prox1 = C17._fresh_fn(rec, "prox1_")
                    solver.prox2 = C17._fresh_fn(rec, "prox2_")
                    solver._J_x1 = lambda x, y: C17.mat(S.symarray("Jx1", (solver.nx1, solver.nx1)))
                else:
                    def prox(un1, P_N, P_F):
                        rec.n += 1
                        return S.symarray(f"proxN{rec.n}_", len(P_N)), S.symarray(f"proxF{rec.n}_", len(P_F))

                    solver.prox = prox

            C17._run_step(k, module, cls, state, prep, lists)
        finally:
            C17._StepHelper = real_helper
            C17.SysStub.step_callback = real_cb
        k.prove("two consecutive steps reached their back edges", len(snaps) == 2)
        if len(snaps) != 2:
            return
        a, b = snaps
        k.prove(f"{name}: the same output lists exist after both steps {sorted(a)}", sorted(a) == sorted(b) and len(a) >= 2)
        for nm in sorted(a):
            k.prove(f"{name}: list `{nm}` grows by exactly one row per step", len(b.get(nm, [])) == len(a[nm]) + 1)
            for i, row in enumerate(a[nm]):
                if i < len(b.get(nm, [])):
                    k.prove_eq(f"{name}: row {i - len(a[nm])} of `{nm}` stored by the earlier step is unchanged after the next step", b[nm][i], row)

    return c


for _name in ("BackwardEuler", "Rattle", "Moreau"):
    contract("C20", f"stored-rows-frame/{_name}", samples=0, replayable=False, timeout=60, max_paths=60)(_stored_rows_frame(_name))
