"""C08 - Force-element and actuator Jacobians are exact.

Layered contracts:
  provider  TwoPointInteraction / Revolute  against the kinematic-subsystem stub
            (l_q, l_dot_q, l_dot_u, W_l = (d l_dot/du)^T, W_l_q, and l_dot = D_t l for
            the two-point interaction),
  client    Spring / KelvinVoigtElement (both forms), MaxwellElement, PD / PID / Motor
            against the scalar-interaction stub (contracts/scalar.py),
  forces    Force / B_Force / Moment / B_Moment against the kinematic-subsystem stub.
Every reported derivative is compared with the kit's derivative of the term the real
routine it differentiates returned.
"""

import numpy as np

import cardillo.actuators._base as ab
from cardillo.actuators import Motor, PDcontroller, PIDcontroller
from cardillo.constraints import Revolute
import cardillo.constraints._base as cb
from cardillo.force_laws import KelvinVoigtElement, MaxwellElement, Spring
import cardillo.force_laws._base as fb
from cardillo.forces import B_Force, B_Moment, Force, Moment
from cardillo.interactions import TwoPointInteraction
from contracts.scalar import ScalarStub, conc_witness, scalar_provider
from contracts.subsys import _jac_arr, stub_pair
from vk import kit as K
from vk import sym as S
from vk.registry import contract

LEVEL = "proof"
TRUSTED = [
    "kinematic-subsystem contract (contracts/subsys.py, proved in C04/C11) and scalar-interaction contract (contracts/scalar.py, proved for TwoPointInteraction and Revolute in this property)",
    "Revolute.l is differentiated on each of its four arctan branches (open quadrants); the branch boundaries x = 0 / y = 0 are covered by continuity of the single formula l_q",
]
EXPLANATION = "SMT obligations from symbolic execution of the real Jacobian routines against callee contracts"


def _sym_only(k):
    if not k.sym:
        raise K.Reject("stub contract is symbolic only")


# ----------------------------------------------------------------- provider side
def _tpi(kinds):
    def c(k):
        _sym_only(k)
        k.covers(TwoPointInteraction.assembler_callback, TwoPointInteraction.l, TwoPointInteraction.l_q, TwoPointInteraction.l_dot, TwoPointInteraction.l_dot_q,
                 TwoPointInteraction.l_dot_u, TwoPointInteraction._n, TwoPointInteraction._n_q, TwoPointInteraction.W_l, TwoPointInteraction.W_l_q)
        pair = stub_pair(kinds, sizes=(((3, 3) if kinds[0] == "point" else (2, 2)), ((3, 3) if kinds[1] == "point" else (3, 2))))
        B1 = S.symarray("B1", 3)
        B2 = S.symarray("B2", 3)
        tp = TwoPointInteraction(pair.s1, pair.s2, B_r_CP1=B1, B_r_CP2=B2)
        t, q, u = pair.t, pair.q, pair.u
        d0 = pair.s2.r_OP(t, pair.s2.q, None, B2) - pair.s1.r_OP(t, pair.s1.q, None, B1)
        k.assume(d0 @ d0 > 0)  # the two points do not coincide (the constructor asserts it for q0)
        # the constructor rejects (AssertionError) points closer than IS_CLOSE_ATOL: allowed outcome
        ok, _ = k.no_raise("assembler_callback returns or rejects nearly coincident points", tp.assembler_callback, allowed=(AssertionError,))
        if not ok:
            return
        k.prove_eq("l^2=|r2-r1|^2", tp.l(t, q) * tp.l(t, q), d0 @ d0)
        k.prove_le("l>=0", 0, tp.l(t, q))
        k.prove_eq("l_q=dl/dq", tp.l_q(t, q), pair.d_q(lambda t_, q_: tp.l(t_, q_))[0])
        k.prove_eq("l_dot=D_t l", tp.l_dot(t, q, u), pair.D_t(lambda t_, q_: tp.l(t_, q_))[0])
        k.prove_eq("l_dot_q=d l_dot/dq", tp.l_dot_q(t, q, u), pair.d_q(lambda t_, q_, u_: tp.l_dot(t_, q_, u_))[0])
        dlu = pair.d_u(lambda t_, q_, u_: tp.l_dot(t_, q_, u_))[0]
        k.prove_eq("l_dot_u=d l_dot/du", tp.l_dot_u(t, q, u), dlu)
        k.prove_eq("W_l=(d l_dot/du)^T", tp.W_l(t, q), dlu)
        k.prove_eq("W_l_q=dW_l/dq", tp.W_l_q(t, q), pair.d_q(lambda t_, q_: tp.W_l(t_, q_)))
        n_q1, n_q2 = tp._n_q(t, q)
        k.prove_eq("_n_q=dn/dq", np.hstack([n_q1, n_q2]), pair.d_q(lambda t_, q_: tp._n(t_, q_)))

    return c


def _tpi_real(k):
    """the same provider obligations on two real RigidBodies with offset attachment points (native witness)"""
    from cardillo.discrete.rigid_body import RigidBody
    from contracts.subsys import RealPair

    t = k.real("t")
    subs = []
    for tag, off in (("a", 0), ("b", 1)):
        s = RigidBody(1.0, np.eye(3))
        q = k.reals(tag + "q", 7, sample=lambda g: np.concatenate([g.normal(size=3) * 2, g.normal(size=4)]))
        k.assume(q[3:] @ q[3:] > 1e-2)
        u, ud = k.reals(tag + "u", 6), k.reals(tag + "ud", 6)
        s.q0, s.u0, s.t0 = q, u, 0.0
        s.qDOF = np.arange(7) + 7 * off
        s.uDOF = np.arange(6) + 6 * off
        subs.append((s, q, u, ud))
    (s1, q1, u1, ud1), (s2, q2, u2, ud2) = subs
    tp = TwoPointInteraction(s1, s2, B_r_CP1=k.reals("B1", 3), B_r_CP2=k.reals("B2", 3))
    tp.assembler_callback()
    pair = RealPair(k, s1, s2, t, q1, u1, ud1, q2, u2, ud2)
    q, u = pair.q, pair.u
    k.prove_eq("l_q=dl/dq", tp.l_q(t, q), pair.d_q(lambda t_, q_: tp.l(t_, q_))[0])
    k.prove_eq("l_dot=D_t l", tp.l_dot(t, q, u), pair.D_t(lambda t_, q_: tp.l(t_, q_))[0])
    k.prove_eq("l_dot_q=d l_dot/dq", tp.l_dot_q(t, q, u), pair.d_q(lambda t_, q_, u_: tp.l_dot(t_, q_, u_))[0])
    dlu = pair.d_u(lambda t_, q_, u_: tp.l_dot(t_, q_, u_))[0]
    k.prove_eq("l_dot_u=d l_dot/du", tp.l_dot_u(t, q, u), dlu)
    k.prove_eq("W_l=(d l_dot/du)^T", tp.W_l(t, q), dlu)
    k.prove_eq("W_l_q=dW_l/dq", tp.W_l_q(t, q), pair.d_q(lambda t_, q_: tp.W_l(t_, q_)))
    n_q1, n_q2 = tp._n_q(t, q)
    k.prove_eq("_n_q=dn/dq", np.hstack([n_q1, n_q2]), pair.d_q(lambda t_, q_: tp._n(t_, q_)))


_tpi_w = conc_witness(_tpi_real, "TwoPointInteraction between two real RigidBodies with offset attachment points")
contract("C08", "TwoPointInteraction/stub-body-body", samples=0, replayable=False, timeout=120, witness=_tpi_w)(_tpi(("body", "body")))
contract("C08", "TwoPointInteraction/stub-point-body", samples=0, replayable=False, timeout=120, witness=_tpi_w)(_tpi(("point", "body")))
contract("C08", "TwoPointInteraction/stub-frame-point", tiers=("thorough",), samples=0, replayable=False, timeout=120, witness=_tpi_w)(_tpi(("frame", "point")))


def _revolute(axis):
    def c(k):
        k.covers(Revolute.l, Revolute._compute_quadrant, Revolute.l_q, Revolute.l_dot, Revolute.l_dot_q, Revolute.l_dot_u, Revolute.W_l, Revolute.W_l_q)
        if k.sym:
            pair = stub_pair(("body", "body"))
            angle0 = S.var("angle0")
            j = Revolute(pair.s1, pair.s2, axis=axis, angle0=angle0)
            B1, B2 = S.symarray("B1", 3), S.symarray("B2", 3)
            AK1, AK2 = S.symarray("AK1", (3, 3)), S.symarray("AK2", (3, 3))
            cb.concatenate_qDOF(j)
            cb.concatenate_uDOF(j)
            cb.auxiliary_functions(j, B1, B2, AK1, AK2)
        else:
            from contracts.scalar import RealScalar

            pair = RealScalar(k, "revolute")
            pair.assembler_callback()
            j = pair.obj
        j.n_full_rotations = 0
        j.previous_quadrant = 1
        t, q, u = pair.t, pair.q, pair.u
        a, b = j.plane_axes
        A1, A2 = j.A_IJ1(t, q), j.A_IJ2(t, q)
        x = A2[:, a] @ A1[:, a]
        y = A2[:, a] @ A1[:, b]
        # open quadrants: the arctan branches are smooth there
        if k.sym:
            k.assume(~(x == 0))
            k.assume(~(y == 0))
        else:
            k.assume(abs(x) > 1e-3 and abs(y) > 1e-3)

        def l_fixed(t_, q_):
            j.n_full_rotations = 0
            j.previous_quadrant = 1
            return j.l(t_, q_)

        k.prove_eq("l_q=dl/dq", j.l_q(t, q), pair.d_q(l_fixed)[0])
        j.n_full_rotations = 0
        j.previous_quadrant = 1
        k.prove_eq("l_dot_q=d l_dot/dq", j.l_dot_q(t, q, u), pair.d_q(lambda t_, q_, u_: j.l_dot(t_, q_, u_))[0])
        dlu = pair.d_u(lambda t_, q_, u_: j.l_dot(t_, q_, u_))[0]
        k.prove_eq("l_dot_u=d l_dot/du", j.l_dot_u(t, q, u), dlu)
        k.prove_eq("W_l=(d l_dot/du)^T", j.W_l(t, q).reshape(-1), dlu)
        k.prove_eq("W_l_q=dW_l/dq", j.W_l_q(t, q), pair.d_q(lambda t_, q_: j.W_l(t_, q_)))

    return c


for _ax, _t in ((0, ("quick", "thorough")), (1, ("thorough",)), (2, ("thorough",))):
    _fn = _revolute(_ax)
    contract("C08", f"Revolute[axis={_ax}]/scalar-interface", tiers=_t, samples=0, replayable=False, timeout=240, soft=("l_q=dl/dq*",), soft_timeout=240,
             witness=conc_witness(_revolute(2), "real Revolute(axis=2) between two RigidBodies"))(_fn)


# ------------------------------------------------------------------ client side


def _force_law(cls, form, shape):
    def c(k):
        k.covers(fb.ScalarForceLawBase.la_c, fb.ScalarForceLawBase.la_c_q, fb.ScalarForceLawBase.la_c_u, fb.ScalarForceLawBase._h, fb.ScalarForceLawBase._h_q, fb.ScalarForceLawBase._h_u,
                 fb.ScalarForceLawComplianceForm.W_c, fb.ScalarForceLawComplianceForm.Wla_c_q, cls._la_c, cls._la_c_l, cls._la_c_l_dot, cls._c, cls._c_l, cls._c_l_dot, cls.c_la_c)
        s = scalar_provider(k, shape)
        kk = k.real("k", sample=lambda g: g.uniform(0.5, 5))
        k.assume(kk > 0)
        l_ref = k.real("l_ref")
        if cls is Spring:
            f = Spring(s, kk, l_ref=l_ref, compliance_form=(form == "compliance"))
        else:
            d = k.real("d", sample=lambda g: g.uniform(0.1, 3))
            k.assume(d > 0)
            f = KelvinVoigtElement(s, kk, d, l_ref=l_ref, compliance_form=(form == "compliance"))
        f.assembler_callback()
        t, q, u = s.t, s.q, s.u
        la = k.real("la_c")
        k.prove_eq("la_c_q=d la_c/dq", f.la_c_q(t, q, u), s.d_q(lambda t_, q_, u_: f.la_c(t_, q_, u_))[0])
        k.prove_eq("la_c_u=d la_c/du", f.la_c_u(t, q, u), s.d_u(lambda t_, q_, u_: f.la_c(t_, q_, u_))[0])
        if form == "force":
            k.prove_eq("h_q=dh/dq", f.h_q(t, q, u), s.d_q(lambda t_, q_, u_: f.h(t_, q_, u_)))
            k.prove_eq("h_u=dh/du", f.h_u(t, q, u), s.d_u(lambda t_, q_, u_: f.h(t_, q_, u_)))
        else:
            lav = np.array([la])
            k.prove_eq("c_q=dc/dq", np.atleast_1d(f.c_q(t, q, u, la)), s.d_q(lambda t_, q_, u_: f.c(t_, q_, u_, la))[0])
            k.prove_eq("c_u=dc/du", np.atleast_1d(f.c_u(t, q, u, la)), s.d_u(lambda t_, q_, u_: f.c(t_, q_, u_, la))[0])
            k.prove_eq("c_la_c=dc/dla_c", f.c_la_c(), k.jac(lambda la_: np.atleast_1d(f.c(t, q, u, la_[0])), lav)[0, 0])
            k.prove_eq("Wla_c_q=d(W_c la_c)/dq", f.Wla_c_q(t, q, la), s.d_q(lambda t_, q_: f.W_c(t_, q_) @ lav))

    return c


for _cls in (Spring, KelvinVoigtElement):
    for _form in ("force", "compliance"):
        for _shape in ("twopoint", "revolute"):
            _fn = _force_law(_cls, _form, _shape)
            contract("C08", f"{_cls.__name__}[{_form},{_shape}]/jacobians", samples=0, replayable=False, timeout=60, witness=conc_witness(_fn, f"{_cls.__name__} on a real {'TwoPointInteraction' if _shape == 'twopoint' else 'Revolute'}"))(_fn)


def _maxwell(shape):
    def c(k):
        k.covers(MaxwellElement.assembler_callback, MaxwellElement.q_dot, MaxwellElement.q_dot_q, MaxwellElement.q_dot_u, MaxwellElement.force, MaxwellElement.h, MaxwellElement.h_q)
        s = scalar_provider(k, shape)
        kk, eta, l_ref = k.real("k", sample=lambda g: g.uniform(0.5, 5)), k.real("eta", sample=lambda g: g.uniform(0.5, 5)), k.real("l_ref")
        k.assume(kk > 0)
        k.assume(eta > 0)
        m = MaxwellElement(s, kk, eta, l_ref=l_ref)
        m.my_qDOF = np.array([0])
        m.assembler_callback()
        ld = k.reals("l_d", 1)
        u, t = s.u, s.t
        full = lambda q_: np.concatenate([ld, q_])
        # derivative w.r.t. the subsystem coordinates and w.r.t. the internal coordinate l_d
        hq = m.h_q(t, full(s.q), u)
        k.prove_eq("h_q[:,1:]=dh/dq_sub", hq[:, 1:], s.d_q(lambda t_, q_, u_: np.asarray(m.h(t_, full(q_), u_))))
        k.prove_eq("h_q[:,0]=dh/dl_d", hq[:, 0], k.jac(lambda ld_: np.asarray(m.h(t, np.concatenate([ld_, s.q]), u)), ld)[:, 0])
        qdq = np.atleast_1d(m.q_dot_q(t, full(s.q), u))
        k.prove_eq("q_dot_q[1:]=d q_dot/dq_sub", qdq[1:], s.d_q(lambda t_, q_, u_: m.q_dot(t_, full(q_), u_))[0])
        k.prove_eq("q_dot_q[0]=d q_dot/dl_d", qdq[0], k.jac(lambda ld_: np.atleast_1d(m.q_dot(t, np.concatenate([ld_, s.q]), u)), ld)[0, 0])
        k.prove_eq("q_dot_u=d q_dot/du", np.atleast_1d(m.q_dot_u(t, full(s.q))), s.d_u(lambda t_, q_, u_: m.q_dot(t_, full(q_), u_))[0])

    return c


_fn = _maxwell("twopoint")
contract("C08", "MaxwellElement[twopoint]/jacobians", samples=0, replayable=False, witness=conc_witness(_fn, "MaxwellElement on a real TwoPointInteraction"))(_fn)
_fn = _maxwell("revolute")
contract("C08", "MaxwellElement[revolute]/jacobians", tiers=("thorough",), samples=0, replayable=False, witness=conc_witness(_fn, "MaxwellElement on a real Revolute"))(_fn)


def _actuator(kind):
    def c(k):
        k.covers(ab.BaseActuator.assembler_callback, ab.BaseActuator.la_tau_q, ab.BaseActuator.la_tau_u, ab.BaseActuator.Wla_tau_q, ab.BaseActuator.Wla_tau_u)
        s = scalar_provider(k, "revolute")  # actuators act on revolute joints
        t, u = s.t, s.u
        tau = k.reals("tau", 2)
        ie = k.reals("int_err", 1)
        if kind == "Motor":
            act = Motor(s, tau[0])
            k.covers(Motor.la_tau)
            full = lambda q_: q_
        elif kind == "PD":
            act = PDcontroller(s, k.real("kp"), k.real("kd"), tau)
            k.covers(PDcontroller.la_tau, PDcontroller.la_tau_q, PDcontroller.la_tau_u)
            full = lambda q_: q_
        else:
            act = PIDcontroller(s, k.real("kp"), k.real("ki"), k.real("kd"), tau)
            k.covers(PIDcontroller.assembler_callback, PIDcontroller.q_dot, PIDcontroller.q_dot_q, PIDcontroller.W_tau, PIDcontroller.W_tau_q, PIDcontroller.la_tau, PIDcontroller.la_tau_q, PIDcontroller.la_tau_u)
            act.my_qDOF = np.array([0])
            full = lambda q_: np.concatenate([ie, q_])
        act.assembler_callback()
        o = 1 if kind == "PID" else 0
        q = full(s.q)
        la_fn = lambda t_, q_, u_: np.asarray(act.la_tau(t_, full(q_), u_)).reshape(-1)
        W_fn = lambda t_, q_: np.asarray(act.W_tau(t_, full(q_))).reshape(len(u), -1)
        k.prove_eq("la_tau_q=d la_tau/dq_sub", np.atleast_2d(act.la_tau_q(t, q, u))[:, o:], s.d_q(la_fn))
        k.prove_eq("la_tau_u=d la_tau/du", np.atleast_2d(act.la_tau_u(t, q, u)), s.d_u(la_fn))
        k.prove_eq("Wla_tau_q=d(W_tau la_tau)/dq_sub", act.Wla_tau_q(t, q, u)[:, o:], s.d_q(lambda t_, q_, u_: W_fn(t_, q_) @ la_fn(t_, q_, u_)))
        k.prove_eq("Wla_tau_u=d(W_tau la_tau)/du", act.Wla_tau_u(t, q, u), s.d_u(lambda t_, q_, u_: W_fn(t_, q_) @ la_fn(t_, q_, u_)))
        if kind == "PID":
            k.prove_eq("la_tau_q[:,0]=d la_tau/d int_err", np.atleast_2d(act.la_tau_q(t, q, u))[:, 0], k.jac(lambda ie_: np.asarray(act.la_tau(t, np.concatenate([ie_, s.q]), u)).reshape(-1), ie)[:, 0])
            k.prove_eq("Wla_tau_q[:,0]=d(W_tau la_tau)/d int_err", act.Wla_tau_q(t, q, u)[:, 0], k.jac(lambda ie_: W_fn(t, s.q) @ np.asarray(act.la_tau(t, np.concatenate([ie_, s.q]), u)).reshape(-1), ie)[:, 0])
            k.prove_eq("W_tau_q=dW_tau/dq_sub", act.W_tau_q(t, q)[:, :, 1:], s.d_q(lambda t_, q_: np.asarray(act.W_tau(t_, full(q_)))))
            k.prove_eq("W_tau_q[:,:,0]=0", act.W_tau_q(t, q)[:, :, 0], np.zeros((len(u), 1)))
            qdq = np.atleast_1d(act.q_dot_q(t, q, u))
            k.prove_eq("q_dot_q[1:]=d q_dot/dq_sub", qdq[1:], s.d_q(lambda t_, q_, u_: act.q_dot(t_, full(q_), u_))[0])
            k.prove_eq("q_dot_q[0]=0", qdq[0], 0)

    return c


for _kind in ("Motor", "PD", "PID"):
    _fn = _actuator(_kind)
    contract("C08", f"{_kind}/jacobians", samples=0, replayable=False, witness=conc_witness(_fn, f"{_kind} on a real Revolute"))(_fn)


# ---------------------------------------------------------------------- forces
def _force(cls):
    def c(k):
        _sym_only(k)
        k.covers(cls.__init__, cls.assembler_callback, cls.h, cls.h_q)
        pair = stub_pair(("body", "frame"), sizes=((3, 2), (0, 0)))
        s, t, q, u = pair.s1, pair.t, pair.q, pair.u
        F, F_t, _ = k.timefun("F", 3, t)  # arbitrary time-dependent load
        if cls in (Force, B_Force):
            f = cls(F, s, xi=None, B_r_CP=S.symarray("B", 3))
        else:
            f = cls(F, s, xi=None)
        f.assembler_callback()
        k.prove_eq("h_q=dh/dq", f.h_q(t, q, u), pair.d_q(lambda t_, q_, u_: f.h(t_, q_, u_)))
        k.prove_eq("dh/du=0 (no h_u needed)", pair.d_u(lambda t_, q_, u_: f.h(t_, q_, u_)), np.zeros((len(u), len(u))))

    return c


for _cls in (Force, B_Force, Moment, B_Moment):
    contract("C08", f"{_cls.__name__}/h_q", samples=0, replayable=False)(_force(_cls))
