"""C14 - System assembly is a faithful, repeatable scatter of its contributions.

  scatter    every System evaluation routine (q_dot ... Wla_F_q) is executed for real on dummy
             contributions that return symbolic blocks, with overlapping DOF sets (a joint-like
             contribution acting on the coordinates of two bodies); the result must equal the
             sum of the blocks placed at the contribution's DOFs (spec computed independently).
  layout     assemble(): per-kind index sets are consecutive, disjoint and cover [0, n); a second
             assemble() leaves layout and evaluations unchanged.  Contribution sizes are enumerated
             (bounded), block values symbolic.
  registry   add / remove / pop / extend keep  keys(map) = names(contributions), map[name] is that
             contribution, names pairwise distinct  - proved as an inductive invariant by exhaustive
             enumeration of all abstract states with <= 3 contributions over a name alphabet that
             contains the renaming pattern, times every operation (labelled exhaustive-enumeration).
"""

import itertools

import numpy as np

import cardillo.system as csys
from cardillo.system import System
from vk.registry import contract, static

LEVEL = "proof"
TRUSTED = [
    "consistent_initial_conditions is stubbed during assemble() in these contracts (it is the subject of C16)",
    "contribution counts and block sizes are enumerated (bounded); block values are symbolic",
    "registry invariant: exhaustive over abstract states with <= 3 contributions and the name alphabet {None, a, b, a_contr1, a_contr2, a_contr3}",
]
EXPLANATION = "symbolic scatter obligations on the real System methods with dummy contributions; exhaustive enumeration for the registry invariant"

# (system method, local method or None if same, row DOF attribute, column DOF attribute or None for vectors, argument kinds)
VEC = [
    ("q_dot", "my_qDOF", "tqu"), ("h", "uDOF", "tqu"), ("la_c", "la_cDOF", "tqu"), ("c", "la_cDOF", "tquc"), ("la_tau", "la_tauDOF", "tqu"),
    ("g", "la_gDOF", "tq"), ("g_dot", "la_gDOF", "tqu"), ("g_ddot", "la_gDOF", "tquu"), ("gamma", "la_gammaDOF", "tqu"), ("gamma_dot", "la_gammaDOF", "tquu"),
    ("g_S", "la_SDOF", "tq"), ("g_N", "la_NDOF", "tq"), ("g_N_dot", "la_NDOF", "tqu"), ("g_N_ddot", "la_NDOF", "tquu"), ("gamma_F", "la_FDOF", "tqu"),
    ("gamma_F_dot", "la_FDOF", "tquu"),
]
MAT = [
    ("q_dot_q", "my_qDOF", "qDOF", "tqu"), ("q_dot_u", "my_qDOF", "uDOF", "tq"), ("Mu_q", "uDOF", "qDOF", "tqu"), ("h_q", "uDOF", "qDOF", "tqu"), ("h_u", "uDOF", "uDOF", "tqu"),
    ("c_q", "la_cDOF", "qDOF", "tquc"), ("c_u", "la_cDOF", "uDOF", "tquc"), ("W_c", "uDOF", "la_cDOF", "tq"), ("Wla_c_q", "uDOF", "qDOF", "tqc"),
    ("W_tau", "uDOF", "la_tauDOF", "tq"), ("Wla_tau_q", "uDOF", "qDOF", "tqu"), ("Wla_tau_u", "uDOF", "uDOF", "tqu"),
    ("g_q", "la_gDOF", "qDOF", "tq"), ("W_g", "uDOF", "la_gDOF", "tq"), ("Wla_g_q", "uDOF", "qDOF", "tqg"), ("g_dot_u", "la_gDOF", "uDOF", "tq"), ("g_dot_q", "la_gDOF", "qDOF", "tqu"),
    ("gamma_q", "la_gammaDOF", "qDOF", "tqu"), ("gamma_u", "la_gammaDOF", "uDOF", "tq"), ("gamma_dot_q", "la_gammaDOF", "qDOF", "tquu"), ("gamma_dot_u", "la_gammaDOF", "uDOF", "tquu"),
    ("W_gamma", "uDOF", "la_gammaDOF", "tq"), ("Wla_gamma_q", "uDOF", "qDOF", "tqG"), ("g_S_q", "la_SDOF", "qDOF", "tq"),
    ("g_N_q", "la_NDOF", "qDOF", "tq"), ("W_N", "uDOF", "la_NDOF", "tq"), ("Wla_N_q", "uDOF", "qDOF", "tqN"),
    ("gamma_F_q", "la_FDOF", "qDOF", "tqu"), ("W_F", "uDOF", "la_FDOF", "tq"), ("gamma_F_dot_q", "la_FDOF", "qDOF", "tquu"), ("gamma_F_dot_u", "la_FDOF", "uDOF", "tquu"),
    ("Wla_F_q", "uDOF", "qDOF", "tqF"),
]
SIZE_OF = {"my_qDOF": "nq", "qDOF": "nqx", "uDOF": "nu", "la_cDOF": "nla_c", "la_tauDOF": "nla_tau", "la_gDOF": "nla_g", "la_gammaDOF": "nla_gamma", "la_SDOF": "nla_S", "la_NDOF": "nla_N", "la_FDOF": "nla_F"}


class Dummy:
    """contribution with every local routine; returns blocks handed out by the contract"""

    def __init__(self, name, sizes, blocks, extra_q=None):
        self.name = name
        for kk, v in sizes.items():
            if v:
                setattr(self, kk, v)
        self.sizes = sizes
        self.q0 = np.zeros(sizes.get("nq", 0))
        self.u0 = np.zeros(sizes.get("nu", 0))
        self.e_N = np.zeros(sizes.get("nla_N", 0))
        self.e_F = np.zeros(sizes.get("nla_F", 0))
        self.friction_laws = []
        self.blocks = blocks
        self.extra_q = extra_q  # other contribution whose coordinates this one also acts on (joint-like)
        self.constant_mass_matrix = False

    def assembler_callback(self):
        if self.extra_q is not None:
            mine_q = getattr(self, "my_qDOF", np.array([], dtype=int))
            mine_u = getattr(self, "my_uDOF", np.array([], dtype=int))
            self.qDOF = np.concatenate([mine_q, self.extra_q.my_qDOF])
            self.uDOF = np.concatenate([mine_u, self.extra_q.my_uDOF])

    def c_la_c(self):
        return self.blocks(self, "c_la_c", (self.sizes.get("nla_c", 0), self.sizes.get("nla_c", 0)))

    def M(self, t, q):
        n = len(self.uDOF)
        return self.blocks(self, "M", (n, n))

    def E_pot(self, t, q):
        return self.blocks(self, "E_pot", ())

    def E_kin(self, t, q, u):
        return self.blocks(self, "E_kin", ())

    def step_callback(self, t, q, u):
        return q, u

    def tau(self, t):
        return self.blocks(self, "tau", (self.sizes.get("ntau", 0),))


def _size(d, attr):
    return len(getattr(d, attr))


for _name, _row, _args in VEC:
    def _mk(nm=_name, row=_row):
        def f(self, *a):
            return self.blocks(self, nm, (_size(self, row),))
        return f
    setattr(Dummy, _name, _mk())
for _name, _row, _col, _args in MAT:
    def _mk(nm=_name, row=_row, col=_col):
        def f(self, *a):
            return self.blocks(self, nm, (_size(self, row), _size(self, col)))
        return f
    setattr(Dummy, _name, _mk())


def _assemble(sysm):
    saved = csys.consistent_initial_conditions
    csys.consistent_initial_conditions = lambda system, *a_, **kw: (system.t0, system.q0, system.u0, None, None, None, None, None, None, None)
    try:
        sysm.assemble()
    finally:
        csys.consistent_initial_conditions = saved


def _dense(m):
    return m.toarray() if hasattr(m, "toarray") else np.asarray(m)


def _build(k, layout):
    """layout: list of size dicts; the last contribution also acts on the first one's coordinates."""
    store = {}
    counter = [0]
    pool = k.reals("blk", 4000, sample=lambda g: g.normal(size=4000))

    def blocks(d, name, shape):
        key = (d.name, name)
        if key not in store:
            n = int(np.prod(shape)) if shape else 1
            vals = pool[counter[0] : counter[0] + n]
            counter[0] += n
            store[key] = vals.reshape(shape) if shape else vals[0]
        return store[key]

    sysm = System()
    ds = []
    for i, sz in enumerate(layout):
        acts_on_q = sz.get("nq", 0) > 0 or (i == len(layout) - 1 and len(layout) > 1)
        have = {"my_qDOF": sz.get("nq", 0) > 0, "qDOF": acts_on_q, "uDOF": acts_on_q or sz.get("nu", 0) > 0}
        for attr, szname in SIZE_OF.items():
            if attr not in have:
                have[attr] = sz.get(szname, 0) > 0
        ns = {}
        for name, row, kind in VEC:
            if have[row] and (name != "h" or have["uDOF"]):
                ns[name] = getattr(Dummy, name)
        for name, row, col, kind in MAT:
            if have[row] and have[col]:
                ns[name] = getattr(Dummy, name)
        for extra, need in (("M", "uDOF"), ("E_pot", "qDOF"), ("E_kin", "uDOF"), ("c_la_c", "la_cDOF"), ("step_callback", "my_qDOF"), ("assembler_callback", "qDOF")):
            if have[need]:
                ns[extra] = getattr(Dummy, extra)
        if sz.get("ntau", 0):
            ns["tau"] = Dummy.tau
        cls = type(f"Dummy{i}", (), dict(ns, __init__=Dummy.__init__))
        ds.append(cls(f"d{i}", sz, blocks, extra_q=None))
    if len(ds) > 1:
        ds[-1].extra_q = ds[0]
    sysm.add(*ds)
    _assemble(sysm)
    return sysm, ds, store


LAYOUTS = [
    [dict(nq=2, nu=2, nla_c=1, nla_g=1, nla_S=1), dict(nq=1, nu=1, nla_tau=1, ntau=1, nla_gamma=1, nla_N=1, nla_F=2), dict(nq=1, nu=2, nla_g=2, nla_c=1, nla_N=1, nla_F=2, nla_gamma=1, nla_S=1, nla_tau=1, ntau=1)],
    [dict(nq=3, nu=2, nla_g=1), dict(nq=0, nu=0, nla_g=2, nla_N=1, nla_F=2, nla_c=1, nla_gamma=1, nla_S=1, nla_tau=1, ntau=1)],
]


def _scatter(layout_i):
    def c(k):
        k.covers(*[getattr(System, n) for n, *_ in VEC + MAT] + [System.assemble, System.M, System.E_pot, System.E_kin, System.c_la_c, System.xi_N, System.xi_F, System.xi_N_q, System.xi_F_q])
        sysm, ds, store = _build(k, LAYOUTS[layout_i])
        nq, nu = sysm.nq, sysm.nu
        t = 0.0
        q, u, ud = k.reals("q", nq), k.reals("u", nu), k.reals("ud", nu)
        mult = {"c": k.reals("lac", sysm.nla_c), "g": k.reals("lag", sysm.nla_g), "G": k.reals("lagam", sysm.nla_gamma), "N": k.reals("laN", sysm.nla_N), "F": k.reals("laF", sysm.nla_F)}
        total = {"my_qDOF": nq, "qDOF": nq, "uDOF": nu, "la_cDOF": sysm.nla_c, "la_tauDOF": sysm.nla_tau, "la_gDOF": sysm.nla_g, "la_gammaDOF": sysm.nla_gamma, "la_SDOF": sysm.nla_S, "la_NDOF": sysm.nla_N, "la_FDOF": sysm.nla_F}

        def args(kind):
            out = []
            for ch in kind:
                out.append({"t": t, "q": q, "u": u}.get(ch) if ch in "tq" else (u if ch == "u" and len([x for x in out if x is u]) == 0 else ud) if ch == "u" else mult[ch])
            return out

        zero = lambda shape: np.zeros(shape, dtype=object if k.sym else float)
        for name, row, kind in VEC:
            ok, val = k.no_raise(f"System.{name} returns", lambda name=name, kind=kind: getattr(sysm, name)(*args(kind)))
            if not ok:
                continue
            spec = zero(total[row])
            for d in ds:
                if hasattr(d, row) and (d.name, name) in store:
                    spec[getattr(d, row)] = spec[getattr(d, row)] + store[(d.name, name)]
            k.prove_eq(f"{name} = sum of placed blocks", val, spec, tol=1e-12)
        for name, row, col, kind in MAT:
            ok, val = k.no_raise(f"System.{name} returns", lambda name=name, kind=kind: _dense(getattr(sysm, name)(*args(kind), format="csr")))
            if not ok:
                continue
            spec = zero((total[row], total[col]))
            for d in ds:
                if (d.name, name) in store and hasattr(d, row) and hasattr(d, col):
                    R, C = getattr(d, row), getattr(d, col)
                    for a, r in enumerate(R):
                        for b, cc in enumerate(C):
                            spec[r, cc] = spec[r, cc] + store[(d.name, name)][a, b]
            k.prove_eq(f"{name} = sum of placed blocks", val, spec, tol=1e-12)
        # mass matrix (constant and variable parts), energies, compliance matrix
        Mval = _dense(sysm.M(t, q, format="csr"))
        Mspec = zero((nu, nu))
        for d in ds:
            if (d.name, "M") in store:
                U = d.uDOF
                for a, r in enumerate(U):
                    for b, cc in enumerate(U):
                        Mspec[r, cc] = Mspec[r, cc] + store[(d.name, "M")][a, b]
        k.prove_eq("M = sum of placed blocks", Mval, Mspec, tol=1e-12)
        k.prove_eq("E_pot = sum", sysm.E_pot(t, q), sum(store[(d.name, "E_pot")] for d in ds if (d.name, "E_pot") in store), tol=1e-12)
        k.prove_eq("E_kin = sum", sysm.E_kin(t, q, u), sum(store[(d.name, "E_kin")] for d in ds if (d.name, "E_kin") in store), tol=1e-12)
        # layout: index sets partition
        for attr, tot in total.items():
            if attr == "qDOF":
                continue
            owned = [getattr(d, "my_qDOF" if attr == "my_qDOF" else ("my_uDOF" if attr == "uDOF" else attr)) for d in ds if hasattr(d, "my_qDOF" if attr == "my_qDOF" else ("my_uDOF" if attr == "uDOF" else attr))]
            flat = np.concatenate(owned) if owned else np.array([], dtype=int)
            k.prove(f"{attr}: index sets are consecutive, disjoint and cover [0, {tot})", list(flat) == list(range(tot)))
        # repeatability
        before = {d.name: {a: np.array(getattr(d, a)).copy() for a in SIZE_OF if hasattr(d, a)} for d in ds}
        h1 = sysm.h(t, q, u)
        _assemble(sysm)
        same = all(np.array_equal(getattr(d, a), v) for d in ds for a, v in before[d.name].items()) and (sysm.nq, sysm.nu) == (nq, nu)
        k.prove("second assemble leaves the layout unchanged", same)
        k.prove_eq("second assemble leaves evaluations unchanged", sysm.h(t, q, u), h1, tol=0)

    return c


for _i in range(len(LAYOUTS)):
    contract("C14", f"System/scatter[layout={_i}]", samples=1, timeout=60)(_scatter(_i))


# --------------------------------------------------------------------------- registry invariant
class _C:
    def __init__(self, name):
        if name is not None:
            self.name = name


def _inv(sysm):
    names = [getattr(c, "name", None) for c in sysm.contributions]
    if any(n is None for n in names):
        return False, "contribution without a name"
    if len(set(names)) != len(names):
        return False, f"duplicate names {names}"
    if set(sysm.contributions_map.keys()) != set(names):
        return False, f"registry keys {sorted(sysm.contributions_map)} != names {sorted(names)}"
    for c in sysm.contributions:
        if sysm.contributions_map[c.name] is not c:
            return False, f"registry maps {c.name} to another object"
    return True, ""


COVERS_STATIC = [System.add, System.remove, System.pop, System.extend, System.assemble]


@static("C14", "System/registry-invariant")
def s_registry(tier):
    alphabet = ["a", "b", "a_contr1", "a_contr2", "a_contr3"]
    results = []
    failures = []
    n_states = n_ops = 0
    for size in range(0, 4):
        for names in itertools.permutations(alphabet, size):
            for ncontr in range(size + 1, size + 3):
                def fresh():
                    s = System.__new__(System)
                    s.contributions = [_C(n) for n in names]
                    s.contributions_map = {c.name: c for c in s.contributions}
                    s.ncontr = ncontr
                    return s

                assert _inv(fresh())[0]
                n_states += 1
                ops = []
                for nm in alphabet + [None]:
                    ops.append((f"add(new '{nm}')", lambda s, nm=nm: s.add(_C(nm))))
                    ops.append((f"extend([new '{nm}', new 'b'])", lambda s, nm=nm: s.extend([_C(nm), _C("b")])))
                for i in range(size):
                    ops.append((f"remove(contribution {i})", lambda s, i=i: s.remove(s.contributions[i])))
                    ops.append((f"pop({i})", lambda s, i=i: s.pop(i)))
                    ops.append((f"add(existing {i})", lambda s, i=i: s.add(s.contributions[i])))
                for label, op in ops:
                    s = fresh()
                    n_ops += 1
                    try:
                        import contextlib, io

                        with contextlib.redirect_stdout(io.StringIO()):
                            op(s)
                    except ValueError:
                        pass  # explicit rejection (already added / not present) must leave the state intact
                    ok, why = _inv(s)
                    if not ok:
                        failures.append({"state": list(names), "ncontr": ncontr, "operation": label, "why": why})
    by_op = {}
    for f in failures:
        by_op.setdefault(f["operation"].split("(")[0], []).append(f)
    for opname in ("add", "extend", "remove", "pop"):
        fs = by_op.get(opname, [])
        results.append({"name": f"{opname} preserves the registry invariant", "ok": not fs, "backend": "exhaustive-enumeration", "show": f"{n_states} abstract states x operations ({n_ops} transitions)", "detail": str(fs[:2]), "replay": fs[0] if fs else None})
    return results


# --------------------------------------------------------------------------- contribution side of "repeatable"
# The scatter/layout contracts above run System.assemble on dummy contributions whose assembler_callback is trivially
# idempotent.  What System.assemble relies on from the REAL contributions - a second assembler_callback with nothing
# changed leaves every quantity they evaluate unchanged, and an assembled-twice system agrees with a freshly built one -
# is discharged here on real systems that together contain every class of cardillo that defines assembler_callback
# (the list is extracted from the current source; a class no scene contains is reported in the obligation's text).
_EVAL_ARGS = ("t", "q", "u", "u_dot", "la_g", "la_gamma", "la_c", "la_N", "la_F")
_EVAL_SKIP = {"assembler_callback", "deepcopy", "reset", "step_callback", "assemble"}


def _real_scenes():
    """name -> builder() -> System (not assembled)"""
    from cardillo import System
    from cardillo.actuators import Motor, PDcontroller, PIDcontroller
    from cardillo.constraints import Cylindrical, FixedDistance, Prismatic, Revolute, RigidConnection, Spherical
    from cardillo.contacts import Sphere2Plane, Sphere2Sphere
    from cardillo.discrete import Frame, PointMass, RigidBody
    from cardillo.force_laws import KelvinVoigtElement, MaxwellElement, Spring
    from cardillo.forces import B_Force, B_Moment, Force, Moment
    from cardillo.interactions import TwoPointInteraction
    from cardillo.rods import CircularCrossSection, CrossSectionInertias, Simo1986
    from cardillo.rods.cosseratRod import make_CosseratRod
    from cardillo.rods.force_line_distributed import Force_line_distributed
    from cardillo.utility.sensor import Sensor

    def mechanism():
        s = System()
        b1 = RigidBody(1.0, np.diag([0.1, 0.2, 0.3]), q0=np.array([0.5, 0, 0, 1, 0, 0, 0.0]), name="b1")
        b2 = RigidBody(2.0, np.diag([0.3, 0.2, 0.1]), q0=np.array([1.5, 0, 0, 1, 0, 0, 0.0]), name="b2")
        b3 = RigidBody(1.5, np.diag([0.2, 0.2, 0.1]), q0=np.array([1.5, 0, -1.0, 1, 0, 0, 0.0]), name="b3")
        b4 = RigidBody(1.5, np.diag([0.2, 0.2, 0.1]), q0=np.array([1.5, 0.8, -1.0, 1, 0, 0, 0.0]), name="b4")
        pm = PointMass(0.7, q0=np.array([0.0, 2.0, 0.0]), name="pm")
        pm2 = PointMass(0.4, q0=np.array([0.0, 2.0, -1.0]), name="pm2")
        j1 = Revolute(s.origin, b1, axis=1, r_OJ0=np.zeros(3), angle0=0.2, name="j1")
        j2 = Revolute(b1, b2, axis=1, r_OJ0=np.array([1.0, 0, 0]), name="j2")
        j3 = Revolute(b2, b3, axis=1, r_OJ0=np.array([1.5, 0, -0.5]), name="j3")
        b5 = RigidBody(0.5, np.diag([0.1, 0.1, 0.1]), q0=np.array([1.5, 1.6, -1.0, 1, 0, 0, 0.0]), name="b5")
        j5 = Spherical(b4, b5, r_OJ0=np.array([1.5, 1.2, -1.0]), name="j5")
        j4 = Cylindrical(b3, b4, axis=1)
        tp = TwoPointInteraction(b1, b2, B_r_CP1=np.array([0, 0.1, 0.2]), B_r_CP2=np.array([0.1, 0, -0.1]), name="tp")
        tp2 = TwoPointInteraction(s.origin, pm, name="tp2")
        parts = [
            b1, b2, b3, b4, b5, pm, pm2, j1, j2, j3, j4, j5,
            FixedDistance(pm, pm2),
            Spring(j2, 5.0, compliance_form=False, name="torsion"),
            Spring(tp, 3.0, l_ref=0.0, compliance_form=True, name="zero_length_spring"),
            MaxwellElement(tp2, 4.0, 0.6, name="maxwell"),
            KelvinVoigtElement(TwoPointInteraction(b3, pm, name="tp3"), 2.0, 0.3, compliance_form=True, name="kv"),
            PIDcontroller(j1, 1.0, 0.5, 0.1, lambda t: np.array([0.3 * t, 0.3])),
            PDcontroller(j2, 1.0, 0.2, np.array([0.1, 0.0])),
            Motor(j3, 0.4),
            Force(np.array([0, 0, -9.81]), b1, name="g1"), B_Force(lambda t: np.array([0.1 * t, 0, 0.2]), b2, B_r_CP=np.array([0.1, 0.2, 0]), name="bf"),
            Moment(np.array([0, 0.3, 0]), b3, name="m"), B_Moment(lambda t: np.array([0, 0.1, t]), b4, name="bm"),
            Sphere2Plane(Frame(r_OP=np.array([0, 0, -50.0])), b2, 0.3, r=0.1, e_N=0.2, name="s2p"),
            Sphere2Sphere(b4, pm2, 0.1, 0.1, 0.2, e_N=0.1, name="s2s"),
            Sensor(b2, B_r_PQ=np.array([0.1, 0, 0]), name="sensor"),
        ]
        s.add(*parts)
        return s

    def rod_scene(interp, mixed, constraints):
        def build():
            s = System()
            Rod = make_CosseratRod(interpolation=interp, mixed=mixed, constraints=constraints)
            Q = Rod.straight_configuration(3, 1.7)
            rod = Rod(CircularCrossSection(0.1), Simo1986(np.array([5.0, 1.0, 1.5]), np.array([0.5, 0.1, 0.15])), 3, Q=Q, q0=Q.copy(), cross_section_inertias=CrossSectionInertias(A_rho0=2.0, B_I_rho0=np.diag([0.3, 0.2, 0.25])), name="rod")
            s.add(rod, RigidConnection(s.origin, rod, xi2=(0,), name="clamp"), Force(np.array([0, 0.2, -0.1]), rod, (1,), name="tip"), Force_line_distributed(lambda t, xi: np.array([0, 0, -0.3 * (1 + xi)]), rod), Sensor(rod, xi=0.5, name="sensor"))
            return s

        return build

    scenes = {"mechanism (bodies, joints, force laws, actuators, contacts, sensor)": mechanism}
    for interp, mixed, constraints in (("Quaternion", True, None), ("Quaternion", False, None), ("SE3", True, (1, 2)), ("R12", False, (0, 1, 2))):
        scenes[f"rod[{interp}, mixed={mixed}, constraints={constraints}]"] = rod_scene(interp, mixed, constraints)
    return scenes


def _classes_with_assembler_callback():
    import importlib
    import inspect
    import pkgutil

    import cardillo

    out = {}
    for m in pkgutil.walk_packages(cardillo.__path__, "cardillo."):
        if ".urdf" in m.name or "visualization" in m.name:
            continue
        try:
            mod = importlib.import_module(m.name)
        except Exception:  # noqa: BLE001
            continue
        for n, c in inspect.getmembers(mod, inspect.isclass):
            if c.__module__ == mod.__name__ and "assembler_callback" in vars(c):
                out[f"{c.__module__}.{c.__qualname__}"] = c
    return out


def _evaluate_all(sysm, rng):
    """every System evaluation routine whose arguments are state/multiplier vectors, at one random state"""
    import inspect

    vals = dict(t=0.37, q=sysm.q0 + 0.05 * rng.normal(size=sysm.nq), u=rng.normal(size=sysm.nu), u_dot=rng.normal(size=sysm.nu), la_g=rng.normal(size=sysm.nla_g), la_gamma=rng.normal(size=sysm.nla_gamma), la_c=rng.normal(size=sysm.nla_c), la_N=rng.normal(size=sysm.nla_N), la_F=rng.normal(size=sysm.nla_F))
    out = {}
    for n, f in inspect.getmembers(type(sysm), inspect.isfunction):
        ps = [p for p in inspect.signature(f).parameters if p not in ("self", "format")]
        if n.startswith("_") or n in _EVAL_SKIP or not set(ps) <= set(_EVAL_ARGS):
            continue
        try:
            v = getattr(sysm, n)(*[vals[p] for p in ps])
        except Exception as e:  # noqa: BLE001  (an evaluation the scene does not support must fail the same way both times)
            v = f"raised {type(e).__name__}"
        out[n] = _dense(v) if not isinstance(v, str) else v
    out["layout"] = np.concatenate([np.concatenate([np.atleast_1d(np.asarray(getattr(c, a, []), dtype=float)).ravel() for a in ("qDOF", "uDOF", "la_gDOF", "la_gammaDOF", "la_cDOF", "la_NDOF", "la_FDOF", "la_SDOF", "la_tauDOF")]) for c in sysm.contributions])
    return out


def _same(a, b):
    if isinstance(a, str) or isinstance(b, str):
        return a == b if isinstance(a, str) and isinstance(b, str) else False
    a, b = np.asarray(a, dtype=float), np.asarray(b, dtype=float)
    return a.shape == b.shape and bool(np.array_equal(a, b))


@contract("C14", "real contributions/a second assemble() with nothing changed leaves every evaluation unchanged", samples=0, replayable=False, timeout=60)
def c_reassembly_real(k):
    from vk import kit as K
    from vk import npshim

    if not k.sym:
        raise K.Reject("decided by native execution")
    import contextlib
    import io
    import warnings

    classes = _classes_with_assembler_callback()
    k.covers(*[c.assembler_callback for c in classes.values()])
    used = set()
    with npshim.active(False), warnings.catch_warnings(), contextlib.redirect_stdout(io.StringIO()):
        warnings.simplefilter("ignore")
        for name, build in _real_scenes().items():
            s = build()
            for c in s.contributions:
                for cls in type(c).__mro__:
                    used.add(f"{cls.__module__}.{cls.__qualname__}")
                sub = getattr(c, "subsystem", None)
                for cls in type(sub).__mro__ if sub is not None else ():
                    used.add(f"{cls.__module__}.{cls.__qualname__}")
            ok, _ = k.no_raise(f"{name}: assemble", s.assemble)
            if not ok:
                continue
            first = _evaluate_all(s, np.random.default_rng(5))
            s.assemble()
            second = _evaluate_all(s, np.random.default_rng(5))
            s.assemble()
            third = _evaluate_all(s, np.random.default_rng(5))
            fresh_sys = build()
            fresh_sys.assemble()
            fresh = _evaluate_all(fresh_sys, np.random.default_rng(5))
            for key in first:
                k.prove(f"{name}: {key} is unchanged by a second and a third assemble()", _same(first[key], second[key]) and _same(first[key], third[key]), show=f"max deviation {np.max(np.abs(np.asarray(first[key], dtype=float) - np.asarray(third[key], dtype=float))) if not isinstance(first[key], str) and np.shape(first[key]) == np.shape(third[key]) and np.size(first[key]) else 'n/a'}")
                k.prove(f"{name}: {key} of the re-assembled system equals that of a freshly built one", _same(third[key], fresh[key]))
    missing = sorted(set(classes) - used - {"cardillo.system.System"})
    # vacuity guard, not a clause of the property: a class added later that no scene contains is named here, it does not fail the check
    k.prove("vacuity guard: the scenes exercise the assembler_callback of at least 18 classes", len(set(classes) & used) >= 18, show=f"{len(set(classes) & used)} of {len(classes)} classes; in no scene: {missing}")


@contract("C14", "real contributions/an integer-typed state denotes the same real values", samples=0, replayable=False, timeout=60)
def c_integer_state(k):
    """System.assemble stacks the initial coordinates of the contributions: all-integer q0 / u0 arrive as int64 arrays and
    are handed to every evaluation routine by the consistency check.  The scatter must not depend on the machine type of
    the state: every System evaluation routine returns for an integer-typed (t, q, u, u_dot, multipliers) what it returns
    for the same values as float64 (executed natively on the mechanism scene, which contains bodies, joints, force laws,
    actuators, contacts; the rod scenes are left out - integer nodal coordinates are degenerate rods)."""
    from vk import kit as K
    from vk import npshim

    if not k.sym:
        raise K.Reject("decided by native execution")
    import contextlib
    import inspect
    import io
    import warnings

    import cardillo.system as csys

    k.covers(csys.System.g, csys.System.g_S, csys.System.g_N, csys.System.W_g, csys.System.g_q, csys.System.W_N, csys.System.W_F)
    with npshim.active(False), warnings.catch_warnings(), contextlib.redirect_stdout(io.StringIO()):
        warnings.simplefilter("ignore")
        build = next(iter(_real_scenes().values()))
        s = build()
        s.assemble()
        rng = np.random.default_rng(2)
        ints = lambda n: rng.integers(-2, 3, size=n)  # noqa: E731
        q = ints(s.nq)
        for c in s.contributions:
            if type(c).__name__ == "RigidBody":
                q[c.my_qDOF[3:]] = [1, 2, 0, 1]  # a non-zero integer quaternion
        vals = dict(t=0, q=q, u=ints(s.nu), u_dot=ints(s.nu), la_g=ints(s.nla_g), la_gamma=ints(s.nla_gamma), la_c=ints(s.nla_c), la_N=ints(s.nla_N), la_F=ints(s.nla_F))
        valsf = {n: (np.asarray(v, dtype=float) if not np.isscalar(v) else float(v)) for n, v in vals.items()}
        n_checked = 0
        for n, f in inspect.getmembers(type(s), inspect.isfunction):
            ps = [p for p in inspect.signature(f).parameters if p not in ("self", "format")]
            if n.startswith("_") or n in _EVAL_SKIP or not set(ps) <= set(_EVAL_ARGS):
                continue
            try:
                want = np.asarray(_dense(getattr(s, n)(*[valsf[p] for p in ps])), dtype=float)
            except Exception:  # noqa: BLE001  (not implemented for this scene)
                continue
            try:
                got = np.asarray(_dense(getattr(s, n)(*[vals[p] for p in ps])), dtype=float)
                ok = got.shape == want.shape and bool(np.allclose(got, want, rtol=1e-12, atol=1e-12, equal_nan=True))
                how = "" if ok else (f"max deviation {np.nanmax(np.abs(got - want)):.3g}" if got.shape == want.shape else f"shape {got.shape} vs {want.shape}")
            except Exception as e:  # noqa: BLE001
                ok, how = False, f"raised {type(e).__name__}: {e}"
            n_checked += 1
            k.prove(f"System.{n}: integer-typed arguments give the result of the float-typed arguments", ok, show=how)
        k.prove("vacuity guard: at least 50 System routines compared", n_checked >= 50, show=str(n_checked))


@contract("C14", "real contributions/every output format of a System matrix is the same matrix", samples=0, replayable=False, timeout=60)
def c_formats_agree(k):
    """the scatter is stated for "each system-level matrix": whichever `format` is asked for (coo, csr, csc, array) the
    entries are the sums of the contributions' blocks - several contributions add at the same entries in the mechanism
    scene, so a conversion that does not accumulate duplicates shows (executed natively; the container itself is C15)"""
    from vk import kit as K
    from vk import npshim

    if not k.sym:
        raise K.Reject("decided by native execution")
    import contextlib
    import inspect
    import io
    import warnings

    with npshim.active(False), warnings.catch_warnings(), contextlib.redirect_stdout(io.StringIO()):
        warnings.simplefilter("ignore")
        s = next(iter(_real_scenes().values()))()
        s.assemble()
        rng = np.random.default_rng(8)
        vals = dict(t=0.37, q=s.q0 + 0.05 * rng.normal(size=s.nq), u=rng.normal(size=s.nu), u_dot=rng.normal(size=s.nu), la_g=rng.normal(size=s.nla_g), la_gamma=rng.normal(size=s.nla_gamma), la_c=rng.normal(size=s.nla_c), la_N=rng.normal(size=s.nla_N), la_F=rng.normal(size=s.nla_F))
        n = 0
        for name, f in inspect.getmembers(type(s), inspect.isfunction):
            pars = inspect.signature(f).parameters
            ps = [p for p in pars if p not in ("self", "format")]
            if name.startswith("_") or "format" not in pars or not set(ps) <= set(_EVAL_ARGS):
                continue
            try:
                ref = np.asarray(_dense(getattr(s, name)(*[vals[p] for p in ps], format="coo")), dtype=float)
            except Exception:  # noqa: BLE001
                continue
            n += 1
            for fmt in ("csr", "csc", "array"):
                try:
                    got = np.asarray(_dense(getattr(s, name)(*[vals[p] for p in ps], format=fmt)), dtype=float)
                    ok = got.shape == ref.shape and bool(np.allclose(got, ref, rtol=1e-13, atol=1e-13))
                    how = "" if ok else f"max deviation {np.max(np.abs(got - ref)):.3g}"
                except Exception as e:  # noqa: BLE001
                    ok, how = False, f"raised {type(e).__name__}: {e}"
                k.prove(f"System.{name}: format '{fmt}' gives the matrix of format 'coo'", ok, show=how)
        k.prove("vacuity guard: at least 25 matrix routines compared", n >= 25, show=str(n))


@contract("C14", "real contributions/a system that lost a contribution equals a freshly built system of the same collection", samples=0, replayable=False, timeout=60)
def c_remove_then_fresh(k):
    """"Across any sequence of adding and removing contributions" on real contributions: a leading body is removed after a
    first assembly, the DOF layout shifts, and after re-assembly every System evaluation must equal that of a system
    built from scratch from the same remaining collection (force laws on interactions passed inline, on interactions
    added before and after their force law, joints, forces) - index sets a contribution kept from the old layout show."""
    from vk import kit as K
    from vk import npshim

    if not k.sym:
        raise K.Reject("decided by native execution")
    import contextlib
    import io
    import warnings

    from cardillo import System
    from cardillo.constraints import Revolute
    from cardillo.discrete import PointMass, RigidBody
    from cardillo.force_laws import KelvinVoigtElement, MaxwellElement, Spring
    from cardillo.forces import Force
    from cardillo.interactions import TwoPointInteraction

    def collection(with_leading):
        s = System()
        pm0 = PointMass(0.3, q0=np.array([5.0, 5.0, 5.0]), name="leading")
        rb1 = RigidBody(1.0, np.diag([0.1, 0.2, 0.3]), q0=np.array([0.5, 0, 0, 1, 0, 0, 0.0]), name="rb1")
        rb2 = RigidBody(2.0, np.diag([0.3, 0.2, 0.1]), q0=np.array([1.5, 0, 0, 1, 0, 0, 0.0]), name="rb2")
        pm3 = PointMass(0.7, q0=np.array([0.0, 2.0, 0.0]), name="pm3")
        pm4 = PointMass(0.4, q0=np.array([0.0, -2.0, 1.0]), name="pm4")
        tp_before = TwoPointInteraction(rb1, pm4, name="tp_before")
        tp_after = TwoPointInteraction(pm3, pm4, name="tp_after")
        parts = ([pm0] if with_leading else []) + [
            rb1, rb2, pm3, pm4,
            Revolute(rb1, rb2, axis=1, r_OJ0=np.array([1.0, 0, 0]), name="hinge"),
            Force(np.array([0, 0, -9.81]), rb1, name="g1"), Force(np.array([0, 0.3, -1.0]), rb2, B_r_CP=np.array([0.1, 0, 0.2]), name="g2"),
            Spring(TwoPointInteraction(rb1, rb2, B_r_CP1=np.array([0, 0.1, 0.2]), name="tp_inline1"), 5.0, l_ref=0.8, compliance_form=False, name="spring_inline"),
            KelvinVoigtElement(TwoPointInteraction(rb2, pm3, name="tp_inline2"), 2.0, 0.3, l_ref=1.1, compliance_form=True, name="kv_inline"),
            tp_before, Spring(tp_before, 3.0, l_ref=0.5, compliance_form=True, name="spring_tp_before"),
            MaxwellElement(tp_after, 4.0, 0.6, l_ref=2.0, name="maxwell"), tp_after,
        ]
        s.add(*parts)
        return s

    with npshim.active(False), warnings.catch_warnings(), contextlib.redirect_stdout(io.StringIO()):
        warnings.simplefilter("ignore")
        s = collection(True)
        ok, _ = k.no_raise("first assembly", s.assemble)
        if not ok:
            return
        s.remove(s.contributions_map["leading"])
        ok, _ = k.no_raise("assembly after the removal", s.assemble)
        if not ok:
            return
        fresh = collection(False)
        fresh.assemble()
        a, b = _evaluate_all(s, np.random.default_rng(9)), _evaluate_all(fresh, np.random.default_rng(9))
        k.prove("same sizes as the freshly built system", (s.nq, s.nu, s.nla_g, s.nla_c) == (fresh.nq, fresh.nu, fresh.nla_g, fresh.nla_c), show=str((s.nq, s.nu, s.nla_g, s.nla_c)))
        for key in a:
            k.prove(f"{key}: system after add / assemble / remove / assemble equals the freshly built one", _same(a[key], b[key]))
        s.assemble()
        c2 = _evaluate_all(s, np.random.default_rng(9))
        for key in a:
            k.prove(f"{key}: unchanged by a further assemble()", _same(a[key], c2[key]))
