"""C14 - System assembly is a faithful, repeatable scatter of its contributions.

  scatter    every System evaluation routine (q_dot ... Wla_F_q) is executed for real on dummy
             contributions that return symbolic blocks, with overlapping DOF sets (a joint-like
             contribution acting on the coordinates of two bodies); the result must equal the
             sum of the blocks placed at the contribution's DOFs (spec computed independently).
  layout     assemble(): per-kind index sets are consecutive, disjoint and cover [0, n); a second
             assemble() leaves layout and evaluations unchanged.  Contribution sizes are enumerated
             (bounded), block values symbolic.
  registry   add / remove / pop / extend keep  keys(map) = names(contributions), map[name] is that
             contribution, names pairwise distinct  - proved as an inductive invariant by exhaustive
             enumeration of all abstract states with <= 3 contributions over a name alphabet that
             contains the renaming pattern, times every operation (labelled exhaustive-enumeration).
"""

import itertools

import numpy as np

import cardillo.system as csys
from cardillo.system import System
from vk.registry import contract, static

LEVEL = "proof"
TRUSTED = [
    "consistent_initial_conditions is stubbed during assemble() in these contracts (it is the subject of C16)",
    "contribution counts and block sizes are enumerated (bounded); block values are symbolic",
    "registry invariant: exhaustive over abstract states with <= 3 contributions and the name alphabet {None, a, b, a_contr1, a_contr2, a_contr3}",
]
EXPLANATION = "symbolic scatter obligations on the real System methods with dummy contributions; exhaustive enumeration for the registry invariant"

# (system method, local method or None if same, row DOF attribute, column DOF attribute or None for vectors, argument kinds)
VEC = [
    ("q_dot", "my_qDOF", "tqu"), ("h", "uDOF", "tqu"), ("la_c", "la_cDOF", "tqu"), ("c", "la_cDOF", "tquc"), ("la_tau", "la_tauDOF", "tqu"),
    ("g", "la_gDOF", "tq"), ("g_dot", "la_gDOF", "tqu"), ("g_ddot", "la_gDOF", "tquu"), ("gamma", "la_gammaDOF", "tqu"), ("gamma_dot", "la_gammaDOF", "tquu"),
    ("g_S", "la_SDOF", "tq"), ("g_N", "la_NDOF", "tq"), ("g_N_dot", "la_NDOF", "tqu"), ("g_N_ddot", "la_NDOF", "tquu"), ("gamma_F", "la_FDOF", "tqu"),
    ("gamma_F_dot", "la_FDOF", "tquu"),
]
MAT = [
    ("q_dot_q", "my_qDOF", "qDOF", "tqu"), ("q_dot_u", "my_qDOF", "uDOF", "tq"), ("Mu_q", "uDOF", "qDOF", "tqu"), ("h_q", "uDOF", "qDOF", "tqu"), ("h_u", "uDOF", "uDOF", "tqu"),
    ("c_q", "la_cDOF", "qDOF", "tquc"), ("c_u", "la_cDOF", "uDOF", "tquc"), ("W_c", "uDOF", "la_cDOF", "tq"), ("Wla_c_q", "uDOF", "qDOF", "tqc"),
    ("W_tau", "uDOF", "la_tauDOF", "tq"), ("Wla_tau_q", "uDOF", "qDOF", "tqu"), ("Wla_tau_u", "uDOF", "uDOF", "tqu"),
    ("g_q", "la_gDOF", "qDOF", "tq"), ("W_g", "uDOF", "la_gDOF", "tq"), ("Wla_g_q", "uDOF", "qDOF", "tqg"), ("g_dot_u", "la_gDOF", "uDOF", "tq"), ("g_dot_q", "la_gDOF", "qDOF", "tqu"),
    ("gamma_q", "la_gammaDOF", "qDOF", "tqu"), ("gamma_u", "la_gammaDOF", "uDOF", "tq"), ("gamma_dot_q", "la_gammaDOF", "qDOF", "tquu"), ("gamma_dot_u", "la_gammaDOF", "uDOF", "tquu"),
    ("W_gamma", "uDOF", "la_gammaDOF", "tq"), ("Wla_gamma_q", "uDOF", "qDOF", "tqG"), ("g_S_q", "la_SDOF", "qDOF", "tq"),
    ("g_N_q", "la_NDOF", "qDOF", "tq"), ("W_N", "uDOF", "la_NDOF", "tq"), ("Wla_N_q", "uDOF", "qDOF", "tqN"),
    ("gamma_F_q", "la_FDOF", "qDOF", "tqu"), ("W_F", "uDOF", "la_FDOF", "tq"), ("gamma_F_dot_q", "la_FDOF", "qDOF", "tquu"), ("gamma_F_dot_u", "la_FDOF", "uDOF", "tquu"),
    ("Wla_F_q", "uDOF", "qDOF", "tqF"),
]
SIZE_OF = {"my_qDOF": "nq", "qDOF": "nqx", "uDOF": "nu", "la_cDOF": "nla_c", "la_tauDOF": "nla_tau", "la_gDOF": "nla_g", "la_gammaDOF": "nla_gamma", "la_SDOF": "nla_S", "la_NDOF": "nla_N", "la_FDOF": "nla_F"}


class Dummy:
    """contribution with every local routine; returns blocks handed out by the contract"""

    def __init__(self, name, sizes, blocks, extra_q=None):
        self.name = name
        for kk, v in sizes.items():
            if v:
                setattr(self, kk, v)
        self.sizes = sizes
        self.q0 = np.zeros(sizes.get("nq", 0))
        self.u0 = np.zeros(sizes.get("nu", 0))
        self.e_N = np.zeros(sizes.get("nla_N", 0))
        self.e_F = np.zeros(sizes.get("nla_F", 0))
        self.friction_laws = []
        self.blocks = blocks
        self.extra_q = extra_q  # other contribution whose coordinates this one also acts on (joint-like)
        self.constant_mass_matrix = False

    def assembler_callback(self):
        if self.extra_q is not None:
            mine_q = getattr(self, "my_qDOF", np.array([], dtype=int))
            mine_u = getattr(self, "my_uDOF", np.array([], dtype=int))
            self.qDOF = np.concatenate([mine_q, self.extra_q.my_qDOF])
            self.uDOF = np.concatenate([mine_u, self.extra_q.my_uDOF])

    def c_la_c(self):
        return self.blocks(self, "c_la_c", (self.sizes.get("nla_c", 0), self.sizes.get("nla_c", 0)))

    def M(self, t, q):
        n = len(self.uDOF)
        return self.blocks(self, "M", (n, n))

    def E_pot(self, t, q):
        return self.blocks(self, "E_pot", ())

    def E_kin(self, t, q, u):
        return self.blocks(self, "E_kin", ())

    def step_callback(self, t, q, u):
        return q, u

    def tau(self, t):
        return self.blocks(self, "tau", (self.sizes.get("ntau", 0),))


def _size(d, attr):
    return len(getattr(d, attr))


for _name, _row, _args in VEC:
    def _mk(nm=_name, row=_row):
        def f(self, *a):
            return self.blocks(self, nm, (_size(self, row),))
        return f
    setattr(Dummy, _name, _mk())
for _name, _row, _col, _args in MAT:
    def _mk(nm=_name, row=_row, col=_col):
        def f(self, *a):
            return self.blocks(self, nm, (_size(self, row), _size(self, col)))
        return f
    setattr(Dummy, _name, _mk())


def _assemble(sysm):
    saved = csys.consistent_initial_conditions
    csys.consistent_initial_conditions = lambda system, *a_, **kw: (system.t0, system.q0, system.u0, None, None, None, None, None, None, None)
    try:
        sysm.assemble()
    finally:
        csys.consistent_initial_conditions = saved


def _dense(m):
    return m.toarray() if hasattr(m, "toarray") else np.asarray(m)


def _build(k, layout):
    """layout: list of size dicts; the last contribution also acts on the first one's coordinates."""
    store = {}
    counter = [0]
    pool = k.reals("blk", 4000, sample=lambda g: g.normal(size=4000))

    def blocks(d, name, shape):
        key = (d.name, name)
        if key not in store:
            n = int(np.prod(shape)) if shape else 1
            vals = pool[counter[0] : counter[0] + n]
            counter[0] += n
            store[key] = vals.reshape(shape) if shape else vals[0]
        return store[key]

    sysm = System()
    ds = []
    for i, sz in enumerate(layout):
        acts_on_q = sz.get("nq", 0) > 0 or (i == len(layout) - 1 and len(layout) > 1)
        have = {"my_qDOF": sz.get("nq", 0) > 0, "qDOF": acts_on_q, "uDOF": acts_on_q or sz.get("nu", 0) > 0}
        for attr, szname in SIZE_OF.items():
            if attr not in have:
                have[attr] = sz.get(szname, 0) > 0
        ns = {}
        for name, row, kind in VEC:
            if have[row] and (name != "h" or have["uDOF"]):
                ns[name] = getattr(Dummy, name)
        for name, row, col, kind in MAT:
            if have[row] and have[col]:
                ns[name] = getattr(Dummy, name)
        for extra, need in (("M", "uDOF"), ("E_pot", "qDOF"), ("E_kin", "uDOF"), ("c_la_c", "la_cDOF"), ("step_callback", "my_qDOF"), ("assembler_callback", "qDOF")):
            if have[need]:
                ns[extra] = getattr(Dummy, extra)
        if sz.get("ntau", 0):
            ns["tau"] = Dummy.tau
        cls = type(f"Dummy{i}", (), dict(ns, __init__=Dummy.__init__))
        ds.append(cls(f"d{i}", sz, blocks, extra_q=None))
    if len(ds) > 1:
        ds[-1].extra_q = ds[0]
    sysm.add(*ds)
    _assemble(sysm)
    return sysm, ds, store


LAYOUTS = [
    [dict(nq=2, nu=2, nla_c=1, nla_g=1, nla_S=1), dict(nq=1, nu=1, nla_tau=1, ntau=1, nla_gamma=1, nla_N=1, nla_F=2), dict(nq=1, nu=2, nla_g=2, nla_c=1, nla_N=1, nla_F=2, nla_gamma=1, nla_S=1, nla_tau=1, ntau=1)],
    [dict(nq=3, nu=2, nla_g=1), dict(nq=0, nu=0, nla_g=2, nla_N=1, nla_F=2, nla_c=1, nla_gamma=1, nla_S=1, nla_tau=1, ntau=1)],
]


def _scatter(layout_i):
    def c(k):
        k.covers(*[getattr(System, n) for n, *_ in VEC + MAT] + [System.assemble, System.M, System.E_pot, System.E_kin, System.c_la_c, System.xi_N, System.xi_F, System.xi_N_q, System.xi_F_q])
        sysm, ds, store = _build(k, LAYOUTS[layout_i])
        nq, nu = sysm.nq, sysm.nu
        t = 0.0
        q, u, ud = k.reals("q", nq), k.reals("u", nu), k.reals("ud", nu)
        mult = {"c": k.reals("lac", sysm.nla_c), "g": k.reals("lag", sysm.nla_g), "G": k.reals("lagam", sysm.nla_gamma), "N": k.reals("laN", sysm.nla_N), "F": k.reals("laF", sysm.nla_F)}
        total = {"my_qDOF": nq, "qDOF": nq, "uDOF": nu, "la_cDOF": sysm.nla_c, "la_tauDOF": sysm.nla_tau, "la_gDOF": sysm.nla_g, "la_gammaDOF": sysm.nla_gamma, "la_SDOF": sysm.nla_S, "la_NDOF": sysm.nla_N, "la_FDOF": sysm.nla_F}

        def args(kind):
            out = []
            for ch in kind:
                out.append({"t": t, "q": q, "u": u}.get(ch) if ch in "tq" else (u if ch == "u" and len([x for x in out if x is u]) == 0 else ud) if ch == "u" else mult[ch])
            return out

        zero = lambda shape: np.zeros(shape, dtype=object if k.sym else float)
        for name, row, kind in VEC:
            ok, val = k.no_raise(f"System.{name} returns", lambda name=name, kind=kind: getattr(sysm, name)(*args(kind)))
            if not ok:
                continue
            spec = zero(total[row])
            for d in ds:
                if hasattr(d, row) and (d.name, name) in store:
                    spec[getattr(d, row)] = spec[getattr(d, row)] + store[(d.name, name)]
            k.prove_eq(f"{name} = sum of placed blocks", val, spec, tol=1e-12)
        for name, row, col, kind in MAT:
            ok, val = k.no_raise(f"System.{name} returns", lambda name=name, kind=kind: _dense(getattr(sysm, name)(*args(kind), format="csr")))
            if not ok:
                continue
            spec = zero((total[row], total[col]))
            for d in ds:
                if (d.name, name) in store and hasattr(d, row) and hasattr(d, col):
                    R, C = getattr(d, row), getattr(d, col)
                    for a, r in enumerate(R):
                        for b, cc in enumerate(C):
                            spec[r, cc] = spec[r, cc] + store[(d.name, name)][a, b]
            k.prove_eq(f"{name} = sum of placed blocks", val, spec, tol=1e-12)
        # mass matrix (constant and variable parts), energies, compliance matrix
        Mval = _dense(sysm.M(t, q, format="csr"))
        Mspec = zero((nu, nu))
        for d in ds:
            if (d.name, "M") in store:
                U = d.uDOF
                for a, r in enumerate(U):
                    for b, cc in enumerate(U):
                        Mspec[r, cc] = Mspec[r, cc] + store[(d.name, "M")][a, b]
        k.prove_eq("M = sum of placed blocks", Mval, Mspec, tol=1e-12)
        k.prove_eq("E_pot = sum", sysm.E_pot(t, q), sum(store[(d.name, "E_pot")] for d in ds if (d.name, "E_pot") in store), tol=1e-12)
        k.prove_eq("E_kin = sum", sysm.E_kin(t, q, u), sum(store[(d.name, "E_kin")] for d in ds if (d.name, "E_kin") in store), tol=1e-12)
        # layout: index sets partition
        for attr, tot in total.items():
            if attr == "qDOF":
                continue
            owned = [getattr(d, "my_qDOF" if attr == "my_qDOF" else ("my_uDOF" if attr == "uDOF" else attr)) for d in ds if hasattr(d, "my_qDOF" if attr == "my_qDOF" else ("my_uDOF" if attr == "uDOF" else attr))]
            flat = np.concatenate(owned) if owned else np.array([], dtype=int)
            k.prove(f"{attr}: index sets are consecutive, disjoint and cover [0, {tot})", list(flat) == list(range(tot)))
        # repeatability
        before = {d.name: {a: np.array(getattr(d, a)).copy() for a in SIZE_OF if hasattr(d, a)} for d in ds}
        h1 = sysm.h(t, q, u)
        _assemble(sysm)
        same = all(np.array_equal(getattr(d, a), v) for d in ds for a, v in before[d.name].items()) and (sysm.nq, sysm.nu) == (nq, nu)
        k.prove("second assemble leaves the layout unchanged", same)
        k.prove_eq("second assemble leaves evaluations unchanged", sysm.h(t, q, u), h1, tol=0)

    return c


for _i in range(len(LAYOUTS)):
    contract("C14", f"System/scatter[layout={_i}]", samples=1, timeout=60)(_scatter(_i))


# --------------------------------------------------------------------------- registry invariant
class _C:
    def __init__(self, name):
        if name is not None:
            self.name = name


def _inv(sysm):
    names = [getattr(c, "name", None) for c in sysm.contributions]
    if any(n is None for n in names):
        return False, "contribution without a name"
    if len(set(names)) != len(names):
        return False, f"duplicate names {names}"
    if set(sysm.contributions_map.keys()) != set(names):
        return False, f"registry keys {sorted(sysm.contributions_map)} != names {sorted(names)}"
    for c in sysm.contributions:
        if sysm.contributions_map[c.name] is not c:
            return False, f"registry maps {c.name} to another object"
    return True, ""


COVERS_STATIC = [System.add, System.remove, System.pop, System.extend, System.assemble]


@static("C14", "System/registry-invariant")
def s_registry(tier):
    alphabet = ["a", "b", "a_contr1", "a_contr2", "a_contr3"]
    results = []
    failures = []
    n_states = n_ops = 0
    for size in range(0, 4):
        for names in itertools.permutations(alphabet, size):
            for ncontr in range(size + 1, size + 3):
                def fresh():
                    s = System.__new__(System)
                    s.contributions = [_C(n) for n in names]
                    s.contributions_map = {c.name: c for c in s.contributions}
                    s.ncontr = ncontr
                    return s

                assert _inv(fresh())[0]
                n_states += 1
                ops = []
                for nm in alphabet + [None]:
                    ops.append((f"add(new '{nm}')", lambda s, nm=nm: s.add(_C(nm))))
                    ops.append((f"extend([new '{nm}', new 'b'])", lambda s, nm=nm: s.extend([_C(nm), _C("b")])))
                for i in range(size):
                    ops.append((f"remove(contribution {i})", lambda s, i=i: s.remove(s.contributions[i])))
                    ops.append((f"pop({i})", lambda s, i=i: s.pop(i)))
                    ops.append((f"add(existing {i})", lambda s, i=i: s.add(s.contributions[i])))
                for label, op in ops:
                    s = fresh()
                    n_ops += 1
                    try:
                        import contextlib, io

                        with contextlib.redirect_stdout(io.StringIO()):
                            op(s)
                    except ValueError:
                        pass  # explicit rejection (already added / not present) must leave the state intact
                    ok, why = _inv(s)
                    if not ok:
                        failures.append({"state": list(names), "ncontr": ncontr, "operation": label, "why": why})
    by_op = {}
    for f in failures:
        by_op.setdefault(f["operation"].split("(")[0], []).append(f)
    for opname in ("add", "extend", "remove", "pop"):
        fs = by_op.get(opname, [])
        results.append({"name": f"{opname} preserves the registry invariant", "ok": not fs, "backend": "exhaustive-enumeration", "show": f"{n_states} abstract states x operations ({n_ops} transitions)", "detail": str(fs[:2]), "replay": fs[0] if fs else None})
    return results
