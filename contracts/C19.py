"""C19 - RATTLE is second order, drift-free and reversible on conservative systems.

Two of the three clauses (bounded energy error over long horizons, error ratio ~4 under step halving) are
asymptotic statements about the solution map; no contract on a function of rattle.py expresses them and they
are NOT claimed as proved: they are measured by the bounded stand-in on real conservative systems.

The third clause has an exact, per-step core that IS a contract on the real step: **the step equations are
invariant under time reversal**.  For a conservative scleronomic System (callee contract: nothing depends on t,
q_dot = B(q) u, g_dot = W_g(q)^T u, h(q, u) = h0(q) + G(q)[u, u] even in u, M(q) symmetric) one arbitrary step of
the real `Rattle.solve()` is executed from an arbitrary consistent state (q_n, u_n) - the nonlinear solve is opaque
and returns an exact root of the function it was given (the real R_x1), linear solves obey A x = b - giving
(q_n+1, u_n+1/2, u_n+1, P_g1, P_g2).  Then the solver's velocity is reversed and a second step of the real code is
executed in which the nonlinear solve is handed the reversed data (q_n, -u_n+1/2, P_g2): obligations

    R_x1(q_n, -u_n+1/2, P_g2) = 0        at the state (q_n+1, -u_n+1)        (stage 1 of the reversed step)
    A' (-u_n, P_g1) = -b'                for the stage-2 system the real code builds in that step

i.e. (q_n, -u_n) solves the equations of the step started at (q_n+1, -u_n+1).  With uniqueness of the
nonlinear solve (not proved) and the solver tolerance (C22) this is "forward, reverse, forward the same number of
steps returns to the initial state with reversed velocities".  A symmetric one-step method has even order; the
observed order 2 and the absence of energy drift are consequences that are only measured here.
"""

import contextlib
import io
import warnings

import numpy as np

import cardillo.solver.rattle as ra
from cardillo.solver import SolverOptions
from contracts.C17 import _np_converging
from contracts.C21 import _Pbar, _Rec, _StepHelper, _Summary, _warnmod
from contracts.sysstub import Lin, SysStub, mat, patched
from vk import kit as K
from vk import loopcut, npshim
from vk import sym as S
from vk.registry import bounded, contract

LEVEL = "other"  # one clause of three is proved (see the docstring); the other two are measured
TRUSTED = [
    "conservative scleronomic System callee contract: every System quantity an uninterpreted function of q only (no explicit time), q_dot = B(q) u, g_dot = W_g(q)^T u, h(q, u) = h0(q) + G(q)[u, u] (potential + gyroscopic forces, even in u), one conservative force law in compliance form (multiplier a function of q: c = la_c - lambda(q)), no contacts / actuators / velocity constraints; step_callback is the identity (normalisation is invisible to the System: C01/C04/C11)",
    "the nonlinear solve returns an exact root of the function it was given (tolerance: composition with C22); linear solves A x = b; uniqueness of the roots is not proved",
    "energy-error boundedness and the order-2 error ratio are NOT proved: bounded stand-in only (real pendula / chains, stated horizons and step sizes)",
]
EXPLANATION = "two consecutive rounds of the real Rattle.solve loop (loop cut) against a conservative System callee contract: the time-reversed data of the first step solve the equations of the step started from the reversed state (QF_NRA / normal-form obligations); bounded real runs measure order, energy error and reversibility"


class ConsStub(SysStub):
    """conservative, scleronomic variant of the System callee contract"""

    def fn(self, name, shape, *args):
        if name != "c_la_c" and args:
            args = args[1:]  # nothing depends on time explicitly
        return super().fn(name, shape, *args)

    def step_callback(self, t, q, u):
        return q, u

    def q_dot(self, t, q, u):
        with npshim.active(True):
            return self.B(t, q) @ np.asarray(u, dtype=object)

    def h(self, t, q, u):
        with npshim.active(True):
            u = np.asarray(u, dtype=object)
            h0 = super().fn("h0", self.nu, q)
            G = super().fn("G", (self.nu, self.nu, self.nu), q)
            return h0 + np.array([u @ G[i] @ u for i in range(self.nu)], dtype=object)

    def chi_g(self, t, q):
        return np.zeros(self.nla_g, dtype=object) + S.ZERO

    # a conservative force law in compliance form: the multiplier is a function of the configuration only,
    # c(q, la_c) = la_c - lambda(q) (what the compliance residual of a spring says, solved for la_c)
    def la_c(self, t, q, u):
        return super().fn("la_c", self.nla_c, q)

    def c(self, t, q, u, la_c, **kw):
        return np.asarray(la_c, dtype=object) - self.la_c(t, q, u)

    def g_dot(self, t, q, u):
        with npshim.active(True):
            return np.asarray(self.W_g(t, q), dtype=object).view(np.ndarray).T @ np.asarray(u, dtype=object)


SIZES = dict(nq=2, nu=2, nla_g=1, nla_gamma=0, nla_c=1, nla_tau=0, nla_N=0, nla_F=0)


@contract("C19", "Rattle/step equations are invariant under time reversal", samples=0, replayable=False, timeout=120)
def c_reversible(k):
    if not k.sym:
        raise K.Reject("symbolic only")
    k.covers(ra.Rattle.solve, ra.Rattle.R_x1, ra.Rattle._solve_nonlinear_system, ra.Rattle._iterative_projection_method)
    lin, rec = Lin(k), _Rec()
    sysm = ConsStub(k, sizes=dict(SIZES), friction=False, t0=0.0)
    sysm.q_dot0 = S.symarray("qd0", sysm.nq)
    script = {"mode": "root", "x": None}
    roots = []

    def fsolve(fun, x0, jac=None, fun_args=(), jac_args=(), inexact=False, options=None, **kw):
        class Res:
            pass

        r = Res()
        if script["mode"] == "root":
            rec.n += 1
            x = S.symarray(f"newton{rec.n}_x", len(x0))
            res = fun(x, *fun_args)
            for e in np.asarray(res, dtype=object).ravel():
                k.axiom(S._coerce(e) == 0, "the nonlinear solve returned an exact root of the residual it was given (tolerance: C22)")
            roots.append(x)
        else:
            x = script["x"].copy()
            state["R_b"] = np.array(fun(x, *fun_args), dtype=object)  # the real R_x1 in the real state of the reversed step
        r.x, r.success, r.error, r.fun, r.nit, r.nfev, r.njev = x, True, 0.0, None, 1, 1, 1
        return r

    def prox_par(alpha, W, M):
        return S.symarray("prox_r", np.asarray(W, dtype=object).shape[1])

    names = dict(bmat=lin.bmat, splu=lin.splu, fsolve=fsolve, warnings=_warnmod(rec), tqdm=_Pbar, SolverSummary=_Summary, print=lambda *a, **kw: None, estimate_prox_parameter=prox_par)
    names = {a: b for a, b in names.items() if hasattr(ra, a) or a == "print"}
    state = {}
    with patched(ra, **names), npshim.active(True), k.spec():
        solver = ra.Rattle(sysm, 1.0, 0.25, options=SolverOptions())
        solver.prox1 = lambda x, y: y
        solver.prox2 = lambda x, y: y
        solver._J_x1 = lambda x, y: mat(S.symarray("Jx1", (solver.nx1, solver.nx1)))

        class H(_StepHelper):
            def one(self_, it):
                return (S.var("t_a"), S.var("t_b"))  # two consecutive steps

            def assume_inv(self_, loc):
                super().assume_inv(loc)
                s = self_.solver
                # the state the loop invariant of Rattle provides: the cached System quantities belong to (t_n, q_n)
                s.Mn, s.Bn = sysm.M(s.tn, s.qn), sysm.q_dot_u(s.tn, s.qn)
                s.betan = sysm.q_dot(s.tn, s.qn, 0 * s.un)
                s.W_gn, s.W_gamman, s.W_cn, s.W_taun = sysm.W_g(s.tn, s.qn), sysm.W_gamma(s.tn, s.qn), sysm.W_c(s.tn, s.qn), sysm.W_tau(s.tn, s.qn)
                s.W_Nn, s.W_Fn = sysm.W_N(s.tn, s.qn), sysm.W_F(s.tn, s.qn)
                # consistent state
                for e in np.atleast_1d(sysm.g(s.tn, s.qn)):
                    k.assume(S._coerce(e) == 0)
                for e in np.atleast_1d(sysm.g_dot(s.tn, s.qn, s.un)):
                    k.assume(S._coerce(e) == 0)
                state["q0"], state["u0"] = s.qn.copy(), s.un.copy()

            def back_edge(self_, loc):
                s = self_.solver
                if "fwd" not in state:
                    x1 = np.array(loc["x1n1"], dtype=object)
                    x2 = np.array(loc["x2n1"], dtype=object)
                    nq, nu, ng = sysm.nq, sysm.nu, sysm.nla_g
                    nc = sysm.nla_c
                    q1, u12 = x1[:nq], x1[nq : nq + nu]
                    Pg1 = x1[nq + nu + nc : nq + nu + nc + ng]
                    u1, Pg2 = x2[:nu], x2[nu : nu + ng]
                    state["fwd"] = dict(q1=q1, u12=u12, Pg1=Pg1, u1=u1, Pg2=Pg2, stored_q=np.array(s.qn, dtype=object), stored_u=np.array(s.un, dtype=object))
                    # loop invariant (assumed at the head of the first round): the cached System quantities belong to the current state
                    state["caches"] = [("Mn = M(q_n)", np.asarray(s.Mn, dtype=object).view(np.ndarray), np.asarray(sysm.M(s.tn, s.qn), dtype=object).view(np.ndarray)),
                                       ("Bn = q_dot_u(q_n)", np.asarray(s.Bn, dtype=object).view(np.ndarray), np.asarray(sysm.q_dot_u(s.tn, s.qn), dtype=object).view(np.ndarray)),
                                       ("betan = q_dot(q_n, 0)", np.asarray(s.betan, dtype=object), np.asarray(sysm.q_dot(s.tn, s.qn, 0 * s.un), dtype=object)),
                                       ("W_gn = W_g(q_n)", np.asarray(s.W_gn, dtype=object).view(np.ndarray), np.asarray(sysm.W_g(s.tn, s.qn), dtype=object).view(np.ndarray))]
                    # time reversal: same configuration, reversed velocity; the reversed step is offered the reversed data
                    s.un = -np.array(s.un, dtype=object)
                    script["mode"] = "scripted"
                    # (compliance multiplier of the reversed stage 1: the law evaluated at the state the reversed step starts from)
                    script["x"] = np.concatenate([state["q0"], -u12, np.asarray(sysm.la_c(0, q1, u12), dtype=object), Pg2])
                    state["n_solves"] = len(lin.solves)
                else:
                    state["bwd"] = dict(loc)

        helper = H("iter", k, solver, ("x1n", "y1n", "x2n", "y2n", "tn", "qn", "un"), ("t", "q", "u"))
        run = loopcut.cut(solver.solve, loop=0)
        k.loop_info = run.info
        with patched(ra, np=_np_converging(ra.np)):
            try:
                run(helper)
                raise S.KitError("the cut steps returned instead of reaching the back edge")
            except loopcut.Stop:
                pass
        if "bwd" not in state:
            raise S.KitError("second (reversed) step did not reach its back edge")
        f = state["fwd"]
        q0, u0 = state["q0"], state["u0"]
        k.prove_eq("forward step: stored configuration is the stage-1 root", f["stored_q"], f["q1"])
        k.prove_eq("forward step: stored velocity is the stage-2 solution", f["stored_u"], f["u1"])
        for nm, got, want in state["caches"]:
            k.prove_eq(f"loop invariant re-established after a step: {nm}", got, want)
        # reversed step, stage 1: the reversed data is a root of the real R_x1 evaluated by the real second round
        R = state["R_b"]
        k.prove_eq("reversed step, stage 1: (q_n, -u_n+1/2, P_g2) is a root of R_x1 at the state (q_n+1, -u_n+1)", R, np.zeros(len(R)))
        # stage 2 of the reversed step: the linear system the real code built, and the reversed data as its solution
        A2, x2b, b2 = lin.solves[-1]
        k.prove("the reversed step built its own stage-2 system", len(lin.solves) > state["n_solves"])
        cand = np.concatenate([-u0, f["Pg1"]])
        k.prove_eq("reversed step, stage 2: (-u_n, P_g1) solves the linear system of the real code (A' x = -b')", np.asarray(A2, dtype=object).view(np.ndarray) @ cand, -np.asarray(b2, dtype=object))
        k.prove_eq("reversed step, stage 2: matrix is built at q_n (M(q_n), W_g(q_n))", np.asarray(A2, dtype=object).view(np.ndarray)[: sysm.nu, : sysm.nu], np.asarray(sysm.M(0, q0), dtype=object).view(np.ndarray))


# --------------------------------------------------------------------------- bounded: order, energy, reversibility on real systems
def _systems(rng):
    from cardillo import System
    from cardillo.constraints import FixedDistance, Spherical
    from cardillo.discrete import PointMass, RigidBody
    from cardillo.force_laws import KelvinVoigtElement as Spring
    from cardillo.forces import Force
    from cardillo.interactions import TwoPointInteraction
    from cardillo.math.rotations import Exp_SO3_quat

    def point_pendulum():
        s = System()
        L, th = rng.uniform(0.6, 1.2), rng.uniform(0.3, 1.2)
        r = L * np.array([np.sin(th), -np.cos(th), 0.0])
        v = rng.uniform(-0.5, 0.5) * np.array([np.cos(th), np.sin(th), 0.0])
        pm = PointMass(rng.uniform(0.5, 2.0), q0=r, u0=v)
        s.add(pm, FixedDistance(s.origin, pm), Force(np.array([0, -9.81 * pm.mass, 0]), pm))
        s.assemble()
        return s

    def rigid_pendulum():
        s = System()
        phi, om, L = rng.uniform(0.3, 1.0), rng.uniform(-1.0, 1.0), rng.uniform(0.5, 1.0)
        P = np.array([np.cos(phi / 2), 0, 0, np.sin(phi / 2)])
        A = Exp_SO3_quat(P)
        Om = np.array([0.2 * om, 0.1 * om, om])
        rb = RigidBody(rng.uniform(0.5, 2.0), np.diag(rng.uniform(0.1, 0.4, 3)), q0=np.concatenate([A @ np.array([L, 0, 0]), P]), u0=np.concatenate([A @ np.cross(Om, np.array([L, 0, 0])), Om]))
        s.add(rb, Spherical(s.origin, rb, r_OJ0=np.zeros(3)), Force(np.array([0, -9.81 * rb.mass, 0]), rb))
        s.assemble()
        return s

    def spring_chain():
        s = System()
        p1 = PointMass(1.0, q0=np.array([0.0, -1.0, 0.0]), u0=np.array([0.3, 0.0, 0.0]), name="p1")
        p2 = PointMass(0.7, q0=np.array([0.0, -2.0, 0.0]), u0=np.array([-0.2, 0.0, 0.1]), name="p2")
        s.add(p1, p2, FixedDistance(s.origin, p1), Spring(TwoPointInteraction(p1, p2), k=30.0, d=0.0, l_ref=0.8, compliance_form=False), Force(np.array([0, -9.81, 0]), p1), Force(np.array([0, -9.81 * 0.7, 0]), p2))
        s.assemble()
        return s

    yield "point-mass pendulum (FixedDistance)", point_pendulum
    yield "rigid-body pendulum (Spherical joint, gyroscopic terms)", rigid_pendulum
    yield "point-mass chain with a spring in force form", spring_chain


@bounded("C19", "native/order-energy-reversibility")
def b_rattle(tier, seed):
    from cardillo.solver import Rattle

    rng = np.random.default_rng(seed + 190)
    cases, failures = 0, []

    def quiet(fn):
        with warnings.catch_warnings(), contextlib.redirect_stdout(io.StringIO()), contextlib.redirect_stderr(io.StringIO()):
            warnings.simplefilter("ignore")
            return fn()

    def energy(s, sol):
        # kinetic energy from the mass matrix (RigidBody does not report E_kin itself)
        return np.array([0.5 * u @ (s.M(t, q) @ u) + s.E_pot(t, q) for t, q, u in zip(sol.t, sol.q, sol.u)])

    opts = lambda: SolverOptions(newton_atol=1e-11, newton_rtol=1e-11, fixed_point_atol=1e-11, fixed_point_rtol=1e-11)
    T = 0.5
    H = 1.5 if tier == "quick" else 5.0
    for name, build in _systems(rng):
        s = quiet(build)
        q0, u0 = s.q0.copy(), s.u0.copy()
        # --- order: errors against a fine reference at T for dt and dt/2
        ref = quiet(lambda: Rattle(s, T, 1.0 / 1024, options=opts()).solve())
        errs = []
        for dt in (1.0 / 32, 1.0 / 64):
            sol = quiet(lambda: Rattle(s, T, dt, options=opts()).solve())
            i, j = int(round(T / dt)), int(round(T * 1024))
            errs.append(float(np.max(np.abs(sol.q[i] - ref.q[j]))))
        cases += 1
        ratio = errs[0] / max(errs[1], 1e-300)
        if not 3.0 <= ratio <= 5.5:
            failures.append({"what": f"{name}: error ratio under step halving is {ratio:.2f} (second order: about 4)", "input": {"seed": seed}, "detail": f"errors {errs}"})
        # --- energy: the error stays bounded (no secular growth) and shrinks like dt^2
        dt = 1.0 / 64
        sol = quiet(lambda: Rattle(s, 4 * H, dt, options=opts()).solve())
        E = energy(s, sol)
        dE = np.abs(E - E[0])
        quarter = len(dE) // 4
        first, whole = float(dE[: quarter + 1].max()), float(dE.max())
        fine = quiet(lambda: Rattle(s, H, dt / 2, options=opts()).solve())
        dEf = float(np.abs(energy(s, fine) - E[0]).max())
        cases += 3
        scale = max(1.0, abs(E[0]))
        if not whole <= 5e-2 * scale:
            failures.append({"what": f"{name}: energy error {whole:.3e} over horizon {4 * H} is not small (dt = 1/64)", "input": {"seed": seed}, "detail": ""})
        if not whole <= 3.0 * first + 1e-9:
            failures.append({"what": f"{name}: energy error grows with the horizon (secular drift): max over [0, {H}] = {first:.3e}, over [0, {4 * H}] = {whole:.3e}", "input": {"seed": seed}, "detail": ""})
        if not 2.5 <= first / max(dEf, 1e-300) <= 6.5:
            failures.append({"what": f"{name}: energy error does not shrink by about 4 when the step is halved ({first:.3e} -> {dEf:.3e})", "input": {"seed": seed}, "detail": ""})
        # --- reversibility: forward n steps, reverse the velocities, forward n steps
        n = 32
        fwd = quiet(lambda: Rattle(s, n * dt, dt, options=opts()).solve())
        s2 = quiet(build.__call__) if False else s
        quiet(lambda: s2.set_new_initial_state(fwd.q[n].copy(), -fwd.u[n].copy(), t0=0.0))
        back = quiet(lambda: Rattle(s2, n * dt, dt, options=opts()).solve())
        cases += 1
        dq = float(np.max(np.abs(back.q[n] - q0)))
        du = float(np.max(np.abs(back.u[n] + u0)))
        if not (dq <= 1e-7 and du <= 1e-7):
            failures.append({"what": f"{name}: forward {n} steps, reverse, forward {n} steps does not return to the initial state with reversed velocities", "input": {"seed": seed}, "detail": f"|dq| = {dq:.3e}, |du| = {du:.3e}"})
        quiet(lambda: s2.set_new_initial_state(q0, u0, t0=0.0))
    return {"cases": cases, "distinct": cases, "failures": failures[:12], "bound": f"3 conservative systems (random parameters): error ratio dt = 1/32 vs 1/64 against dt = 1/1024 at T = {T}; energy error at dt = 1/64 over [0, {4 * H}] (small, <= 3 x its maximum over [0, {H}], about 4 x the error at dt = 1/128); reversibility over 32 steps (1e-7)"}
