"""C06 - Contact gaps and slip velocities are geometric and consistently differentiated.

Client side of the kinematic-subsystem contract for Sphere2Plane (plane frame
with constant orientation R(P) for every quaternion P, arbitrary smooth origin
motion) and Sphere2Sphere.  The specification of g_N and gamma_F is built here
from the geometry and the subsystem contract, not from the code:

  sphere-plane : g_N = n.(r_P - r_Q) - r,  |n| = 1, n = e_z of the plane frame
                 gamma_F = A_aniso^T [t1; t2] (v_S - v_F), S = sphere point at -r n,
                 v_S = v_P + Omega x (-r n), v_F = velocity of the plane's material point at S
  sphere-sphere: g_N = |r_2 - r_1| - R_1 - R_2,  n = (r_2 - r_1)/|r_2 - r_1|
                 gamma_F = [t1; t2] (v_P2 - v_P1), P_1 = C_1 + R_1 n, P_2 = C_2 - R_2 n

and every rate / Jacobian the contact (and System's dispatch) exposes must be
the derivative it names, or raise NotImplementedError ("declared unimplemented").
"""

import numpy as np

from cardillo.contacts.sphere2plane import Sphere2Plane
from cardillo.contacts.sphere2sphere import Sphere2Sphere
from cardillo.discrete.frame import Frame
from cardillo.discrete.point_mass import PointMass
from cardillo.discrete.rigid_body import RigidBody
import cardillo.math.rotations as rot
import cardillo.system as csys
from contracts.subsys import Pair, RealPair, StubBody, stub_pair
from vk import kit as K
from vk import sym as S
from vk.registry import bounded, contract

LEVEL = "proof"
TRUSTED = [
    "kinematic-subsystem contract (contracts/subsys.py), proved for RigidBody/PointMass/Frame in C04",
    "plane orientation: every constant rotation is Exp_SO3_quat(P) for some P != 0",
    "Sphere2Sphere.reference_contact_basis is an arbitrary constant matrix in the derivative obligations (its construction is checked separately)",
]
EXPLANATION = "client side of the kinematic-subsystem contract for the two contact classes; NotImplementedError is the only accepted way of not providing a derivative"

NI = (NotImplementedError,)


def _cross(a, b):
    return np.array([a[1] * b[2] - a[2] * b[1], a[2] * b[0] - a[0] * b[2], a[0] * b[1] - a[1] * b[0]])


def _contact_hierarchy(k, c, pair, friction=True):
    t, q, u, ud = pair.t, pair.q, pair.u, pair.u_dot
    laN = k.reals("laN", 1)
    laF = k.reals("laF", 2)

    def call(label, fn):
        ok, v = k.no_raise(label + " returns or is declared unimplemented", fn, allowed=NI)
        return v if ok else None

    gNd = call("g_N_dot", lambda: c.g_N_dot(t, q, u))
    if gNd is not None:
        k.prove_eq("g_N_dot=D_t g_N", gNd, pair.D_t(lambda t_, q_: c.g_N(t_, q_)))
        dgu = pair.d_u(lambda t_, q_, u_: c.g_N_dot(t_, q_, u_))
        W = call("W_N", lambda: c.W_N(t, q))
        if W is not None:
            k.prove_eq("W_N=(d g_N_dot/du)^T", W, dgu.T)
            v = call("Wla_N_q", lambda: c.Wla_N_q(t, q, laN))
            if v is not None:
                k.prove_eq("Wla_N_q=d(W_N la_N)/dq", v, pair.d_q(lambda t_, q_: c.W_N(t_, q_) @ laN))
        v = call("g_N_dot_u", lambda: c.g_N_dot_u(t, q))
        if v is not None:
            k.prove_eq("g_N_dot_u=d g_N_dot/du", v, dgu)
        v = call("g_N_ddot", lambda: c.g_N_ddot(t, q, u, ud))
        if v is not None:
            k.prove_eq("g_N_ddot=D_t g_N_dot", v, pair.D_t(lambda t_, q_, u_: c.g_N_dot(t_, q_, u_)))
        v = call("g_N_dot_q", lambda: c.g_N_dot_q(t, q, u))
        if v is not None:
            k.prove_eq("g_N_dot_q=d g_N_dot/dq", np.atleast_2d(v), pair.d_q(lambda t_, q_, u_: c.g_N_dot(t_, q_, u_)))
    v = call("g_N_q", lambda: c.g_N_q(t, q))
    if v is not None:
        k.prove_eq("g_N_q=d g_N/dq", np.atleast_2d(v), pair.d_q(lambda t_, q_: c.g_N(t_, q_)))
    if not friction:
        return
    gF = call("gamma_F", lambda: c.gamma_F(t, q, u))
    if gF is None:
        return
    dgFu = pair.d_u(lambda t_, q_, u_: c.gamma_F(t_, q_, u_))
    v = call("W_F", lambda: c.W_F(t, q))
    if v is not None:
        k.prove_eq("W_F=(d gamma_F/du)^T", v, dgFu.T)
        w = call("Wla_F_q", lambda: c.Wla_F_q(t, q, laF))
        if w is not None:
            k.prove_eq("Wla_F_q=d(W_F la_F)/dq", w, pair.d_q(lambda t_, q_: c.W_F(t_, q_) @ laF))
    v = call("gamma_F_u", lambda: c.gamma_F_u(t, q))
    if v is not None:
        k.prove_eq("gamma_F_u=d gamma_F/du", v, dgFu)
    v = call("gamma_F_q", lambda: c.gamma_F_q(t, q, u))
    if v is not None:
        k.prove_eq("gamma_F_q=d gamma_F/dq", v, pair.d_q(lambda t_, q_, u_: c.gamma_F(t_, q_, u_)))
    v = call("gamma_F_dot", lambda: c.gamma_F_dot(t, q, u, ud))
    if v is not None:
        k.prove_eq("gamma_F_dot=D_t gamma_F", v, pair.D_t(lambda t_, q_, u_: c.gamma_F(t_, q_, u_)))
        w = call("gamma_F_dot_q", lambda: c.gamma_F_dot_q(t, q, u, ud))
        if w is not None:
            k.prove_eq("gamma_F_dot_q=d gamma_F_dot/dq", w, pair.d_q(lambda t_, q_, u_, ud_: c.gamma_F_dot(t_, q_, u_, ud_)))
        w = call("gamma_F_dot_u", lambda: c.gamma_F_dot_u(t, q, u, ud))
        if w is not None:
            k.prove_eq("gamma_F_dot_u=d gamma_F_dot/du", w, pair.d_u(lambda t_, q_, u_, ud_: c.gamma_F_dot(t_, q_, u_, ud_)))


# ------------------------------------------------------------------ Sphere2Plane
def _plane_frame(k, t):
    """constant orientation R(Ph), moving origin r(t) with exact derivatives"""
    r, r_t, r_tt = k.timefun("Qr", 3, t)
    Ph = k.reals("Ph", 4, sample=lambda g: g.normal(size=4))
    k.assume(Ph @ Ph > 0)
    A0 = rot.Exp_SO3_quat(Ph)
    return Frame(r_OP=r, r_OP_t=r_t, r_OP_tt=r_tt, A_IB=A0), A0, r, r_t


def _s2p_spec(k, c, A0, rQ, vQ, sub, t, q, u, radius, aniso, B):
    n, t1, t2 = A0[:, 2], A0[:, 0], A0[:, 1]
    k.prove_eq("plane normal is a unit vector", n @ n, 1)
    k.prove_eq("tangents orthonormal to the normal", np.array([t1 @ n, t2 @ n, t1 @ t2, t1 @ t1, t2 @ t2]), np.array([0, 0, 0, 1, 1]))
    rP = sub.r_OP(t, q, None, B)
    k.prove_eq("g_N = signed distance sphere surface - plane", c.g_N(t, q), np.array([n @ (rP - rQ) - radius]))
    # the foot point of the sphere centre on the plane lies in the plane
    foot = rP - (c.g_N(t, q)[0] + radius) * n
    k.prove_eq("foot point lies in the plane", (foot - rQ) @ n, 0)
    vP = sub.v_P(t, q, u, None, B)
    if getattr(sub, "has_orientation", hasattr(sub, "A_IB")):
        Om = sub.A_IB(t, q) @ sub.B_Omega(t, q, u)
    else:
        Om = np.zeros(3)
    vS = vP + _cross(Om, -radius * n)
    vF = vQ  # plane frame does not rotate: all its material points move with v_Q
    k.prove_eq("gamma_F = tangential relative velocity of the contact points", c.gamma_F(t, q, u), np.diag(aniso).T @ np.array([t1 @ (vS - vF), t2 @ (vS - vF)]))


def _s2p_stub(kind):
    def c_(k):
        if not k.sym:
            raise K.Reject("stub contract is symbolic only")
        k.covers(Sphere2Plane.__init__, Sphere2Plane.assembler_callback, Sphere2Plane.g_N, Sphere2Plane.g_N_q, Sphere2Plane.g_N_dot, Sphere2Plane.g_N_dot_q, Sphere2Plane.g_N_dot_u,
                 Sphere2Plane.W_N, Sphere2Plane.g_N_ddot, Sphere2Plane.Wla_N_q, Sphere2Plane.gamma_F_dot, Sphere2Plane.gamma_F_dot_q, Sphere2Plane.gamma_F_dot_u,
                 Sphere2Plane.gamma_F_u, Sphere2Plane.W_F, Sphere2Plane.Wla_F_q)
        pair = stub_pair((kind, "frame"), sizes=(((3, 3) if kind == "point" else (3, 2)), (0, 0)))
        t = pair.t
        fr, A0, r, r_t = _plane_frame(k, t)
        radius = k.real("radius")
        k.assume(radius >= 0)
        aniso = k.reals("aniso", 2)
        B = k.reals("B", 3)
        mu = k.real("mu")
        k.assume(mu > 0)
        c = Sphere2Plane(fr, pair.s1, mu, r=radius, B_r_CP=B, anisotropy=aniso)
        c.assembler_callback()
        _s2p_spec(k, c, A0, r(t), r_t(t), pair.s1, t, pair.q, pair.u, radius, aniso, B)
        _contact_hierarchy(k, c, pair)

    return c_


def _s2p_real(kind):
    def c_(k):
        t = k.real("t")
        fr, A0, r, r_t = _plane_frame(k, t)
        if kind == "rigid":
            s = RigidBody(1.0, np.eye(3))
            q = k.reals("q", 7, sample=lambda g: np.concatenate([g.normal(size=3), g.normal(size=4)]))
            k.assume(q[3:] @ q[3:] > 1e-2)
            u, ud = k.reals("u", 6), k.reals("ud", 6)
        else:
            s = PointMass(1.0)
            q, u, ud = k.reals("q", 3), k.reals("u", 3), k.reals("ud", 3)
        s.qDOF = np.arange(len(q))
        s.uDOF = np.arange(len(u))
        radius = k.real("radius", sample=lambda g: g.uniform(0, 2))
        aniso = k.reals("aniso", 2, sample=lambda g: g.uniform(0.3, 2, 2))
        B = k.reals("B", 3) if kind == "rigid" else np.zeros(3)
        c = Sphere2Plane(fr, s, 0.3, r=radius, B_r_CP=B, anisotropy=aniso)
        c.assembler_callback()
        none = np.array([])
        pair = RealPair(k, s, fr, t, q, u, ud, none, none, none)
        _s2p_spec(k, c, A0, r(t), r_t(t), s, t, q, u, radius, aniso, B)
        _contact_hierarchy(k, c, pair)

    return c_


def _witness(fns):
    def w(rng, label):
        base = label.split("[")[0]
        for name, fn in fns:
            for _ in range(6):
                r = K.run_conc(fn, "witness", rng=rng)
                if r is None:
                    continue
                kk, err = r
                for res in kk.results:
                    if res["label"] == base and not res["ok"]:
                        d = {"inputs": {a: float(b) for a, b in kk.values.items()}, "detail": f"{name}: '{base}' fails natively" + (f" (max scaled error {res['err']:.3e})" if res["lhs"] is not None else f" ({res.get('note', '')})")}
                        if res["lhs"] is not None:
                            d["native_lhs"] = np.asarray(res["lhs"]).tolist()
                            d["native_rhs"] = np.asarray(res["rhs"]).tolist()
                        return d
        return None

    return w


contract("C06", "Sphere2Plane/stub-body", samples=0, replayable=False, timeout=120, witness=_witness([("Sphere2Plane on a real RigidBody", _s2p_real("rigid"))]))(_s2p_stub("body"))
contract("C06", "Sphere2Plane/stub-point", samples=0, replayable=False, timeout=120, witness=_witness([("Sphere2Plane on a real PointMass", _s2p_real("point"))]))(_s2p_stub("point"))


# ----------------------------------------------------------------- Sphere2Sphere
def _s2s_setup(c, sym_basis):
    """run the real assembler_callback for the auxiliary functions; the reference
    basis it computes from q0 is replaced by an arbitrary constant basis."""
    c.t0 = 0.0
    c.n = lambda t, q: np.array([0.0, 0.0, 1.0])  # only for the reference-basis block of assembler_callback
    try:
        c.assembler_callback()
    finally:
        del c.n
    c.reference_contact_basis = sym_basis
    for cache in (c.n_cache, c.n_q1_q2_cache, c.t1t2_cache, c.t1t2_q1_q2_cache):
        cache.clear()


def _s2s_spec(k, c, s1, s2, pair, R1, R2):
    t, q, u = pair.t, pair.q, pair.u
    n1q = pair.s1.nq if hasattr(pair, "s1") and hasattr(pair.s1, "nq") else None
    q1, q2 = q[: c.nq1], q[c.nq1 :]
    u1, u2 = u[: c.nu1], u[c.nu1 :]
    r1 = s1.r_OP(t, q1)
    r2 = s2.r_OP(t, q2)
    d = r2 - r1
    k.assume(d @ d > 0, "centres do not coincide")
    dist = np.sqrt(d @ d)
    k.prove_eq("g_N = distance of centres - R1 - R2", c.g_N(t, q), np.array([dist - R1 - R2]))
    n = c.n(t, q)
    k.prove_eq("n unit", n @ n, 1)
    k.prove_eq("n points from 1 to 2", n * dist, d)
    t1, t2 = c.t1t2(t, q)
    k.prove_eq("contact basis orthonormal", np.array([t1 @ n, t2 @ n, t1 @ t2, t1 @ t1, t2 @ t2]), np.array([0, 0, 0, 1, 1]), tol=1e-7)

    def Om(s, qq, uu):
        if getattr(s, "has_orientation", hasattr(s, "A_IB")):
            return s.A_IB(t, qq) @ s.B_Omega(t, qq, uu)
        return np.zeros(3)

    vP1 = s1.v_P(t, q1, u1) + _cross(Om(s1, q1, u1), R1 * n)
    vP2 = s2.v_P(t, q2, u2) + _cross(Om(s2, q2, u2), -R2 * n)
    k.prove_eq("gamma_F = tangential relative velocity of the touching points", c.gamma_F(t, q, u), np.array([t1 @ (vP2 - vP1), t2 @ (vP2 - vP1)]))
    # direction derivatives used by every Jacobian
    res = k.no_raise("n_q1_q2 returns", lambda: c.n_q1_q2(t, q), allowed=NI)
    if res[0]:
        k.prove_eq("n_q1_q2=dn/dq", np.hstack(res[1]), pair.d_q(lambda t_, q_: c.n(t_, q_)))
    res = k.no_raise("t1t2_q1_q2 returns", lambda: c.t1t2_q1_q2(t, q), allowed=NI)
    if res[0]:
        t1_q1, t1_q2, t2_q1, t2_q2 = res[1]
        k.prove_eq("t1_q=dt1/dq", np.hstack([t1_q1, t1_q2]), pair.d_q(lambda t_, q_: c.t1t2(t_, q_)[0]))
        k.prove_eq("t2_q=dt2/dq", np.hstack([t2_q1, t2_q2]), pair.d_q(lambda t_, q_: c.t1t2(t_, q_)[1]))


class _NoCache(dict):
    """the LRU caches are bypassed in contracts (transparency of the caches is C26)"""

    def __setitem__(self, k, v):
        pass


def _s2s_stub(kinds):
    def c_(k):
        if not k.sym:
            raise K.Reject("stub contract is symbolic only")
        k.covers(Sphere2Sphere.__init__, Sphere2Sphere.assembler_callback, Sphere2Sphere.n, Sphere2Sphere.n_q1_q2, Sphere2Sphere.t1t2, Sphere2Sphere.t1t2_q1_q2, Sphere2Sphere.g_N,
                 Sphere2Sphere.g_N_q, Sphere2Sphere.g_N_dot, Sphere2Sphere.g_N_dot_q, Sphere2Sphere.g_N_dot_u, Sphere2Sphere.W_N, Sphere2Sphere.g_N_ddot, Sphere2Sphere.Wla_N_q,
                 Sphere2Sphere.gamma_F_u, Sphere2Sphere.W_F, Sphere2Sphere.gamma_F_dot, Sphere2Sphere.Wla_F_q)
        pair = stub_pair(kinds, sizes=(((3, 3) if kinds[0] == "point" else (2, 2)), ((3, 3) if kinds[1] == "point" else (3, 2))))
        R1 = k.real("R1")
        R2 = k.real("R2")
        k.assume(R1 >= 0)
        k.assume(R2 >= 0)
        c = Sphere2Sphere(pair.s1, pair.s2, R1, R2, 0.3)
        for nm in ("n_cache", "n_q1_q2_cache", "t1t2_cache", "t1t2_q1_q2_cache"):
            setattr(c, nm, _NoCache())
        basis = S.symarray("Rref", (3, 3))
        _s2s_setup(c, basis)
        # requires of the contact basis: centres distinct (assumed in _s2s_spec) and the reference
        # tangent t2_ref not parallel to n (step_callback keeps the reference basis close to n)
        d = pair.s2.r_OP(pair.t, pair.s2.q) - pair.s1.r_OP(pair.t, pair.s1.q)
        k.assume(d @ d > 0)
        cr = _cross(basis[:, 1], d)
        k.assume(cr @ cr > 0)
        _s2s_spec(k, c, pair.s1, pair.s2, pair, R1, R2)
        _contact_hierarchy(k, c, pair)

    return c_


def _s2s_real(kinds):
    def c_(k):
        t = k.real("t")
        subs = []
        for kind, tag in zip(kinds, ("a", "b")):
            if kind == "rigid":
                s = RigidBody(1.0, np.eye(3))
                st = (k.reals(tag + "q", 7, sample=lambda g: np.concatenate([g.normal(size=3) * 2, g.normal(size=4)])), k.reals(tag + "u", 6), k.reals(tag + "ud", 6))
                k.assume(st[0][3:] @ st[0][3:] > 1e-2)
            else:
                s = PointMass(1.0)
                st = (k.reals(tag + "q", 3, sample=lambda g: g.normal(size=3) * 2), k.reals(tag + "u", 3), k.reals(tag + "ud", 3))
            s.qDOF = np.arange(len(st[0]))
            s.uDOF = np.arange(len(st[1]))
            s.q0 = st[0]
            subs.append((s, st))
        (s1, st1), (s2, st2) = subs
        R1 = k.real("R1", sample=lambda g: g.uniform(0, 1))
        R2 = k.real("R2", sample=lambda g: g.uniform(0, 1))
        c = Sphere2Sphere(s1, s2, R1, R2, 0.3)
        for nm in ("n_cache", "n_q1_q2_cache", "t1t2_cache", "t1t2_q1_q2_cache"):
            setattr(c, nm, _NoCache())
        Pr = k.reals("Pref", 4, sample=lambda g: g.normal(size=4))
        k.assume(Pr @ Pr > 1e-2)
        _s2s_setup(c, rot.Exp_SO3_quat(Pr))
        pair = RealPair(k, s1, s2, t, st1[0], st1[1], st1[2], st2[0], st2[1], st2[2])
        n = c.n(t, pair.q)
        k.assume(abs(c.reference_contact_basis[:, 1] @ n) < 0.95)
        _s2s_spec(k, c, s1, s2, pair, R1, R2)
        _contact_hierarchy(k, c, pair)

    return c_


_SOFT = ("gamma_F_dot=D_t gamma_F*", "gamma_F_q=d gamma_F/dq*", "Wla_F_q=d(W_F la_F)/dq*", "t1_q=dt1/dq*", "t2_q=dt2/dq*")
contract("C06", "Sphere2Sphere/stub-body-body", samples=0, replayable=False, timeout=120, max_paths=50, soft=_SOFT, soft_timeout=40,
         witness=_witness([("Sphere2Sphere on real RigidBodies", _s2s_real(("rigid", "rigid")))]))(_s2s_stub(("body", "body")))
contract("C06", "Sphere2Sphere/stub-point-body", tiers=("thorough",), samples=0, replayable=False, timeout=120, max_paths=50, soft=_SOFT, soft_timeout=40,
         witness=_witness([("Sphere2Sphere on PointMass/RigidBody", _s2s_real(("point", "rigid")))]))(_s2s_stub(("point", "body")))


# ------------------------------------------------------------- System dispatch
@contract("C06", "System/contact-dispatch", samples=1, timeout=60)
def c_dispatch(k):
    """System.xi_N_q / gamma_F_dot_q / gamma_F_dot_u / chi_N reach the contact routines:
    a contribution returning recognisable blocks must come back placed at its DOFs,
    and the dispatcher itself must not fail."""
    k.covers(csys.System.xi_N_q, csys.System.gamma_F_dot_q, csys.System.gamma_F_dot_u, csys.System.chi_N, csys.System.g_N_dot, csys.System.gamma_F_dot)
    a = k.reals("blk", (2, 3))

    class Dummy:
        name = "dummy_contact"
        nq, nu = 3, 3
        nla_N, nla_F = 1, 2
        q0 = np.zeros(3)
        u0 = np.zeros(3)
        e_N = np.zeros(1)
        e_F = np.zeros(2)
        friction_laws = []

        def g_N(self, t, q):
            return np.array([q[0]])

        def g_N_dot(self, t, q, u):
            return np.array([u[0] + a[0, 0]])

        def g_N_dot_q(self, t, q, u):
            return a[:1, :]

        def gamma_F(self, t, q, u):
            return u[:2]

        def gamma_F_dot(self, t, q, u, ud):
            return ud[:2]

        def gamma_F_dot_q(self, t, q, u, ud):
            return a

        def gamma_F_dot_u(self, t, q, u, ud):
            return 2 * a

    sysm = csys.System()
    d = Dummy()
    sysm.add(d)
    # assemble bookkeeping only (the consistent-initial-condition solve is C16)
    saved = csys.consistent_initial_conditions
    csys.consistent_initial_conditions = lambda system, *a_, **kw: (system.t0, system.q0, system.u0, None, None, None, None, None, None, None)
    try:
        sysm.assemble()
    finally:
        csys.consistent_initial_conditions = saved
    t = 0.0
    q = k.reals("q", 3)
    u = k.reals("u", 3)
    ud = k.reals("ud", 3)
    dense = lambda m: m.toarray() if hasattr(m, "toarray") else np.asarray(m)
    ok, v = k.no_raise("System.xi_N_q returns", lambda: dense(sysm.xi_N_q(t, q, u, format="csr")), allowed=NI)
    if ok:
        k.prove_eq("xi_N_q places g_N_dot_q", v, a[:1, :])
    ok, v = k.no_raise("System.gamma_F_dot_q returns", lambda: dense(sysm.gamma_F_dot_q(t, q, u, ud, format="csr")), allowed=NI)
    if ok:
        k.prove_eq("gamma_F_dot_q places the block", v, a)
    ok, v = k.no_raise("System.gamma_F_dot_u returns", lambda: dense(sysm.gamma_F_dot_u(t, q, u, ud, format="csr")), allowed=NI)
    if ok:
        k.prove_eq("gamma_F_dot_u places the block", v, 2 * a)
    ok, v = k.no_raise("System.chi_N returns", lambda: sysm.chi_N(t, q), allowed=NI)
    if ok:
        k.prove_eq("chi_N = g_N_dot(t, q, 0)", v, np.array([a[0, 0]]))


# --------------------------------------------------------------- bounded cross-check
@bounded("C06", "real-pairs/finite-difference-crosscheck")
def b_real(tier, seed):
    rng = np.random.default_rng(seed + 11)
    fns = [("Sphere2Plane rigid", _s2p_real("rigid")), ("Sphere2Plane point", _s2p_real("point")), ("Sphere2Sphere rigid-rigid", _s2s_real(("rigid", "rigid"))), ("Sphere2Sphere point-rigid", _s2s_real(("point", "rigid")))]
    n_pts = 2 if tier == "quick" else 10
    cases = 0
    failures = []
    seen = set()
    for name, fn in fns:
        got = tries = 0
        while got < n_pts and tries < 40:
            tries += 1
            r = K.run_conc(fn, "bounded", rng=rng)
            if r is None:
                continue
            got += 1
            cases += 1
            kk, err = r
            if err is not None and (name, "raise") not in seen:
                seen.add((name, "raise"))
                failures.append({"what": f"{name}: raised {err[0]}", "input": {a: float(b) for a, b in kk.values.items()}, "detail": err[1]})
            for res in kk.results:
                if not res["ok"] and (name, res["label"]) not in seen:
                    seen.add((name, res["label"]))
                    failures.append({"what": f"{name}: {res['label']}", "input": {a: float(b) for a, b in kk.values.items()}, "detail": res.get("note") or f"max scaled error {res['err']:.3e}"})
    return {"cases": cases, "distinct": cases, "failures": failures, "bound": f"{len(fns)} contact x subsystem combinations, {n_pts} random states each, central differences, tolerance 2e-4"}
