"""C27 - Contact proximal maps are exact projections.

Functions under contract (cardillo/math/prox.py): NegativeOrthant.prox,
Sphere.prox / active_set / residual / Jacobian, estimate_prox_parameter.
Dimensions 1..3 (quick) / 1..4 (thorough) are enumerated; within a dimension
every input is symbolic.  Non-expansiveness is carried by the standard lemma
`projection inequality at w = prox(x2)  +  feasibility  =>  non-expansive`,
proved here for the *actual outputs* of two calls of the real prox.
"""

import numpy as np

import cardillo.math.prox as px
from vk import sym as S
from vk.registry import contract

LEVEL = "proof"
TRUSTED = [
    "estimate_prox_parameter: scipy csc_array is replaced by the identity on dense arrays and spsolve(M, W) by an opaque X with the assumed contract M X = W (external numerics are never executed symbolically)",
    "estimate_prox_parameter: 'M positive definite' enters as the instance x_i^T M x_i > 0 for the columns x_i of M^-1 W; 'full column rank' as w_i != 0 (all that the diagonal entries need)",
]
EXPLANATION = "SMT obligations from symbolic execution of the real prox functions; projection inequality via a three-step proof script (identity, Cauchy-Schwarz, scalar conclusion), each step its own obligation"


# ------------------------------------------------------------ NegativeOrthant
def _neg_orthant(n):
    def c(k):
        k.covers(px.NegativeOrthant.prox)
        x = k.reals("x", n, sample=lambda r: r.normal(size=n) * 10.0 ** r.integers(-3, 4))
        y = px.NegativeOrthant.prox(x)
        k.prove_le("feasible y<=0", y, np.zeros(n))
        k.prove_eq("idempotent", px.NegativeOrthant.prox(y), y)
        w = k.reals("w", n, sample=lambda r: -np.abs(r.normal(size=n)))
        for i in range(n):
            k.assume(w[i] <= 0)
        k.prove_le("projection inequality", (x - y) @ (w - y), 0)
        # non-expansive (separable, proved directly on two calls)
        x2 = k.reals("x2", n, sample=lambda r: r.normal(size=n) * 10.0 ** r.integers(-3, 4))
        y2 = px.NegativeOrthant.prox(x2)
        k.prove_le("non-expansive", (y - y2) @ (y - y2), (x - x2) @ (x - x2))

    return c


for _n, _t in ((1, ("quick", "thorough")), (2, ("quick", "thorough")), (3, ("quick", "thorough")), (4, ("thorough",))):
    contract("C27", f"NegativeOrthant.prox[n={_n}]", tiers=_t, timeout=120)(_neg_orthant(_n))


# --------------------------------------------------------------------- Sphere
def _ball_inputs(k, n, tag=""):
    x = k.reals("x" + tag, n, sample=lambda r: r.normal(size=n) * 10.0 ** r.integers(-3, 4))
    return x


def _proj_ineq(k, x, y, radius, w, tag):
    """Proof script for (x-y).(w-y) <= 0 given |w| <= radius, for the two
    branches of Sphere.prox. `y` is the value returned by the real code."""
    xx = x @ x
    ww = w @ w
    c = x @ w
    lhs = (x - y) @ (w - y)
    if k.sym:
        inside = S._coerce(xx) <= S._coerce(radius) * S._coerce(radius)
    else:
        inside = np.linalg.norm(x) <= radius
    if inside:
        # y = x on this branch
        k.prove_le(f"projection inequality{tag}", lhs, 0)
        return
    with k.spec():
        nx = np.sqrt(xx)
        # step 1: identity (uses y = radius*x/|x| as computed by the real code)
        k.lemma(f"PI-1 identity{tag}", k.eq(lhs, (1 - radius / nx) * (c - radius * nx), tol=1e-6))
        # step 2: Cauchy-Schwarz for these vectors (no hypotheses)
        k.lemma(f"PI-2 cauchy-schwarz{tag}", k.le(c * c, xx * ww), using=[])
        k.lemma(f"PI-2b |x|^2>radius^2{tag}", k.lt(radius * radius, nx * nx))
        k.lemma(f"PI-2c |w|^2<=radius^2{tag}", k.le(ww, radius * radius, tol=1e-7))
        k.lemma(f"PI-2d radius>=0{tag}", k.le(0, radius))
        k.lemma(f"PI-2e |x|>0{tag}", k.lt(0, nx))
        # step 3: scalar conclusion, proved for ALL reals c, nx, ww, rho and then instantiated
        k.lemma_schema(
            f"PI-3 conclusion{tag}",
            [c, nx, ww, radius],
            lambda c_, n_, w_, r_: (
                [k.le(c_ * c_, n_ * n_ * w_), k.lt(r_ * r_, n_ * n_), k.le(w_, r_ * r_, tol=1e-7), k.le(0, r_), k.lt(0, n_)],
                k.le((1 - r_ / n_) * (c_ - r_ * n_), 0, tol=1e-7),
            ),
        )
    k.prove_le(f"projection inequality{tag}", lhs, 0)


def _sphere_prox(n):
    def c(k):
        k.covers(px.Sphere.__init__, px.Sphere.prox)
        r = k.real("r", sample=lambda g: g.uniform(0.05, 2.0))
        k.assume(r >= 0)
        z = k.real("z", sample=lambda g: g.normal() * 10.0 ** g.integers(-2, 3))
        x = _ball_inputs(k, n)
        ball = px.Sphere(r)
        y = ball.prox(x, z)
        with k.spec():
            radius = r * z if (r * z > 0) else 0 * r  # the degenerate ball for r*z <= 0 (spec side)
        k.prove_le("feasible |y|^2<=radius^2", y @ y, radius * radius, tol=1e-7)
        k.prove_eq("idempotent", ball.prox(y, z), y)
        w = k.reals("w", n, sample=lambda g: (lambda v: v / max(1.0, np.linalg.norm(v)))(g.normal(size=n)) * 0.0)
        if not k.sym:
            # sample w inside the ball
            v = k.rng.normal(size=n)
            w = v / np.linalg.norm(v) * k.rng.uniform(0, 1) * radius
            for i in range(n):
                k.values[f"w_{i}"] = w[i]
            if k.model is not None:
                w = np.array([float(k.model.get(f"w_{i}", w[i]) or 0.0) for i in range(n)])
        k.assume(k.le(w @ w, radius * radius, tol=1e-12))
        _proj_ineq(k, x, y, radius, w, "")

    return c


def _sphere_nonexp(n):
    def c(k):
        """|prox(x1) - prox(x2)| <= |x1 - x2|: projection inequality of call 1 at
        w = y2 and of call 2 at w = y1 (both feasible), then the scalar lemma."""
        k.covers(px.Sphere.prox)
        r = k.real("r", sample=lambda g: g.uniform(0.05, 2.0))
        k.assume(r >= 0)
        z = k.real("z", sample=lambda g: g.normal() * 10.0 ** g.integers(-2, 3))
        x1 = _ball_inputs(k, n, "1")
        x2 = _ball_inputs(k, n, "2")
        ball = px.Sphere(r)
        y1 = ball.prox(x1, z)
        y2 = ball.prox(x2, z)
        with k.spec():
            radius = r * z if (r * z > 0) else 0 * r
        f1 = k.lemma("feasible y1", k.le(y1 @ y1, radius * radius, tol=1e-7))
        f2 = k.lemma("feasible y2", k.le(y2 @ y2, radius * radius, tol=1e-7))
        _proj_ineq(k, x1, y1, radius, y2, " (x1 at w=y2)")
        _proj_ineq(k, x2, y2, radius, y1, " (x2 at w=y1)")
        d = y1 - y2
        e = x1 - x2
        A = (x1 - y1) @ (y2 - y1)
        B = (x2 - y2) @ (y1 - y2)
        dd, ee, ed = d @ d, e @ e, e @ d
        with k.spec():
            k.lemma("NE-1 sum of the two inequalities", k.eq(A + B, dd - ed, tol=1e-6), using=[])
            k.lemma("NE-1b", k.le(A, 0, tol=1e-7))
            k.lemma("NE-1c", k.le(B, 0, tol=1e-7))
            k.lemma_schema(
                "NE-2 firmly non-expansive",
                [A, B, dd, ed],
                lambda A_, B_, dd_, ed_: ([k.le(A_, 0, tol=1e-7), k.le(B_, 0, tol=1e-7), k.eq(A_ + B_, dd_ - ed_, tol=1e-6)], k.le(dd_, ed_, tol=1e-6)),
            )
            k.lemma("NE-3 cauchy-schwarz", k.le(ed * ed, ee * dd, tol=1e-7), using=[])
            k.lemma("NE-3b", k.le(0, dd), using=[])
            k.lemma("NE-3c", k.le(0, ee), using=[])
            k.lemma_schema(
                "NE-4 conclusion",
                [dd, ed, ee],
                lambda dd_, ed_, ee_: ([k.le(dd_, ed_, tol=1e-6), k.le(ed_ * ed_, ee_ * dd_, tol=1e-7), k.le(0, dd_), k.le(0, ee_)], k.le(dd_, ee_, tol=1e-6)),
            )
        k.prove_le("non-expansive", dd, ee, tol=1e-7)

    return c


for _n, _t in ((1, ("quick", "thorough")), (2, ("quick", "thorough")), (3, ("quick", "thorough")), (4, ("thorough",))):
    contract("C27", f"Sphere.prox[n={_n}]", tiers=_t, timeout=120)(_sphere_prox(_n))
for _n, _t in ((1, ("quick", "thorough")), (2, ("quick", "thorough")), (3, ("thorough",)), (4, ("thorough",))):
    contract("C27", f"Sphere.prox/non-expansive[n={_n}]", tiers=_t, timeout=180, samples=3)(_sphere_nonexp(_n))


def _sphere_residual(n):
    def c(k):
        """residual/active_set/Jacobian: active_set <=> |rho x - y| <= radius;
        residual is (a positive multiple of) y + prox(rho x - y); Jacobian = d residual."""
        k.covers(px.Sphere.active_set, px.Sphere.residual, px.Sphere.Jacobian, px.Sphere.prox)
        r = k.real("r", sample=lambda g: g.uniform(0.05, 2.0))
        k.assume(r > 0)
        rho = k.real("rho", sample=lambda g: g.uniform(0.05, 5.0))
        k.assume(rho > 0)
        z = k.reals("z", 1, sample=lambda g: g.normal(size=1) * 3)
        x = k.reals("x", n)
        y = k.reals("y", n)
        ball = px.Sphere(r)
        act = ball.active_set(x, y, z[0], rho)
        arg = rho * x - y
        with k.spec():
            radius = r * z[0] if (r * z[0] > 0) else 0 * r
        if act:
            k.prove_le("active => |arg|^2 <= radius^2", arg @ arg, radius * radius)
        else:
            k.prove_lt("inactive => |arg|^2 > radius^2", radius * radius, arg @ arg)
            # away from the active-set boundary and from the kink r*z = 0
            k.assume(arg @ arg > 0)
        res = ball.residual(x, y, z[0], rho, act)
        p = ball.prox(arg, z[0])
        if act:
            k.prove_eq("residual ~ y+prox(arg) (active)", rho * res, y + p)
        else:
            k.prove_eq("residual = y+prox(arg) (inactive)", res, y + p)
        Jx, Jy, Jz = ball.Jacobian(x, y, z, rho, act)
        k.prove_eq("Jx=d residual/dx", Jx, k.jac(lambda x_: ball.residual(x_, y, z[0], rho, act), x))
        k.prove_eq("Jy=d residual/dy", Jy, k.jac(lambda y_: ball.residual(x, y_, z[0], rho, act), y))
        if k.sym:
            k.assume(~(r * z[0] == 0))  # the kink of max(0, r z) is excluded ('away from the boundary')
        else:
            k.assume(abs(r * z[0]) > 1e-3)
        k.prove_eq("Jz=d residual/dz", Jz, k.jac(lambda z_: np.asarray(ball.residual(x, y, z_[0], rho, act)), z))

    return c


for _n, _t in ((1, ("quick", "thorough")), (2, ("quick", "thorough")), (3, ("thorough",))):
    contract("C27", f"Sphere.residual-Jacobian[n={_n}]", tiers=_t, timeout=120)(_sphere_residual(_n))


# ---------------------------------------------------- estimate_prox_parameter
def _estimate(nu, cols):
    def c(k):
        k.covers(px.estimate_prox_parameter)
        alpha = k.real("alpha", sample=lambda g: g.uniform(0.05, 1.95))
        k.assume(alpha > 0)

        def spd(g):
            a = g.normal(size=(nu, nu))
            return a @ a.T + 0.1 * np.eye(nu)

        M = k.reals("M", (nu, nu), sample=spd)
        W = k.reals("W", (nu, cols))
        for j in range(cols):
            k.assume(W[:, j] @ W[:, j] > 0)  # full column rank => every column is nonzero
        if k.sym:
            X = k.reals("X", (nu, cols))  # opaque result of spsolve(M, W)
            k.axiom(S.conj([(M @ X - W)[i, j] == 0 for i in range(nu) for j in range(cols)]), "assumed contract of scipy spsolve: M @ spsolve(M, W) = W")
            for j in range(cols):
                xj = X[:, j]
                k.axiom((~(xj @ xj > 0)) | (xj @ M @ xj > 0), "M positive definite, instantiated at the columns of M^-1 W: x != 0 => x^T M x > 0")
            saved = (px.csc_array, px.spsolve)
            px.csc_array = lambda a: a
            px.spsolve = lambda A, B: X
            try:
                r = px.estimate_prox_parameter(alpha, W, M)
            finally:
                px.csc_array, px.spsolve = saved
            G = [W[:, j] @ X[:, j] for j in range(cols)]
        else:
            r = px.estimate_prox_parameter(alpha, W, M)
            Xn = np.linalg.solve(M, W)
            G = [W[:, j] @ Xn[:, j] for j in range(cols)]
        r = np.asarray(r)
        k.prove_lt("r_i>0", np.zeros(cols), r)
        k.prove_eq("r_i * (w_i^T M^-1 w_i) = alpha", r * np.array(G), alpha * np.ones(cols))
        k.prove_lt("G_ii>0 (finite r_i)", np.zeros(cols), np.array(G))

    return c


for _nu, _c, _t in ((1, 1, ("quick", "thorough")), (2, 1, ("quick", "thorough")), (2, 2, ("quick", "thorough")), (3, 2, ("thorough",)), (3, 3, ("thorough",))):
    contract("C27", f"estimate_prox_parameter[nu={_nu},cols={_c}]", tiers=_t, timeout=120)(_estimate(_nu, _c))


def _estimate_empty(k):
    k.covers(px.estimate_prox_parameter)
    alpha = k.real("alpha", sample=lambda g: g.uniform(0.05, 1.95))
    k.assume(alpha > 0)
    W = np.zeros((3, 0))
    M = np.eye(3)
    r = px.estimate_prox_parameter(alpha, W, M)
    k.prove("empty W gives empty r", len(r) == 0)
    k.prove_le("dummy-positive-alpha", 0, alpha)


contract("C27", "estimate_prox_parameter[cols=0]", samples=2)(_estimate_empty)


@contract("C27", "estimate_prox_parameter/force directions of any numeric dtype and container", samples=0, replayable=False, timeout=30)
def c_estimate_dtypes(k):
    """the real estimate_prox_parameter with the real scipy solve (executed natively): W given as integer / float32 /
    float64 arrays, dense or sparse (csc, coo, csr), M diagonal or full SPD - the result is r_i = alpha / (w_i^T M^-1 w_i),
    positive, finite and of floating type, whatever the machine type of W"""
    from vk import kit as K
    from vk import npshim

    if not k.sym:
        raise K.Reject("decided by native execution")
    from scipy.sparse import coo_array, csc_array, csr_array

    k.covers(px.estimate_prox_parameter)
    rng = np.random.default_rng(27)
    with npshim.active(False):
        for trial in range(6):
            n = int(rng.integers(1, 6))
            cols = int(rng.integers(1, min(n, 3) + 1))
            while True:
                Wi = rng.integers(-1, 2, size=(n, cols))
                if np.linalg.matrix_rank(Wi) == cols:
                    break
            L = rng.normal(size=(n, n))
            M = np.diag(rng.uniform(0.5, 2.0, n)) if trial % 2 == 0 else L @ L.T + n * np.eye(n)
            alpha = float(rng.uniform(0.2, 2.0))
            ref = alpha / np.diag(Wi.T @ np.linalg.solve(M, Wi.astype(float)))
            for tag, W in (("int64 dense", Wi.astype(np.int64)), ("int32 dense", Wi.astype(np.int32)), ("float32 dense", Wi.astype(np.float32)), ("float64 dense", Wi.astype(float)),
                           ("int64 csc", csc_array(Wi.astype(np.int64))), ("int64 coo", coo_array(Wi.astype(np.int64))), ("float64 csr", csr_array(Wi.astype(float)))):
                r = np.asarray(px.estimate_prox_parameter(alpha, W, csc_array(M)))
                ok = r.shape == (cols,) and np.issubdtype(r.dtype, np.floating) and bool(np.all(np.isfinite(r)) and np.all(r > 0)) and bool(np.allclose(r, ref, rtol=1e-5 if "32" in tag else 1e-10))
                k.prove(f"trial {trial} (n = {n}, {cols} columns, {'diagonal' if trial % 2 == 0 else 'full'} M), W as {tag}: r = alpha / diag(W^T M^-1 W), positive, finite, floating", ok)


@contract("C27", "prox maps/integer-typed and float32 vectors of any magnitude denote the same real values", samples=0, replayable=False, timeout=30)
def c_prox_machine_types(k):
    """the projections are stated for real vectors; a vector stored as int16 / int32 / int64 / float32 is such a vector.
    Integer arithmetic wraps silently (a @ a of an int64 vector overflows above |x| ~ 3e9, of an int16 one above 181), a
    symbolic run cannot see that: NegativeOrthant.prox, Sphere.prox, Sphere.active_set and Sphere.residual are executed
    natively on integer-typed and float32 vectors, small and near the limits of their type, and compared with float64."""
    from vk import kit as K
    from vk import npshim

    if not k.sym:
        raise K.Reject("decided by native execution")
    import cardillo.math.prox as px

    k.covers(px.NegativeOrthant.prox, px.Sphere.prox, px.Sphere.active_set, px.Sphere.residual)
    cases = [
        ("int64 small", np.array([3, -4], dtype=np.int64), 2.0), ("int64 near the square-overflow limit", np.array([3000000000, 4000000000], dtype=np.int64), 4.0e9), ("int64 one component", np.array([10000000000], dtype=np.int64), 9.0e9),
        ("int32 small", np.array([3, -4, 12], dtype=np.int32), 6.5), ("int32 large", np.array([60000, 80000], dtype=np.int32), 90000.0), ("int16 large", np.array([300, 400], dtype=np.int16), 100.0),
        ("float32", np.array([0.3, -0.4, 1.2], dtype=np.float32), 0.65), ("float64 control", np.array([3.0e9, 4.0e9]), 4.0e9),
    ]
    with npshim.active(False), np.errstate(all="ignore"):
        for tag, x, z in cases:
            xf = x.astype(float)
            tol = 1e-6 if "32" in tag and "float" in tag else 1e-12
            for mu in (1.0, 0.5):
                s = px.Sphere(mu)
                for name, call in (
                    ("Sphere.prox", lambda v: s.prox(v, z)),
                    ("Sphere.active_set", lambda v: s.active_set(v, np.zeros_like(v), z, 1)),
                    ("Sphere.residual[inactive/active as computed]", lambda v: s.residual(v, np.zeros_like(v), z, 1, s.active_set(v, np.zeros_like(v), z, 1))),
                ):
                    try:
                        want = np.asarray(call(xf), dtype=float)
                        got = np.asarray(call(x), dtype=float)
                        ok = got.shape == want.shape and bool(np.allclose(got, want, rtol=tol, atol=tol * max(1.0, float(np.max(np.abs(xf))))))
                        how = "" if ok else f"got {got}, float64 gives {want}"
                    except Exception as e:  # noqa: BLE001
                        ok, how = False, f"raised {type(e).__name__}: {e}"
                    k.prove(f"{name}(mu={mu}, z={z:g}) on {tag} {x.tolist()}: result of the float64 vector", ok, show=how)
            try:
                ok = bool(np.allclose(np.asarray(px.NegativeOrthant().prox(x), dtype=float), np.asarray(px.NegativeOrthant().prox(xf), dtype=float)))
            except Exception as e:  # noqa: BLE001
                ok = False
            k.prove(f"NegativeOrthant.prox on {tag} {x.tolist()}: result of the float64 vector", ok)
