"""C23 - Static solvers return equilibria and are frame-indifferent.

What a contract can say is structural and exact (same pattern as C17):

  Newton.fun(x, t)        rows ARE  h(t,q,0) + W_g la_g + W_c la_c + W_N la_N,  g(t,q),  c(t,q,0,la_c),  g_S(t,q),
                          min(la_N, g_N(t,q))   - static equilibrium, bilateral / compliance / unit-quaternion rows and
                          the static Signorini conditions in NCP form
  |min(a,b)| <= eps       =>  a >= -eps, b >= -eps, min(|a|,|b|) <= eps     (what a small NCP row means; lemma over the reals)
  Newton.solve            one arbitrary load step of the REAL loop (vk/loopcut.py), fsolve opaque with the contract proved
                          in C22 (success <=> scaled residual of `fun` at the returned x below 1 for the tolerances of the
                          `options` it was given): it is called with fun = self.fun, jac = self.jac, the load level of THIS
                          step, the warm start of the previous step and the solver's own options; the stored row is
                          (step_callback(t_i, q*), la*) of the accepted result; the returned Solution pairs row i with
                          load level t_i; a failed step is not returned (and is warned about - also C21)
  Riks.R(x)               rows ARE equilibrium incl. contact forces, c, g, g_S, min(la_N,g_N) at load factor x[-1], and the
                          arc-length equation |q - q_k|^2 - ds^2
  Riks.__init__/solve     the initial solve uses R at la_arc0; one arbitrary round of the REAL while loop, then a second one
                          from the state the first left behind: each stored point is the accepted fsolve result of R (failure
                          raises), what round n stored is not modified by round n+1 (frame), the first point is the initial
                          configuration at load factor 0, leaving the loop because max_load_steps is exhausted warns

The numeric clause "within the solver tolerance" is the composition with C22 and is exercised by the bounded
stand-in: real static problems (point mass on springs with a unilateral contact; cantilever rods, all formulations in
thorough), residuals recomputed by the harness from System methods.  Frame indifference of the computed equilibria
is a statement about the numerical path of Newton's method, not a function contract; the model-level part is C10
(objectivity of the rod forces).  It is exercised by the bounded stand-in only (rigidly moved problem, same load
steps) and is never counted as proved.
"""

import contextlib
import io
import warnings

import numpy as np

import cardillo.solver.statics as st
from cardillo.solver import SolverOptions
from contracts.C21 import _Pbar, _Rec, _warnmod
from contracts.sysstub import SysStub, mat, patched
from vk import kit as K
from vk import loopcut, npshim
from vk import sym as S
from vk.registry import bounded, contract

LEVEL = "proof"
TRUSTED = [
    "System callee contract (contracts/sysstub.py): every System quantity an uninterpreted function of its arguments; step_callback uninterpreted (normalisation leaves rotations unchanged: C01/C04/C11)",
    "fsolve is an opaque callee with the contract proved in C22 (success <=> scaled residual of the function it was given < 1 at the returned x; not success => warned); scipy.sparse bmat / lil_array are not executed by the residual rows",
    "loop cut of the load-step loop (Newton) and of the arc-length while loop (Riks): one arbitrary round (Riks: two consecutive rounds) from an arbitrary solver state; termination not proved",
    "the tolerance clause is the composition with C22 and is checked numerically by the bounded stand-in only; frame indifference of the computed equilibria is checked by the bounded stand-in only (not a function contract)",
]
EXPLANATION = "symbolic execution of the real Newton.fun / Riks.R against the System callee contract (rows compared with the equilibrium equations), loop-cut execution of the real solve() methods with an opaque fsolve (dataflow from the accepted result to the returned Solution, frame of the stored points), NCP lemma; bounded real static problems"

SIZES = dict(nq=3, nu=2, nla_g=1, nla_gamma=0, nla_c=1, nla_tau=0, nla_N=1, nla_F=0, nla_S=1)


def _quiet(**extra):
    names = dict(tqdm=_Pbar, print=lambda *a, **kw: None)
    names.update(extra)
    return names


def _newton(k, rec=None, fsolve=None, n_load_steps=3, options=None):
    sysm = SysStub(k, sizes=SIZES, friction=False, t0=0.0)
    names = _quiet()
    if rec is not None:
        names["warnings"] = _warnmod(rec)
    if fsolve is not None:
        names["fsolve"] = fsolve
    return sysm, names


# --------------------------------------------------------------------------- residual rows
@contract("C23", "Newton.fun/rows", samples=0, replayable=False, timeout=60)
def c_newton_fun(k):
    if not k.sym:
        raise K.Reject("symbolic only")
    k.covers(st.Newton.fun)
    sysm, names = _newton(k)
    with patched(st, **names), npshim.active(True), k.spec():
        solver = st.Newton(sysm, n_load_steps=3, verbose=False, options=SolverOptions())
        nx = sysm.nq + sysm.nla_g + sysm.nla_c + sysm.nla_N
        x = S.symarray("x", nx)
        t = S.var("t")
        F = solver.fun(x, t)
        q, la_g, la_c, la_N = x[: sysm.nq], x[sysm.nq : sysm.nq + 1], x[sysm.nq + 1 : sysm.nq + 2], x[sysm.nq + 2 :]
        u0 = np.zeros(sysm.nu)
        nu = sysm.nu
        k.prove("the residual has one row per unknown", len(F) == nx)
        k.prove_eq("static problem: the velocity passed to the System is zero", solver.u0, np.zeros(nu))
        k.prove_eq("rows: static equilibrium h(t,q,0) + W_g la_g + W_c la_c + W_N la_N", F[:nu], sysm.h(t, q, u0) + sysm.W_g(t, q) @ la_g + sysm.W_c(t, q) @ la_c + sysm.W_N(t, q) @ la_N)
        k.prove_eq("rows: bilateral constraints g(t,q)", F[nu : nu + 1], sysm.g(t, q))
        k.prove_eq("rows: compliance equations c(t,q,0,la_c)", F[nu + 1 : nu + 2], sysm.c(t, q, u0, la_c))
        k.prove_eq("rows: unit-quaternion / internal constraints g_S(t,q)", F[nu + 2 : nu + 3], sysm.g_S(t, q))
        gN = sysm.g_N(t, q)
        _ncp(k, "rows: static Signorini conditions", F[nu + 3 :], la_N, gN)


def _ncp(k, label, rows, la_N, gN):
    """rows = min(la_N, g_N) entrywise, and what a small value of it means"""
    rows = np.asarray(rows, dtype=object)
    k.prove(label + ": one row per contact", len(rows) == len(la_N))
    eps = S.var("eps_tol")
    for i in range(len(la_N)):
        a, b, r = S._coerce(la_N[i]), S._coerce(gN[i]), S._coerce(rows[i])
        k.prove(f"{label}: row {i} = min(la_N, g_N)", ((a <= b) & (r == a)) | ((b <= a) & (r == b)))
        # meaning of the row: |row| <= eps  =>  la_N >= -eps, g_N >= -eps and one of them is <= eps
        hyp = [eps >= 0, r <= eps, r >= -eps, ((a <= b) & (r == a)) | ((b <= a) & (r == b))]
        k.lemma(f"{label}: |row {i}| <= eps => la_N >= -eps", a >= -eps, using=hyp)
        k.lemma(f"{label}: |row {i}| <= eps => g_N >= -eps", b >= -eps, using=hyp)
        k.lemma(f"{label}: |row {i}| <= eps => la_N <= eps or g_N <= eps (complementarity)", (a <= eps) | (b <= eps), using=hyp)


@contract("C23", "Riks.R/rows", samples=0, replayable=False, timeout=60)
def c_riks_R(k):
    if not k.sym:
        raise K.Reject("symbolic only")
    k.covers(st.Riks.R, st.Riks.a)
    solver, sysm, rec, calls = _riks(k)
    with patched(st, **_quiet()), npshim.active(True), k.spec():
        n = sysm.nq + sysm.nla_c + sysm.nla_g + sysm.nla_N + 1
        x = S.symarray("x", n)
        solver.xk = S.symarray("xk", n)
        solver.ds = S.var("ds")
        R = solver.R(x)
        nq, nu = sysm.nq, sysm.nu
        q, la_c, la_g, la_N, t = x[:nq], x[nq : nq + 1], x[nq + 1 : nq + 2], x[nq + 2 : nq + 3], x[-1]
        u0 = np.zeros(nu)
        k.prove("the residual has one row per unknown", len(R) == n)
        k.prove_eq("static problem: the velocity passed to the System is zero", solver.u0, np.zeros(nu))
        k.prove_eq("rows: static equilibrium h + W_c la_c + W_g la_g + W_N la_N at load factor x[-1]", R[:nu], sysm.h(t, q, u0) + sysm.W_c(t, q) @ la_c + sysm.W_g(t, q) @ la_g + sysm.W_N(t, q) @ la_N)
        k.prove_eq("rows: compliance equations c(t,q,0,la_c)", R[nu : nu + 1], sysm.c(t, q, u0, la_c))
        k.prove_eq("rows: bilateral constraints g(t,q)", R[nu + 1 : nu + 2], sysm.g(t, q))
        k.prove_eq("rows: unit-quaternion / internal constraints g_S(t,q)", R[nu + 2 : nu + 3], sysm.g_S(t, q))
        _ncp(k, "rows: static Signorini conditions", R[nu + 3 : nu + 4], la_N, sysm.g_N(t, q))
        dq = q - solver.xk[:nq]
        k.prove_eq("last row: arc-length equation |q - q_k|^2 - ds^2", R[-1], dq @ dq - solver.ds**2)


# --------------------------------------------------------------------------- Newton.solve
class _Res:
    pass


def _fsolve_rec(rec, calls, outcome="both", nit=1):
    """opaque fsolve (contract: C22).  Records what it was called with."""

    def fsolve(fun, x0, jac=None, fun_args=(), jac_args=(), inexact=False, options=None, **kw):
        rec.n += 1
        n = rec.n
        x = S.symarray(f"newton{n}_x", len(x0))
        ok = bool(S.boolvar(f"newton{n}_ok")) if outcome == "both" else bool(outcome)
        rec.events.append(("newton", ok))
        if not ok:
            rec.warnings.append(("fsolve", "fsolve is not converged"))
        calls.append(dict(fun=fun, x0=np.array(x0, dtype=object).copy(), jac=jac, fun_args=fun_args, jac_args=jac_args, options=options, x=x.copy(), ok=ok, extra=kw))
        r = _Res()
        r.x, r.success, r.error, r.fun, r.nit, r.nfev, r.njev = x, ok, S.var(f"newton{n}_err"), None, nit, 1, 1
        return r

    return fsolve


def _same_method(a, b):
    return getattr(a, "__func__", a) is getattr(b, "__func__", b) and getattr(a, "__self__", None) is getattr(b, "__self__", None)


def _newton_step(idx, cont):
    def c(k):
        if not k.sym:
            raise K.Reject("symbolic only")
        k.covers(st.Newton.solve)
        rec, calls = _Rec(), []
        sysm = SysStub(k, sizes=SIZES, friction=False, t0=0.0)
        opts = SolverOptions()
        opts.continue_with_unconverged = cont
        with patched(st, **_quiet(fsolve=_fsolve_rec(rec, calls), warnings=_warnmod(rec))), npshim.active(True), k.spec():
            solver = st.Newton(sysm, n_load_steps=3, verbose=False, options=opts)
            rec.warnings.clear()
            xs = np.empty(solver.x.shape, dtype=object)
            xs[...] = S.symarray("xs", solver.x.shape)
            solver.x = xs
            head = xs.copy()

            class H(loopcut.Helper):
                back = None

                def element(self, it):
                    return idx

                def last(self, it):
                    return len(it) - 1

                def back_edge(self, loc):
                    self.back = dict(loc)

            helper = H("iter")
            run = loopcut.cut(solver.solve, loop=0)
            k.loop_info = run.info
            try:
                val, outcome = run(helper), "return"
            except loopcut.Stop:
                val, outcome = None, "back"
            except (RuntimeError, AssertionError, ValueError) as e:
                val, outcome = e, "raise"
            nq, ng, nc = sysm.nq, sysm.nla_g, sysm.nla_c
            t_i = float(solver.load_steps[idx])
            tag = f"[load step {idx} of 3]"
            k.prove("exactly one nonlinear solve per load step " + tag, len(calls) == 1)
            c0 = calls[0]
            k.prove("the nonlinear solve is given Newton.fun and Newton.jac of this solver " + tag, _same_method(c0["fun"], solver.fun) and _same_method(c0["jac"], solver.jac))
            fa = c0["fun_args"] if isinstance(c0["fun_args"], tuple) else (c0["fun_args"],)
            ja = c0["jac_args"] if isinstance(c0["jac_args"], tuple) else (c0["jac_args"],)
            k.prove("residual and Jacobian are evaluated at the load level of this step " + tag, len(fa) == 1 and float(fa[0]) == t_i and (len(ja) == 0 or (len(ja) == 1 and float(ja[0]) == t_i)))
            k.prove("the nonlinear solve uses the tolerances of the solver's own options " + tag, c0["options"] is solver.options and not c0["extra"])
            k.prove_eq("initial guess = the row of this load step (warm start of the previous step) " + tag, c0["x0"], head[idx])
            if outcome == "back":
                qs, _ = sysm.step_callback(t_i, c0["x"][:nq], np.zeros(sysm.nu))
                k.prove("a step is only kept after a converged solve (or continue_with_unconverged) " + tag, c0["ok"] or cont)
                k.prove_eq("stored q = step_callback(t_i, q of the accepted result) " + tag, solver.x[idx, :nq], qs)
                k.prove_eq("stored multipliers = those of the accepted result " + tag, solver.x[idx, nq:], c0["x"][nq:])
                for j in range(solver.x.shape[0]):
                    if j not in (idx, idx + 1):
                        k.prove_eq(f"row {j} of the other load steps is untouched " + tag, solver.x[j], head[j])
                if idx + 1 < solver.x.shape[0]:
                    k.prove_eq("the next row is warm-started with this one " + tag, solver.x[idx + 1], solver.x[idx])
            elif outcome == "return":
                if idx < solver.x.shape[0] - 1 or not c0["ok"]:
                    k.prove("only a failed solve ends the loop early " + tag, not c0["ok"] and not cont)
                    k.prove("early stop: a warning names the load level it stopped at " + tag, any(o == "solver" and (repr(t_i) in m or format(t_i, "") in m) for o, m in rec.warnings))
                    k.prove("early stop: exactly the load steps before the failed one are returned " + tag, len(val.t) == idx and len(val.q) == idx and len(val.la_g) == idx and len(val.la_c) == idx and len(val.la_N) == idx and len(val.u) == idx)
                    if idx:
                        k.prove_eq("early stop: returned rows are the stored rows " + tag, np.hstack([val.q, val.la_g, val.la_c, val.la_N]), head[:idx])
                        k.prove_eq("early stop: returned load levels " + tag, val.t, solver.load_steps[:idx])
            else:
                k.prove("a load step only raises after a failed solve " + tag, not c0["ok"])

    return c


for _idx in (0, 1, 3):
    for _cont in (False, True):
        contract("C23", f"Newton.solve[load step {_idx} of 3,continue={_cont}]/iter", samples=0, replayable=False, timeout=30)(_newton_step(_idx, _cont))


@contract("C23", "Newton.solve/returned-solution", samples=0, replayable=False, timeout=30)
def c_newton_result(k):
    """exhausted loop: the Solution pairs row i with load level i"""
    if not k.sym:
        raise K.Reject("symbolic only")
    k.covers(st.Newton.solve)
    rec, calls = _Rec(), []
    sysm = SysStub(k, sizes=SIZES, friction=False, t0=0.0)
    with patched(st, **_quiet(fsolve=_fsolve_rec(rec, calls, outcome=True), warnings=_warnmod(rec))), npshim.active(True), k.spec():
        solver = st.Newton(sysm, n_load_steps=3, verbose=False, options=SolverOptions())
        rec.warnings.clear()
        sol = solver.solve()  # the real loop, four load steps, every solve reports success
        nq, ng, nc = sysm.nq, sysm.nla_g, sysm.nla_c
        k.prove("one solve per load level, in order", len(calls) == 4 and [float(c["fun_args"][0]) for c in calls] == [float(t) for t in solver.load_steps])
        k.prove("all fields have one row per load level", len(sol.t) == len(sol.q) == len(sol.u) == len(sol.la_g) == len(sol.la_c) == len(sol.la_N) == 4)
        k.prove_eq("returned load levels", sol.t, solver.load_steps)
        for i, c in enumerate(calls):
            qs, _ = sysm.step_callback(float(solver.load_steps[i]), c["x"][:nq], np.zeros(sysm.nu))
            k.prove_eq(f"row {i}: q = step_callback(t_i, accepted q)", sol.q[i], qs)
            k.prove_eq(f"row {i}: la_g of the accepted result", sol.la_g[i], c["x"][nq : nq + ng])
            k.prove_eq(f"row {i}: la_c of the accepted result", sol.la_c[i], c["x"][nq + ng : nq + ng + nc])
            k.prove_eq(f"row {i}: la_N of the accepted result", sol.la_N[i], c["x"][nq + ng + nc :])
            if i:
                k.prove_eq(f"row {i}: warm start = stored row {i-1}", c["x0"], np.concatenate([sol.q[i - 1], sol.la_g[i - 1], sol.la_c[i - 1], sol.la_N[i - 1]]))
        k.prove_eq("static solution: zero velocities", sol.u, np.zeros((4, sysm.nu)))
        k.prove("converged run: no warning", not rec.warnings)


# --------------------------------------------------------------------------- Riks
def _riks(k, outcome=True, **kw):
    rec, calls = _Rec(), []
    sysm = SysStub(k, sizes=SIZES, friction=False, t0=0.0)
    with patched(st, **_quiet(fsolve=_fsolve_rec(rec, calls, outcome=outcome), warnings=_warnmod(rec))), npshim.active(True), k.spec():
        try:
            solver = st.Riks(sysm, la_arc0=0.125, options=SolverOptions(), **kw)
        except AssertionError:
            raise K.PathInfeasible()  # precondition of the solve contracts: the solver was constructed (ds > 0; see Riks.__init__/initial-solve)
    return solver, sysm, rec, calls


@contract("C23", "Riks.__init__/initial-solve", samples=0, replayable=False, timeout=60, max_paths=40)
def c_riks_init(k):
    if not k.sym:
        raise K.Reject("symbolic only")
    k.covers(st.Riks.__init__)
    rec, calls = _Rec(), []
    sysm = SysStub(k, sizes=SIZES, friction=False, t0=0.0)
    opts = SolverOptions()
    with patched(st, **_quiet(fsolve=_fsolve_rec(rec, calls), warnings=_warnmod(rec))), npshim.active(True), k.spec():
        try:
            solver, outcome = st.Riks(sysm, la_arc0=0.125, options=opts), "constructed"
        except AssertionError as e:
            solver, outcome = e, "raise"
        k.prove("one initial nonlinear solve", len(calls) == 1)
        c0 = calls[0]
        if outcome == "raise":
            k.prove("construction only fails after a failed initial solve or a zero arc length", True)
            return
        k.prove("a failed initial solve is not accepted", c0["ok"])
        k.prove("the initial solve uses the solver's own options", c0["options"] is opts)
        n = sysm.nq + sysm.nla_c + sysm.nla_g + sysm.nla_N
        z = S.symarray("z", n)
        solver_R = solver.R(np.concatenate([z, [0.125]]))[:-1]
        k.prove_eq("the initial solve's residual is R(., la_arc0) without the arc-length row", c0["fun"](z), solver_R)
        k.prove_eq("x0_bar = (accepted result, la_arc0)", solver.x0_bar, np.concatenate([c0["x"], [0.125]]))
        k.prove_eq("initial guess = (q0, la_c0, la_g0, la_N0)", c0["x0"], np.concatenate([sysm.q0, sysm.la_c0, sysm.la_g0, sysm.la_N0]))
        dq = c0["x"][: sysm.nq] - sysm.q0
        k.prove_eq("ds^2 = |q(la_arc0) - q0|^2", solver.ds**2, dq @ dq)
        k.prove_eq("last converged point = (initial configuration, load factor 0)", solver.xk, np.concatenate([sysm.q0, sysm.la_c0, sysm.la_g0, sysm.la_N0, [0]]))


class _RiksHelper(loopcut.Helper):
    def __init__(self, mode, k, solver, n, rounds=2):
        super().__init__(mode)
        self.k, self.solver, self.n, self.nrounds = k, solver, n, rounds
        self.backs = []
        self.head = None

    def havoc(self, name, old):
        if name == "xk1":
            return S.symarray("xk1_h", self.n)
        if name in ("i", "load_step"):
            return self.counter[name]
        if name in ("i0",):
            return 0
        return old

    def assume_inv(self, loc):
        s = self.solver
        s.xk = S.symarray("xk_h", self.n)
        s.x0 = S.symarray("x0_h", self.n)
        s.ds = S.var("ds_h")
        # the lists hold an arbitrary number of earlier points: model them by m = 2 arbitrary entries
        for nm, width in (("q", s.system.nq), ("la_c", s.system.nla_c), ("la_g", s.system.nla_g), ("la_N", s.system.nla_N)):
            loc[nm][:] = [S.symarray(f"{nm}_e{j}_", width) for j in range(2)]
        loc["la_arc"][:] = [S.var("la_arc_e0"), S.var("la_arc_e1")]
        self.lists = {nm: loc[nm] for nm in ("q", "la_c", "la_g", "la_N", "la_arc")}
        self.head = {nm: [np.array(e, dtype=object).copy() for e in v] for nm, v in self.lists.items()}
        self.head_state = dict(xk=s.xk.copy(), x0=s.x0.copy(), ds=s.ds)

    def assume_cond(self, cond, value):
        if bool(cond) != value:
            raise K.PathInfeasible()

    def rounds(self):
        return tuple(range(self.nrounds))

    def back_edge(self, loc):
        s = self.solver
        self.backs.append(dict(lists={nm: [np.array(e, dtype=object).copy() for e in v] for nm, v in self.lists.items()}, xk=np.array(s.xk, dtype=object).copy(), x0=np.array(s.x0, dtype=object).copy(), ds=s.ds, xk1=np.array(loc["xk1"], dtype=object).copy(), i=loc["i"], load_step=loc["load_step"]))


def _riks_round(first):
    """two consecutive rounds of the real while loop from an arbitrary state; `first`: the first of them is round i = 1
    (tangent predictor, no secant step) or a later one"""

    def c(k):
        if not k.sym:
            raise K.Reject("symbolic only")
        k.covers(st.Riks.solve)
        solver, sysm, rec, calls = _riks(k)
        del calls[:]
        rec.warnings.clear()
        n = sysm.nq + sysm.nla_c + sysm.nla_g + sysm.nla_N + 1
        nq, nc, ng, nN = sysm.nq, sysm.nla_c, sysm.nla_g, sysm.nla_N
        fs = _fsolve_rec(rec, calls)
        with patched(st, **_quiet(fsolve=fs, warnings=_warnmod(rec), int=lambda v: 0 if isinstance(v, S.Sym) else int(v))), npshim.active(True), k.spec():
            helper = _RiksHelper("iter", k, solver, n)
            helper.counter = dict(i=0 if first else 5, load_step=0 if first else 5)
            run = loopcut.cut(solver.solve, loop=0)
            k.loop_info = run.info
            try:
                val, outcome = run(helper), "return"
            except loopcut.Stop:
                val, outcome = None, "back"
            except AssertionError as e:
                val, outcome = e, "raise"
            done = len(helper.backs)
            if outcome == "raise":
                k.prove("a round only raises after a failed nonlinear solve", len(calls) == done + 1 and not calls[-1]["ok"])
            else:
                k.prove("both rounds reached their back edge", outcome == "back" and done == 2 and len(calls) == 2)
            prev = dict(lists=helper.head, xk=helper.head_state["xk"], x0=helper.head_state["x0"], ds=helper.head_state["ds"], xk1=S.symarray("xk1_h", n))
            for r, (b, c0) in enumerate(zip(helper.backs, calls)):
                tag = f"[round {r + 1}{' (first round of the solve)' if first and r == 0 else ''}]"
                k.prove("the nonlinear solve is given Riks.R and Riks.J of this solver and its own options " + tag, _same_method(c0["fun"], solver.R) and _same_method(c0["jac"], solver.J) and c0["options"] is solver.options and not c0["extra"] and c0["fun_args"] == ())
                k.prove("a failed solve is never stored " + tag, c0["ok"])
                x = c0["x"]
                if first and r == 0:
                    k.prove_eq("first round: the initial guess is the carried point (tangent predictor) " + tag, c0["x0"], prev["xk1"])
                else:
                    k.prove_eq("later rounds: initial guess = carried point + (x_k - x_k-1) (secant predictor) " + tag, c0["x0"], prev["xk1"] + (prev["xk"] - prev["x0"]))
                L = b["lists"]
                m = len(prev["lists"]["q"])
                k.prove("one point is appended to every list " + tag, all(len(L[nm]) == m + 1 for nm in L))
                k.prove_eq("stored q = q of the accepted result " + tag, L["q"][-1], x[:nq])
                k.prove_eq("stored la_c " + tag, L["la_c"][-1], x[nq : nq + nc])
                k.prove_eq("stored la_g " + tag, L["la_g"][-1], x[nq + nc : nq + nc + ng])
                k.prove_eq("stored la_N " + tag, L["la_N"][-1], x[nq + nc + ng : nq + nc + ng + nN])
                k.prove_eq("stored load factor = last unknown of the accepted result " + tag, L["la_arc"][-1], x[-1])
                for nm in L:
                    for j in range(m):
                        k.prove_eq(f"frame: point {j - m} of `{nm}` stored by an earlier round is not modified " + tag, L[nm][j], prev["lists"][nm][j])
                k.prove_eq("last converged point x_k = accepted result " + tag, b["xk"], x)
                k.prove_eq("previous converged point x_k-1 = former x_k " + tag, b["x0"], prev["xk"])
                k.prove_eq("carried point = accepted result " + tag, b["xk1"], x)
                prev = b

    return c


contract("C23", "Riks.solve/two-rounds[first]", samples=0, replayable=False, timeout=60, max_paths=200)(_riks_round(True))
contract("C23", "Riks.solve/two-rounds[later]", samples=0, replayable=False, timeout=60, max_paths=200)(_riks_round(False))


@contract("C23", "Riks.solve/entry-and-exit", samples=0, replayable=False, timeout=60, max_paths=200)
def c_riks_exit(k):
    """the real solve() with a scripted fsolve: load factors 0.25, 0.5, then (a) 1.5 > span, (b) max_load_steps exhausted"""
    if not k.sym:
        raise K.Reject("symbolic only")
    k.covers(st.Riks.solve)
    for scenario in ("leaves-span", "max-load-steps", "load-window-not-starting-at-0"):
        kw = dict(max_load_steps=1) if scenario == "max-load-steps" else dict(max_load_steps=3)
        if scenario == "load-window-not-starting-at-0":
            kw["la_arc_span"] = np.array([-0.5, 1.0])
        solver, sysm, rec, calls = _riks(k, **kw)
        del calls[:]
        rec.warnings.clear()
        n = sysm.nq + sysm.nla_c + sysm.nla_g + sysm.nla_N + 1
        script = [0.25, 0.5, 1.5]
        base = _fsolve_rec(rec, calls, outcome=True)

        def fs(fun, x0, **kw):
            r = base(fun, x0, **kw)
            r.x = np.concatenate([r.x[:-1], [script[len(calls) - 1]]])
            calls[-1]["x"] = r.x
            return r

        with patched(st, **_quiet(fsolve=fs, warnings=_warnmod(rec))), npshim.active(True), k.spec():
            sol = solver.solve()
        nq, nc, ng, nN = sysm.nq, sysm.nla_c, sysm.nla_g, sysm.nla_N
        npts = 2 if scenario == "max-load-steps" else 3
        tag = f"[{scenario}]"
        k.prove("number of nonlinear solves " + tag, len(calls) == npts)
        k.prove("all fields have one row per point (initial configuration + accepted results) " + tag, len(sol.t) == len(sol.q) == len(sol.la_c) == len(sol.la_g) == len(sol.la_N) == npts + 1)
        k.prove_eq("first point: the initial configuration " + tag, np.concatenate([sol.q[0], sol.la_c[0], sol.la_g[0], sol.la_N[0]]), np.concatenate([sysm.q0, sysm.la_c0, sysm.la_g0, sysm.la_N0]))
        k.prove_eq("first point is labelled with the load factor it is the converged point of (0) " + tag, sol.t[0], 0.0)
        for i, c0 in enumerate(calls):
            x = c0["x"]
            k.prove_eq(f"point {i + 1} = accepted result {i} " + tag, np.concatenate([sol.q[i + 1], sol.la_c[i + 1], sol.la_g[i + 1], sol.la_N[i + 1], [sol.t[i + 1]]]), x)
        warned = [m for o, m in rec.warnings if o == "solver"]
        if scenario != "max-load-steps":
            k.prove("leaving the load range ends the run without warning " + tag, not warned)
        else:
            k.prove("stopping because max_load_steps is exhausted inside the load range warns, naming the load factor reached " + tag, any("0.5" in m for m in warned))


# --------------------------------------------------------------------------- bounded: real static problems
def _contact_scene(A=None, c=None):
    """point mass on three springs pressed onto a plane; optionally the whole problem rigidly moved by (A, c)"""
    from cardillo import System
    from cardillo.contacts import Sphere2Plane
    from cardillo.discrete import Frame, PointMass
    from cardillo.force_laws import KelvinVoigtElement as Spring
    from cardillo.forces import Force
    from cardillo.interactions import TwoPointInteraction

    A = np.eye(3) if A is None else A
    c = np.zeros(3) if c is None else c
    mv = lambda r: c + A @ np.asarray(r, dtype=float)
    s = System()
    r = 0.1
    pm = PointMass(1.0, q0=mv([0.0, 0.0, r]), u0=np.zeros(3))
    parts = [pm, Force(lambda t: t * (A @ np.array([1.0, 0.0, -2.0])), pm)]
    for j, a in enumerate(([1.0, 0, r], [0, 1.0, r], [0, 0, r + 1.0])):
        anchor = Frame(r_OP=mv(a), name=f"anchor{j}")
        parts += [anchor, Spring(TwoPointInteraction(anchor, pm), k=10.0, d=0.0, l_ref=1.0, name=f"spring{j}")]
    plane = Frame(r_OP=mv([0, 0, 0]), A_IB=A, name="plane")
    parts += [plane, Sphere2Plane(plane, pm, mu=0.0, r=r, e_N=0.0)]
    s.add(*parts)
    s.assemble()
    return s


def _cantilever(Rod, A=None, c=None, nelements=3, constitutive="Simo1986"):
    from cardillo import System
    from cardillo.constraints import RigidConnection
    from cardillo.discrete import Frame
    from cardillo.forces import B_Moment, Force
    from cardillo.rods import Harsch2021, RectangularCrossSection, Simo1986

    A = np.eye(3) if A is None else A
    c = np.zeros(3) if c is None else c
    length = 2 * np.pi
    cs = RectangularCrossSection(length / 100, length / 100)
    law = {"Harsch2021": Harsch2021, "Simo1986": Simo1986}[constitutive](np.array([5, 1, 1.0]), np.array([0.5, 2, 2.0]))
    s = System()
    q0 = Rod.straight_configuration(nelements, length, r_OP0=c, A_IB0=A)
    rod = Rod(cs, law, nelements, Q=q0, q0=q0)
    wall = Frame(r_OP=c, A_IB=A, name="wall")
    P = lambda t: law.Fi[2] * (10 * t) / length**2
    s.add(rod, wall, RigidConnection(wall, rod, xi2=(0,)), Force(lambda t: -P(t) * (A @ np.array([0, 1.0, 0])), rod, (1,), B_r_CP=np.array([0.0, 0.03, 0.02])), B_Moment(lambda t: 2.5 * P(t) * np.array([0, 0, 1.0]), rod, (1,)))
    s.assemble(options=SolverOptions(compute_consistent_initial_conditions=False))
    return s, rod


def _static_residuals(s, t, q, la_g, la_c, la_N):
    u0 = np.zeros(s.nu)
    R = s.h(t, q, u0) + s.W_g(t, q) @ la_g + s.W_c(t, q) @ la_c + s.W_N(t, q) @ la_N
    out = {"equilibrium": float(np.max(np.abs(R), initial=0.0)) / (1.0 + float(np.max(np.abs(s.h(t, q, u0)), initial=0.0)))}
    out["g"] = float(np.max(np.abs(s.g(t, q)), initial=0.0))
    out["c"] = float(np.max(np.abs(s.c(t, q, u0, la_c)), initial=0.0))
    out["g_S"] = float(np.max(np.abs(s.g_S(t, q)), initial=0.0))
    gN = s.g_N(t, q)
    out["signorini"] = float(np.max(np.abs(np.minimum(la_N, gN)), initial=0.0))
    return out


@bounded("C23", "native/static-residuals-and-rigid-motion")
def b_static(tier, seed):
    from cardillo.math.rotations import Exp_SO3
    from cardillo.solver import Newton, Riks

    rng = np.random.default_rng(seed + 230)
    cases, failures = 0, []
    LIM = dict(equilibrium=1e-7, g=1e-7, c=1e-7, g_S=1e-7, signorini=1e-7)  # the runs below ask for newton_atol = 1e-10
    tight = lambda: SolverOptions(newton_atol=1e-10, newton_rtol=1e-10, newton_max_iter=30)

    def quiet(fn):
        with warnings.catch_warnings(), contextlib.redirect_stdout(io.StringIO()), contextlib.redirect_stderr(io.StringIO()):
            warnings.simplefilter("ignore")
            return fn()

    def check(what, s, sol, skip_first=False):
        nonlocal cases
        for i in range(len(sol.t)):
            if skip_first and i == 0:
                continue
            la_g = sol.la_g[i] if sol.la_g is not None else np.zeros(s.nla_g)
            la_c = sol.la_c[i] if sol.la_c is not None else np.zeros(s.nla_c)
            la_N = sol.la_N[i] if sol.la_N is not None else np.zeros(s.nla_N)
            res = _static_residuals(s, sol.t[i], sol.q[i], la_g, la_c, la_N)
            for key, val in res.items():
                cases += 1
                if not val <= LIM[key]:
                    failures.append({"what": f"{what}: returned point {i} (load {sol.t[i]:.4g}) violates {key} beyond {LIM[key]:g}", "input": {"seed": seed}, "detail": f"{val:.3e}"})

    A = Exp_SO3(rng.uniform(-1, 1, 3))
    c = rng.uniform(-2, 2, 3)
    # --- contact scene: Newton and Riks, reference and rigidly moved problem
    s0 = quiet(_contact_scene)
    s1 = quiet(lambda: _contact_scene(A, c))
    n_steps = 3 if tier == "quick" else 8
    sol0 = quiet(lambda: Newton(s0, n_load_steps=n_steps, verbose=False, options=tight()).solve())
    sol1 = quiet(lambda: Newton(s1, n_load_steps=n_steps, verbose=False, options=tight()).solve())
    check("Newton, point mass on springs with unilateral contact", s0, sol0)
    check("Newton, the same problem rigidly moved", s1, sol1)
    cases += 1
    if len(sol0.t) != n_steps + 1 or len(sol1.t) != n_steps + 1:
        failures.append({"what": "Newton, contact scene: load steps missing from the returned solution", "input": {"seed": seed}, "detail": f"{len(sol0.t)} / {len(sol1.t)} of {n_steps + 1}"})
    else:
        for i in range(len(sol0.t)):
            cases += 1
            d = float(np.max(np.abs(sol1.q[i] - (c + A @ sol0.q[i]))))
            dl = float(np.max(np.abs(sol1.la_N[i] - sol0.la_N[i])))
            if not (d <= 1e-6 and dl <= 1e-6):
                failures.append({"what": f"Newton, contact scene: equilibrium {i} of the rigidly moved problem is not the moved equilibrium", "input": {"seed": seed, "A": A.tolist(), "c": c.tolist()}, "detail": f"position {d:.3e}, contact force {dl:.3e}"})
    rk0 = quiet(lambda: Riks(s0, la_arc0=1e-2, la_arc_span=np.array([0, 0.3]), options=tight()).solve())
    rk1 = quiet(lambda: Riks(s1, la_arc0=1e-2, la_arc_span=np.array([0, 0.3]), options=tight()).solve())
    check("Riks, point mass on springs with unilateral contact", s0, rk0)
    check("Riks, the same problem rigidly moved", s1, rk1)
    cases += 1
    if len(rk0.t) != len(rk1.t) or len(rk0.t) < 4:
        failures.append({"what": "Riks, contact scene: the rigidly moved problem takes a different number of arc-length steps", "input": {"seed": seed}, "detail": f"{len(rk0.t)} vs {len(rk1.t)}"})
    else:
        for i in range(len(rk0.t)):
            cases += 1
            d = float(np.max(np.abs(rk1.q[i] - (c + A @ rk0.q[i])))) + abs(float(rk1.t[i] - rk0.t[i]))
            if not d <= 1e-6:
                failures.append({"what": f"Riks, contact scene: point {i} of the rigidly moved problem is not the moved point", "input": {"seed": seed, "A": A.tolist(), "c": c.tolist()}, "detail": f"{d:.3e}"})
    # --- cantilever rods
    from cardillo.rods.cosseratRod import make_CosseratRod

    variants = [dict(interpolation="Quaternion", mixed=True, constraints=None, polynomial_degree=1)]
    if tier != "quick":
        variants += [
            dict(interpolation="Quaternion", mixed=False, constraints=None, polynomial_degree=2, reduced_integration=True),
            dict(interpolation="SE3", mixed=True, constraints=None),
            dict(interpolation="R12", mixed=True, constraints=None, polynomial_degree=1),
            dict(interpolation="Quaternion", mixed=True, constraints=[1, 2], polynomial_degree=1),
            dict(interpolation="Quaternion", mixed=True, constraints=[0, 1, 2], polynomial_degree=2),
        ]
    for v in variants:
        Rod = make_CosseratRod(**v)
        name = f"Newton, cantilever {v}"
        try:
            (sa, ra), (sb, rb) = quiet(lambda: _cantilever(Rod)), quiet(lambda: _cantilever(Rod, A, c))
            opts = tight()
            sola = quiet(lambda: Newton(sa, n_load_steps=3, verbose=False, options=opts).solve())
            solb = quiet(lambda: Newton(sb, n_load_steps=3, verbose=False, options=opts).solve())
        except Exception as e:  # noqa: BLE001
            cases += 1
            failures.append({"what": f"{name}: run raised {type(e).__name__}", "input": {"seed": seed}, "detail": str(e)[:300]})
            continue
        check(name, sa, sola)
        check(name + " rigidly moved", sb, solb)
        cases += 1
        if len(sola.t) != 4 or len(solb.t) != 4:
            failures.append({"what": f"{name}: load steps missing", "input": {"seed": seed}, "detail": f"{len(sola.t)} / {len(solb.t)}"})
            continue
        for i in range(4):
            for xi in (0.5, 1.0):
                cases += 1
                qa, qb = sola.q[i][ra.qDOF], solb.q[i][rb.qDOF]
                el_a, el_b = ra.element_number(xi), rb.element_number(xi)
                ra_, rb_ = ra.r_OP(1.0, qa[ra.local_qDOF_P((xi,))], (xi,)), rb.r_OP(1.0, qb[rb.local_qDOF_P((xi,))], (xi,))
                Aa, Ab = ra.A_IB(1.0, qa[ra.local_qDOF_P((xi,))], (xi,)), rb.A_IB(1.0, qb[rb.local_qDOF_P((xi,))], (xi,))
                d = float(np.max(np.abs(rb_ - (c + A @ ra_)))) + float(np.max(np.abs(Ab - A @ Aa)))
                if not d <= 1e-5:
                    failures.append({"what": f"{name}: equilibrium {i} of the rigidly moved problem is not the moved equilibrium (xi={xi})", "input": {"seed": seed, "A": A.tolist(), "c": c.tolist()}, "detail": f"{d:.3e}"})
    return {"cases": cases, "distinct": cases, "failures": failures[:12], "bound": f"1 contact scene (Newton {n_steps} load steps, Riks up to load 0.3) + {len(variants)} cantilever rod formulation(s) x 3 load steps, each also rigidly moved by one random (A, c); residuals recomputed from System methods, tolerance 1e-7 with newton_atol = 1e-10"}


# --------------------------------------------------------------------------- the loads are objective (function level)
@contract("C23", "loads/rigidly moving the body and the load leaves the generalized force unchanged", samples=2, timeout=120)
def c_loads_objective(k):
    """Frame indifference of the computed equilibria (bounded stand-in above) rests, function by function, on the residual
    being objective.  For the elastic part that is C10, for the joints C05; the external loads are under contract here:
    Force / Moment (given in the inertial basis) and B_Force / B_Moment (given in the body basis) on a real RigidBody with
    symbolic configuration.  The body is moved by (c, R), an inertial load is rotated with it, a body-fixed one is not:
    the rotational part of the generalized force (body-fixed angular velocity coordinates) is unchanged, the translational
    part (inertial velocity coordinates) turns with R.  Virtual work identity as well: h . u = F . v_P + M . omega."""
    import cardillo.math.rotations as rot
    from cardillo.discrete.rigid_body import RigidBody
    from cardillo.forces import B_Force, B_Moment, Force, Moment

    k.covers(Force.h, B_Force.h, Moment.h, B_Moment.h)
    q = k.reals("q", 7, sample=lambda g: np.concatenate([g.normal(size=3), g.normal(size=4)]))
    k.assume(q[3:] @ q[3:] > 0)
    cvec, Pq = k.reals("c", 3), k.reals("Pq", 4)
    k.assume(Pq @ Pq > 0)
    R = rot.Exp_SO3_quat(Pq)
    q_m = np.concatenate([cvec + R @ q[:3], rot.quatprod(Pq, q[3:])])
    u = k.reals("u", 6)
    L = k.reals("load", 3)
    B = k.reals("B_r_CP", 3)

    def body():
        b = RigidBody(1.0, np.eye(3))
        b.qDOF, b.uDOF = np.arange(7), np.arange(6)
        return b

    b0, b1 = body(), body()
    A0 = b0.A_IB(0.0, q)
    omega_I = A0 @ u[3:]
    for name, make, inertial, is_force in (
        ("Force", lambda b, l: Force(l, b, B_r_CP=B), True, True),
        ("B_Force", lambda b, l: B_Force(l, b, B_r_CP=B), False, True),
        ("Moment", lambda b, l: Moment(l, b), True, False),
        ("B_Moment", lambda b, l: B_Moment(l, b), False, False),
    ):
        h0 = np.asarray(make(b0, L).h(0.0, q, u), dtype=object)
        h1 = np.asarray(make(b1, (R @ L) if inertial else L).h(0.0, q_m, u), dtype=object)
        k.prove_eq(f"{name}: rotational part of the generalized force is unchanged by the rigid motion", h1[3:], h0[3:], tol=1e-9)
        k.prove_eq(f"{name}: translational part turns with the rigid motion", h1[:3], R @ h0[:3], tol=1e-9)
        load_I = L if inertial else A0 @ L
        if is_force:
            k.prove_eq(f"{name}: virtual work h . u = F . v_P", h0 @ u, load_I @ b0.v_P(0.0, q, u, B_r_CP=B), tol=1e-9)
        else:
            k.prove_eq(f"{name}: virtual work h . u = M . omega", h0 @ u, load_I @ omega_I, tol=1e-9)
