"""C21 - Non-convergence is never silent.

The time loop of every stepping solver is cut (vk/loopcut.py) and ONE arbitrary step of the
real `solve()` is executed symbolically against the System callee contract, with

    fsolve                an opaque callee with the contract proved in C22:  returns (x, success) for an
                          arbitrary x and an arbitrary truth value of `success`; not success => it warned
    error < 1.0           every fixed-point convergence test compares a symbolic error: both outcomes explored
    fixed_point_max_iter  2 (inner loops are executed, the bound is stated; the time loop is unbounded)

so the paths of one loop body enumerate every combination of Newton / fixed-point outcomes
at an arbitrary step n.  Postcondition on every path (continue_with_unconverged off):

    some solve failed  =>  the step raises, or `solve` returns a Solution that holds exactly the steps
                           stored before this one, after a warning that names the time it stopped at
    nothing failed     =>  exactly one step is appended and the loop continues

and with continue_with_unconverged on: every failure is followed by a solver-level warning
and the step is appended.  Static solvers (Newton load steps, Riks), the helpers behind
DualStormerVerlet, the scipy wrappers (termination status of the external integrator) and
the "parts of the model a solver does not read" clause are separate contracts below.
"""

import ast
import inspect
import re as _re
import textwrap
import warnings as _warnings

import numpy as np

import cardillo.solver.backward_euler as be
import cardillo.solver.dual_stormer_verlet as dsv
import cardillo.solver.moreau as mo
import cardillo.solver.rattle as ra
import cardillo.solver.scipy_dae as sdae
import cardillo.solver.scipy_ivp as sivp
import cardillo.solver.statics as st
from cardillo.solver import SolverOptions
from contracts.sysstub import Lin, SysStub, mat, patched
from vk import kit as K
from vk import loopcut, npshim
from vk import sym as S
from vk.registry import bounded, contract, static

LEVEL = "proof"
TRUSTED = [
    "System callee contract (contracts/sysstub.py); assumed contracts of splu/spsolve (A x = b) and of fsolve (C22: not success => warned, result otherwise arbitrary)",
    "loop cut of the time loop (vk/loopcut.py): one arbitrary step from an arbitrary solver state; inner fixed-point loops executed with fixed_point_max_iter = 2 (stated bound)",
    "arithmetic safety (division by symbolic terms) inside the step is out of this property's scope and not logged",
    "scipy solve_ivp / scipy_dae solve_dae are external: modelled by their documented result object (t, y, status, success, message)",
]
EXPLANATION = "loop-cut symbolic execution of the real solve() methods with opaque nonlinear solves; path-execution obligations over warnings, exceptions and the returned Solution; AST obligations for unread model parts"


class _Rec:
    def __init__(self):
        self.warnings = []  # (origin, message)
        self.events = []  # ("newton", ok)
        self.n = 0


def _warnmod(rec, origin="solver"):
    class W:
        def warn(self, msg, *a, **kw):
            rec.warnings.append((origin, str(msg)))

        def __getattr__(self, name):
            return getattr(_warnings, name)

    return W()


class _Pbar:
    def __init__(self, it=None, *a, **kw):
        self.it = list(it) if it is not None else []

    def __iter__(self):
        return iter(self.it)

    def __len__(self):
        return len(self.it)

    def set_description(self, *a, **kw):
        pass

    def update(self, *a, **kw):
        pass

    def close(self):
        pass


class _Summary:
    def __init__(self, *a, **kw):
        pass

    def __getattr__(self, name):
        return lambda *a, **kw: None


def _fsolve_stub(rec):
    def fsolve(fun, x0, jac=None, fun_args=(), jac_args=(), inexact=False, options=None, **kw):
        rec.n += 1
        n = rec.n
        x = S.symarray(f"newton{n}_x", len(x0))
        ok = bool(S.boolvar(f"newton{n}_ok"))  # both outcomes are explored
        rec.events.append(("newton", ok))
        if not ok:
            rec.warnings.append(("fsolve", "fsolve is not converged"))

        class Res:
            pass

        r = Res()
        r.x, r.success, r.error, r.fun, r.nit, r.nfev, r.njev = x, ok, S.var(f"newton{n}_err"), None, 1, 1, 1
        return r

    return fsolve


def _fresh(name, like):
    like = np.asarray(like, dtype=object)
    return S.symarray(name, like.shape)


def _names_time(msg, t):
    return format(t, "") in msg or (isinstance(t, float) and repr(t) in msg)


class _StepHelper(loopcut.Helper):
    """common part: havoc of the solver object at the loop head, bookkeeping of the stored lists"""

    def __init__(self, mode, k, solver, state, lists):
        super().__init__(mode)
        self.k, self.solver, self.state, self.lists = k, solver, state, lists
        self.head_len = None
        self.back = None
        self.tn = None

    def at_entry(self, loc):
        pass

    def havoc(self, name, old):
        return old

    def assume_inv(self, loc):
        s = self.solver
        for nm in self.state:
            old = getattr(s, nm)
            if nm == "tn":
                s.tn = S.var("tn")
            elif isinstance(old, np.ndarray):
                setattr(s, nm, _fresh(nm + "_h", old))
        self.tn = s.tn
        self.head = {nm: getattr(s, nm) for nm in self.state}
        self.head_len = len(loc[self.lists[0]])

    def back_edge(self, loc):
        self.back = dict(loc)

    def element(self, it):
        return S.var("t_loop")

    def last(self, it):
        return S.var("t_last")


def _judge(k, rec, helper, outcome, value, cont, lists, conv_of=None):
    """the postcondition of one step"""
    newton_failed = [e for e in rec.events if e[0] == "newton" and not e[1]]
    fp_failed = [e for e in rec.events if e[0] == "fixed-point" and not e[1]]
    failed = bool(newton_failed or fp_failed)
    solver_warn = [m for o, m in rec.warnings if o == "solver"]
    tag = f"[newton failures={len(newton_failed)}, fixed-point failures={len(fp_failed)}, outcome={outcome}]"
    if outcome == "raise":
        k.prove("a step only raises after a failed solve " + tag, failed or isinstance(value, (AssertionError,)))
        return
    if not cont:
        if failed:
            k.prove("failed solve: the step does not continue silently (raise or return) " + tag, outcome == "return")
            if outcome == "return":
                k.prove("failed solve + return: a warning names the time the solver stopped at " + tag, any(_names_time(m, helper.tn) for m in solver_warn))
                k.prove("failed solve + return: only the steps stored before this one are returned " + tag, len(value.q) == helper.head_len)
        else:
            k.prove("converged step is appended and the loop continues " + tag, outcome == "back" and len(helper.back[lists[0]]) == helper.head_len + 1)
            k.prove("converged step: no spurious warning " + tag, not solver_warn)
    else:
        if failed:
            k.prove("continue_with_unconverged: every failure is followed by a solver warning " + tag, len(solver_warn) >= 1)
            k.prove("continue_with_unconverged: the step is kept and the loop continues " + tag, outcome == "back" and len(helper.back[lists[0]]) == helper.head_len + 1)
        else:
            k.prove("converged step is appended and the loop continues " + tag, outcome == "back" and len(helper.back[lists[0]]) == helper.head_len + 1)


def _symbolic_error_events(rec):
    """wrap np.linalg.norm of the solver module: the value is an arbitrary symbolic error, so that `error < 1.0` forks"""

    def norm(x, *a, **kw):
        rec.n += 1
        return S.var(f"fp_error{rec.n}")

    return norm


def _opaque_np(real_np, rec, extra=()):
    """numpy as the solver module sees it during the cut step: norms (convergence measures), abs and maximum (their
    scaling) return arbitrary symbolic values, so that the convergence tests fork without path explosion"""

    def fresh_like(x, *a, **kw):
        rec.n += 1
        return S.symarray(f"opq{rec.n}_", np.shape(x)) if np.shape(x) else S.var(f"opq{rec.n}")

    class LA:
        norm = staticmethod(_symbolic_error_events(rec))

        def __getattr__(self, name):
            return getattr(real_np.linalg, name)

    class NP:
        linalg = LA()
        abs = absolute = maximum = staticmethod(fresh_like)

        def __getattr__(self, name):
            if name in extra:
                rec.n += 1
                return lambda *a, **kw: S.var(f"opq{rec.n}")
            return getattr(real_np, name)

    return NP()


SIZES = dict(nq=1, nu=1, nla_g=1, nla_gamma=0, nla_c=0, nla_tau=1, nla_N=1, nla_F=0)


def _opts(cont):
    o = SolverOptions()
    o.continue_with_unconverged = cont
    o.fixed_point_max_iter = 2
    return o


FP_MAX = 2


def _rec_range(rec):
    """`range` as the solver module sees it: a fixed-point loop that runs to exhaustion (no `break`) is a failure event"""

    def rng(*a):
        r = range(*a)
        if len(a) == 1 and a[0] == FP_MAX:

            def gen():
                for i in r:
                    yield i
                rec.events.append(("fixed-point", False))

            return gen()
        return r

    return rng


def _fresh_fn(rec, tag, pick=-1):
    def f(*args):
        rec.n += 1
        return S.symarray(f"{tag}{rec.n}_", len(args[pick]))

    return f


def _stepper(module, cls, mode, cont, contacts, state, prepare, lists=("t", "q", "u")):

    def c(k):
        if not k.sym:
            raise K.Reject("symbolic only")
        k.covers(cls.solve)
        lin, rec = Lin(k), _Rec()
        sz = dict(SIZES)
        if not contacts:
            sz["nla_N"] = 0
        sysm = SysStub(k, sizes=sz, friction=False, t0=0.0)
        sysm.q_dot0 = S.symarray("qd0", sysm.nq)

        def prox_par(alpha, W, M):
            W = np.asarray(W, dtype=object)
            return S.symarray("prox_r", W.shape[1])

        names = dict(bmat=lin.bmat, splu=lin.splu, fsolve=_fsolve_stub(rec), warnings=_warnmod(rec), tqdm=_Pbar, SolverSummary=_Summary, print=lambda *a, **kw: None, estimate_prox_parameter=prox_par, range=_rec_range(rec))
        names = {a: b for a, b in names.items() if hasattr(module, a) or a in ("print", "range")}
        with patched(module, **names), npshim.active(True), k.spec():
            solver = cls(sysm, 1.0, 0.25, options=_opts(cont))
            rec.warnings.clear()  # construction-time warnings belong to the unread-model-parts clause
            prepare(solver, rec)
            helper = _StepHelper(mode, k, solver, state, lists)
            run = loopcut.cut(solver.solve, loop=0)
            k.loop_info = run.info
            with patched(module, np=_opaque_np(module.np, rec)):
                try:
                    val = run(helper)
                    outcome = "return"
                except loopcut.Stop:
                    val, outcome = None, "back" if helper.back is not None else "entry"
                except (RuntimeError, AssertionError, ValueError) as e:
                    val, outcome = e, "raise"
        if mode == "entry":
            k.prove("entry: the stored lists hold the initial state only", outcome == "entry")
            return
        if mode == "exhausted":
            k.prove("after the last step solve() returns every stored step without a warning", outcome == "return" and not [m for o, m in rec.warnings if o == "solver"])
            return
        _judge(k, rec, helper, outcome, val, cont, lists)

    return c


def _prep_be(solver, rec):
    solver.prox = _fresh_fn(rec, "prox")
    solver.J_x = lambda x, y: mat(S.symarray("Jx", (solver.nx, solver.nx)))


def _prep_rattle(solver, rec):
    solver.prox1 = _fresh_fn(rec, "prox1_")
    solver.prox2 = _fresh_fn(rec, "prox2_")
    solver._J_x1 = lambda x, y: mat(S.symarray("Jx1", (solver.nx1, solver.nx1)))


def _prep_moreau(solver, rec):
    def prox(un1, P_N, P_F):
        rec.n += 1
        return S.symarray(f"proxN{rec.n}_", len(P_N)), S.symarray(f"proxF{rec.n}_", len(P_F))

    solver.prox = prox


STEPPERS = (
    ("BackwardEuler", be, be.BackwardEuler, ("xn", "yn", "tn", "qn", "un"), _prep_be),
    ("Rattle", ra, ra.Rattle, ("x1n", "y1n", "x2n", "y2n", "tn", "qn", "un"), _prep_rattle),
    ("Moreau", mo, mo.Moreau, ("tn", "qn", "un", "P_Nn", "P_Fn", "P_gn", "P_gamman"), _prep_moreau, ("q", "u")),
)

for _name, _module, _cls, _state, _prep, *_lists in STEPPERS:
    for _mode in ("entry", "iter", "exhausted"):
        for _cont in (False, True):
            for _contacts in (True, False):
                if _mode != "iter" and (_cont or not _contacts):
                    continue
                contract("C21", f"{_name}.solve[continue={_cont},contacts={_contacts}]/{_mode}", samples=0, replayable=False, timeout=30, max_paths=400)(_stepper(_module, _cls, _mode, _cont, _contacts, _state, _prep, *_lists))


# --------------------------------------------------------------------------- static solvers
def _newton(idx, cont):
    def c(k):
        if not k.sym:
            raise K.Reject("symbolic only")
        k.covers(st.Newton.solve)
        rec = _Rec()
        sysm = SysStub(k, sizes=dict(SIZES, nla_N=1), friction=False, t0=0.0)
        printed = []
        names = dict(fsolve=_fsolve_stub(rec), warnings=_warnmod(rec), tqdm=_Pbar, print=lambda *a, **kw: printed.append(" ".join(map(str, a))))
        names = {a: b for a, b in names.items() if hasattr(st, a) or a == "print"}
        with patched(st, **names), npshim.active(True), k.spec():
            solver = st.Newton(sysm, n_load_steps=3, verbose=False, options=_opts(cont))
            rec.warnings.clear()  # construction-time warnings belong to the unread-model-parts clause
            x = np.empty(solver.x.shape, dtype=object)
            x[...] = S.symarray("xs", solver.x.shape)
            solver.x = x

            class H(loopcut.Helper):
                back = None

                def element(self, it):
                    return idx

                def last(self, it):
                    return len(it) - 1

                def back_edge(self, loc):
                    self.back = dict(loc)

            helper = H("iter")
            run = loopcut.cut(solver.solve, loop=0)
            k.loop_info = run.info
            try:
                val = run(helper)
                outcome = "return"
            except loopcut.Stop:
                val, outcome = None, "back"
            except (RuntimeError, AssertionError, ValueError) as e:
                val, outcome = e, "raise"
        failed = any(not e[1] for e in rec.events)
        t_stop = float(solver.load_steps[idx])
        solver_warn = [m for o, m in rec.warnings if o == "solver"]
        tag = f"[load step {idx}, newton failed={failed}, outcome={outcome}]"
        if outcome == "raise":
            k.prove("a load step only raises after a failed solve " + tag, failed)
        elif failed and not cont:
            k.prove("failed load step: does not continue silently " + tag, outcome == "return")
            if outcome == "return":
                k.prove("failed load step + return: a warning names the load step it stopped at " + tag, any(_names_time(m, t_stop) for m in solver_warn))
                k.prove("failed load step + return: only converged load steps are returned " + tag, len(val.t) == idx and len(val.q) == idx)
        elif failed and cont:
            k.prove("continue_with_unconverged: the (warned) load step is kept and the loop continues " + tag, outcome == "back" and any(o == "fsolve" or o == "solver" for o, m in rec.warnings))
        else:
            k.prove("converged load step: loop continues without warning " + tag, outcome == "back" and not solver_warn)

    return c


for _idx in (0, 1, 3):
    for _cont in (False, True):
        contract("C21", f"Newton.solve[load step {_idx} of 3,continue={_cont}]/iter", samples=0, replayable=False, timeout=30)(_newton(_idx, _cont))


def _riks_semantic(first):
    """the arc-length solver: two consecutive rounds of the real while loop with an opaque fsolve whose outcome is arbitrary
    (shared with C23): a failed solve raises and nothing of it is stored.  (Replaces an earlier syntactic scan of the
    source for `assert sol.success` - obligations about the shape of the source are false-alarm traps, DESIGN 8.1.)"""

    def c(k):
        from contracts import C23

        return C23._riks_round(first)(k)

    return c


contract("C21", "Riks.solve/two-rounds[first]", samples=0, replayable=False, timeout=60, max_paths=200)(_riks_semantic(True))
contract("C21", "Riks.solve/two-rounds[later]", samples=0, replayable=False, timeout=60, max_paths=200)(_riks_semantic(False))


# --------------------------------------------------------------------------- wrappers of external integrators
def _small_real_system(kind="free"):
    """a REAL assembled system (numeric): falling point mass; optionally with a frictional contact or an actuated joint"""
    import contextlib
    import io

    from cardillo import System
    from cardillo.discrete import PointMass, RigidBody
    from cardillo.forces import Force

    with npshim.active(False), _warnings.catch_warnings(), contextlib.redirect_stdout(io.StringIO()):
        _warnings.simplefilter("ignore")
        sysm = System()
        if kind == "actuated":
            from cardillo.actuators import Motor
            from cardillo.constraints import Revolute

            rb = RigidBody(1.0, np.eye(3), q0=np.array([1.0, 0, 0, 1, 0, 0, 0]), u0=np.zeros(6))
            joint = Revolute(sysm.origin, rb, axis=2, r_OJ0=np.zeros(3))
            sysm.add(rb, joint, Force(np.array([0, -9.81, 0]), rb), Motor(joint, 2.0))
        else:
            pm = PointMass(1.0, q0=np.array([0.0, 0.0, 1.0]), u0=np.zeros(3))
            parts = [pm, Force(np.array([0.0, 0.0, -9.81]), pm)]
            if kind == "contact":
                from cardillo.contacts import Sphere2Plane

                parts.append(Sphere2Plane(sysm.origin, pm, mu=0.3, r=0.1, e_N=0.0, e_F=0.0))
            sysm.add(*parts)
        sysm.assemble()
    return sysm


def _wrapper(which):
    module, cls, ext = (sivp, sivp.ScipyIVP, "solve_ivp") if which == "ScipyIVP" else (sdae, sdae.ScipyDAE, "solve_dae")

    def c(k):
        if not k.sym:
            raise K.Reject("decided by executing the real wrapper around a stubbed external integrator")
        k.covers(cls.solve)
        sysm = _small_real_system()
        rec = _Rec()
        for stopped in (True, False):
            rec.warnings.clear()

            def external(fun, t_span, y0, *a, t_eval=None, **kw):
                class Res:
                    pass

                r = Res()
                n = 3 if stopped else len(t_eval)
                r.t = np.asarray(t_eval)[:n]
                r.y = np.tile(np.asarray(y0, dtype=float)[:, None], (1, n))
                yp0 = a[0] if a and which == "ScipyDAE" else np.zeros_like(y0)
                r.yp = np.tile(np.asarray(yp0, dtype=float)[:, None], (1, n))
                r.status = -1 if stopped else 0
                r.success = not stopped
                r.message = "Required step size is less than spacing between numbers." if stopped else "The solver successfully reached the end of the integration interval."
                return r

            names = {ext: external, "tqdm": _Pbar, "warnings": _warnmod(rec), "print": lambda *a, **kw: None}
            names = {a: b for a, b in names.items() if hasattr(module, a) or a == "print"}
            with npshim.active(False), patched(module, **names):
                solver = cls(sysm, 1.0, 0.1)
                try:
                    sol = solver.solve()
                    outcome = "return"
                except Exception as e:  # noqa: BLE001
                    sol, outcome = e, "raise"
            msgs = [m for o, m in rec.warnings]
            if stopped:
                t_stop = 0.2
                k.prove(f"{which}: external integrator stopped early => raise, or warn naming the time it stopped at (outcome={outcome}, warnings={len(msgs)})", outcome == "raise" or any(repr(t_stop) in m or f"{t_stop:.1f}" in m for m in msgs))
                if outcome == "return":
                    k.prove(f"{which}: only the instants the integrator delivered are returned", len(sol.t) == 3 and len(sol.q) == 3)
            else:
                k.prove(f"{which}: successful integration returns every instant without warning", outcome == "return" and len(sol.t) == 11 and not msgs)

    return c


contract("C21", "ScipyIVP.solve/termination-status", samples=0, replayable=False, timeout=30)(_wrapper("ScipyIVP"))
contract("C21", "ScipyDAE.solve/termination-status", samples=0, replayable=False, timeout=30)(_wrapper("ScipyDAE"))


# --------------------------------------------------------------------------- parts of the model a solver does not read
PARTS = {
    "unilateral contacts": (("W_N", "g_N", "xi_N", "g_N_dot"), "contact"),
    "friction": (("W_F", "gamma_F", "xi_F"), "contact"),
    "actuators": (("W_tau", "la_tau"), "actuated"),
}


def _system_reads(cls):
    src = textwrap.dedent(inspect.getsource(cls))
    names = set()
    for n in ast.walk(ast.parse(src)):
        if isinstance(n, ast.Attribute) and isinstance(n.value, (ast.Attribute, ast.Name)):
            base = n.value.attr if isinstance(n.value, ast.Attribute) else n.value.id
            if base == "system":
                names.add(n.attr)
    return names


def _construct(cls, sysm):
    import contextlib
    import io

    with npshim.active(False), _warnings.catch_warnings(record=True) as w, contextlib.redirect_stdout(io.StringIO()):
        _warnings.simplefilter("always")
        try:
            if cls is st.Newton:
                cls(sysm, n_load_steps=2, verbose=False)
            elif cls is st.Riks:
                cls(sysm)
            else:
                cls(sysm, 1.0, 0.1)
            return "constructed", [str(x.message) for x in w]
        except Exception as e:  # noqa: BLE001
            return "raised", [f"{type(e).__name__}: {e}"]


def COVERS_STATIC():
    return [c.__init__ for c in (be.BackwardEuler, ra.Rattle, mo.Moreau, dsv.DualStormerVerlet, sivp.ScipyIVP, sdae.ScipyDAE, st.Newton, st.Riks)] + [dsv.DualStormerVerlet._step]


@static("C21", "unread-model-parts")
def s_unread(tier):
    out = []
    solvers = (be.BackwardEuler, ra.Rattle, mo.Moreau, dsv.DualStormerVerlet, sivp.ScipyIVP, sdae.ScipyDAE, st.Newton, st.Riks)
    systems = {}
    for cls in solvers:
        reads = _system_reads(cls)
        for part, (api, kind) in PARTS.items():
            treated = any(a in reads for a in api)
            name = f"{cls.__name__}: {part} " + ("are read from the System" if treated else "are not read => constructing the solver on a system that has them warns or raises")
            if treated:
                out.append(dict(name=name, ok=True, backend="ast-extraction", show=f"{cls.__name__} reads {sorted(set(api) & reads)}"))
                continue
            if kind not in systems:
                systems[kind] = _small_real_system(kind)
            how, msgs = _construct(cls, systems[kind])
            keyword = {"unilateral contacts": ("contact",), "friction": ("friction", "contact"), "actuators": ("actuator",)}[part]
            ok = how == "raised" or any(any(kw in m.lower() for kw in keyword) for m in msgs)
            out.append(dict(name=name, ok=ok, backend="ast-extraction + construction on a real system", show=f"{how}; messages: {msgs[:3]}", detail=f"{cls.__name__} never reads {api} of the System; construction {how} with messages {msgs[:3]}", replay={"solver": cls.__name__, "system": kind, "outcome": how, "messages": msgs[:3]} if not ok else None))
    return out


@static("C21", "no-swallowed-exceptions")
def s_handlers(tier):
    """an exception raised by a nonlinear solve / fixed-point helper (C22: exhaustion raises) reaches the caller:
    no handler in the solver modules catches without re-raising"""
    out = []
    for module in (be, ra, mo, dsv, sivp, sdae, st):
        tree = ast.parse(inspect.getsource(module))
        bad = []
        for n in ast.walk(tree):
            if isinstance(n, ast.ExceptHandler) and not any(isinstance(x, ast.Raise) for x in ast.walk(n)):
                bad.append(n.lineno)
        out.append(dict(name=f"{module.__name__}: no exception handler without re-raise", ok=not bad, backend="ast-extraction", show=f"handlers at lines {bad}", detail=f"handlers at lines {bad}"))
    # DualStormerVerlet: both fixed-point helpers are called directly from _step (their exhaustion raises, C22)
    src = textwrap.dedent(inspect.getsource(dsv.DualStormerVerlet._step))
    calls = [getattr(n.func, "id", "") for n in ast.walk(ast.parse(src)) if isinstance(n, ast.Call)]
    out.append(dict(name="DualStormerVerlet._step solves through fixed_point_iteration / fixed_point_iteration_with_momentum (exhaustion raises, C22)", ok="fixed_point_iteration" in calls and "fixed_point_iteration_with_momentum" in calls, backend="ast-extraction", show=str(sorted(set(calls) & {"fixed_point_iteration", "fixed_point_iteration_with_momentum"}))))
    return out


# --------------------------------------------------------------------------- bounded: native fault injection on real runs
@bounded("C21", "native/fault-injection-on-real-runs")
def b_inject(tier, seed):
    """REAL solvers on a real bouncing ball; the k-th nonlinear solve is forced to report non-convergence (result of the
    real fsolve kept, `success` overridden, fsolve's own warning emitted), or the fixed-point tolerance is made unreachable."""
    import contextlib
    import io

    from cardillo.math import fsolve as fs_mod

    cases, failures = 0, []
    sysm = _small_real_system("contact")
    real_fsolve = fs_mod.fsolve
    kmax = 4 if tier == "quick" else 12
    for name, module, cls in (("BackwardEuler", be, be.BackwardEuler), ("Rattle", ra, ra.Rattle), ("Moreau", mo, mo.Moreau)):
        for cont in (False, True):
            plans = [("newton", kk) for kk in range(1, kmax + 1)] if hasattr(module, "fsolve") else []
            if plans:
                plans.append(("newton", "inner"))  # the first nonlinear solve that is not the first one of its time step
            plans.append(("fixed-point", None))
            # IEEE semantics: from time t_nan on the model's forces are NaN (an excitation table left, a force law out of its
            # domain); a comparison with NaN is false whichever way a convergence test is written
            # (Moreau is left out: its step is explicit unless a contact is closed, and a NaN gap closes none - no nonlinear
            # solve or fixed-point iteration runs that could fail, so the property has nothing to say about that run)
            if name != "Moreau":
                plans += [("nan", 0.0), ("nan", 0.2)]
            for kind, kk in plans:
                cases += 1
                count = [0]
                injected = []

                holder, per_step = {}, {}

                def inj(*a, **kw):
                    r = real_fsolve(*a, **kw)
                    count[0] += 1
                    tn = getattr(holder.get("solver"), "tn", None)
                    per_step[tn] = per_step.get(tn, 0) + 1
                    if (count[0] == kk) or (kk == "inner" and per_step[tn] == 2 and not injected):
                        r.success = False
                        injected.append(count[0])
                        _warnings.warn("fsolve is not converged (injected)")
                    return r

                opts = SolverOptions()
                opts.continue_with_unconverged = cont
                if kind == "fixed-point":
                    opts.fixed_point_max_iter = 2
                    opts.fixed_point_atol = 1e-300
                    opts.fixed_point_rtol = 1e-300
                if kind == "nan":
                    opts.newton_max_iter = 4  # every solve after t_nan runs out of iterations: keep those runs short
                names = {"tqdm": _Pbar, "print": lambda *a, **kw: None}
                if kind == "newton":
                    names["fsolve"] = inj
                out, err = None, None
                real_h = sysm.h
                if kind == "nan":
                    sysm.h = lambda t, q, u, real_h=real_h, kk=kk: real_h(t, q, u) * (np.nan if t > kk + 1e-12 else 1.0)
                with npshim.active(False), patched(module, **names), _warnings.catch_warnings(record=True) as w, contextlib.redirect_stdout(io.StringIO()), np.errstate(all="ignore"):
                    _warnings.simplefilter("always")
                    try:
                        solver = cls(sysm, 0.6, 0.01, options=opts)
                        holder["solver"] = solver
                        out = solver.solve()
                    except (RuntimeError, ValueError, AssertionError, FloatingPointError, np.linalg.LinAlgError) as e:
                        err = e
                    finally:
                        if kind == "nan":
                            del sysm.h  # the instance attribute that shadowed the method
                msgs = [str(x.message) for x in w]
                failed_somewhere = bool(injected) if kind == "newton" else True
                what = f"{name}[{kind}{'' if kk is None else ' #' + str(kk)},continue={cont}]"
                if not failed_somewhere:
                    continue
                nfull = int(round(0.6 / 0.01)) + 1
                if err is not None:
                    continue  # raising is never silent
                nret = len(out.t)
                if kind == "nan" and not cont and not (np.all(np.isfinite(out.q)) and np.all(np.isfinite(out.u))):
                    failures.append({"what": f"{what}: steps that are not solutions (non-finite state) are returned", "input": {"warnings": msgs[:3]}, "detail": f"{nret} instants returned"})
                if not cont:
                    own = [m for m in msgs if "injected" not in m]
                    if nret >= nfull:
                        failures.append({"what": f"{what}: a failed solve is followed by a full-length solution without error", "input": {"warnings": msgs[:3]}, "detail": f"{nret} instants returned"})
                    elif not any(("t=" in m) and any(ch.isdigit() for ch in m) for m in own):
                        failures.append({"what": f"{what}: truncated solution without a warning naming the time", "input": {"warnings": msgs[:3]}, "detail": f"{nret} of {nfull} instants returned"})
                    elif not any(abs(float(x) - float(out.t[-1])) <= 1e-9 for m in own for x in _re.findall(r"t=([-+]?[0-9]*\.?[0-9]+(?:[eE][-+]?[0-9]+)?)", m)):
                        failures.append({"what": f"{what}: the warning does not name the last returned time", "input": {"warnings": msgs[:3], "t_last": float(out.t[-1])}, "detail": ""})
                else:
                    if not msgs:
                        failures.append({"what": f"{what}: continued without any warning", "input": {}, "detail": ""})
    return {"cases": cases, "distinct": cases, "failures": failures[:12], "bound": f"3 stepping solvers x continue on/off x (forced failure of nonlinear solve #1..{kmax} | unreachable fixed-point tolerance | forces NaN from t = 0 / 0.2 on), bouncing ball with friction, 60 steps"}
