"""C24 - Restarting a simulation from an intermediate state reproduces the run.

Clause "re-initialising a system does not change the model it describes" (proof):
the real assembler callbacks of joints and contacts are executed twice on the same real
objects - first with a symbolic initial configuration q0, then after the bodies' initial
state has been replaced by a second admissible configuration (the whole mechanism moved
rigidly, and for revolute joints additionally rotated about the joint axis) - and the
joint's functions (attachment points, joint bases, constraint residual, measured angle)
are proved identical before and after, at an arbitrary symbolic evaluation state.
Sphere2Plane / Sphere2Sphere must not acquire attributes that change how System.assemble
treats them on a second assembly.

Clause "same trajectory up to solver tolerance" is numerical: bounded stand-in (real runs
of split and uninterrupted simulations).
"""

import numpy as np

from cardillo.constraints import Cylindrical, Revolute, RigidConnection, Spherical
from cardillo.contacts.sphere2plane import Sphere2Plane
from cardillo.contacts.sphere2sphere import Sphere2Sphere
from cardillo.discrete.frame import Frame
from cardillo.discrete.rigid_body import RigidBody
import cardillo.math.rotations as rot
from vk.registry import bounded, contract

LEVEL = "proof"
TRUSTED = [
    "in the joint / contact contracts System.set_new_initial_state is emulated by what it does to the contributions (contr.q0 / u0 / t0 replaced, assembler_callback again); the real method itself is executed in its own contract on a real System with contributions of every coordinate kind (the consistent-initial-condition solve is C16)",
    "the second configuration is the first one moved rigidly (and rotated about the joint axis for Revolute): an admissible state of the same mechanism",
]
EXPLANATION = "symbolic native execution of the real assembler callbacks twice on the same objects; equality of the joint functions before and after re-assembly; bounded stand-in for the trajectory clause"


def _bodies(k):
    bs = []
    for i, tag in enumerate(("a", "b")):
        b = RigidBody(1.0, np.eye(3))
        q0 = k.reals(tag + "q0", 7, sample=lambda g: np.concatenate([g.normal(size=3) * 2, g.normal(size=4)]))
        k.assume(q0[3:] @ q0[3:] > 0)
        b.q0, b.u0, b.t0 = q0, np.zeros(6), 0.0
        b.qDOF = np.arange(7) + 7 * i
        b.uDOF = np.arange(6) + 6 * i
        bs.append(b)
    return bs


def _moved(k, q0, cvec, Pq):
    R = rot.Exp_SO3_quat(Pq)
    return np.concatenate([cvec + R @ q0[:3], rot.quatprod(Pq, q0[3:])])


def _joint_contract(name, make):
    def c(k):
        b1, b2 = _bodies(k)
        j = make(b1, b2)
        k.covers(type(j).assembler_callback)
        rJ = k.reals("rJ", 3)
        j.r_OJ0 = rJ
        j.assembler_callback()
        q = k.reals("q", 14, sample=lambda g: np.concatenate([g.normal(size=3), g.normal(size=4), g.normal(size=3), g.normal(size=4)]))
        k.assume(q[3:7] @ q[3:7] > 0)
        k.assume(q[10:] @ q[10:] > 0)
        t = 0.0
        before = {"r_OJ1": j.r_OJ1(t, q), "r_OJ2": j.r_OJ2(t, q), "g": j.g(t, q)}
        if j.nla_g_rot:
            before["A_IJ1"] = j.A_IJ1(t, q)
            before["A_IJ2"] = j.A_IJ2(t, q)
        # --- the mechanism is moved rigidly, the state reached is made the new initial state, re-assembly
        cvec = k.reals("c", 3)
        Pq = k.reals("Pq", 4)
        k.assume(Pq @ Pq > 0)
        q0a, q0b = b1.q0, b2.q0
        b1.q0 = _moved(k, q0a, cvec, Pq)
        b2.q0 = _moved(k, q0b, cvec, Pq)
        b1.t0 = b2.t0 = 1.0
        j.assembler_callback()
        after = {"r_OJ1": j.r_OJ1(t, q), "r_OJ2": j.r_OJ2(t, q), "g": j.g(t, q)}
        if j.nla_g_rot:
            after["A_IJ1"] = j.A_IJ1(t, q)
            after["A_IJ2"] = j.A_IJ2(t, q)
        for key in before:
            k.prove_eq(f"{key}(t, q) is the same function after re-assembly", after[key], before[key], tol=1e-9)
        q0new = np.concatenate([b1.q0, b2.q0])
        k.prove_eq("the joint is satisfied in the new initial state", j.g(1.0, q0new), np.zeros(j.nla_g), tol=1e-9)

    return c


for _name, _make in (
    ("Spherical", lambda a, b: Spherical(a, b, r_OJ0=None)),
    ("RigidConnection", lambda a, b: RigidConnection(a, b)),
    ("Revolute[axis=2]", lambda a, b: Revolute(a, b, axis=2, angle0=0.3)),
    ("Cylindrical[axis=0]", lambda a, b: Cylindrical(a, b, axis=0)),
):
    contract("C24", f"{_name}/joint-frames-survive-reassembly", timeout=180, samples=2)(_joint_contract(_name, _make))


@contract("C24", "Revolute/tracking-state-survives-reassembly", samples=1)
def c_rev_tracking(k):
    """the joint bases are unchanged by re-assembly (contracts above), so the measured angle keeps its
    meaning iff the tracking state (full turns, previous quadrant) is not reset by a re-assembly"""
    k.covers(Revolute.assembler_callback)
    b1, b2 = _bodies(k)
    j = Revolute(b1, b2, axis=2, angle0=0.3)
    j.assembler_callback()
    k.prove("first assembly starts the tracking at n = 0, quadrant 1", j.n_full_rotations == 0 and j.previous_quadrant == 1)
    j.n_full_rotations, j.previous_quadrant = 3, 2  # state reached after some motion
    j.assembler_callback()
    k.prove("re-assembly keeps the tracking state", j.n_full_rotations == 3 and j.previous_quadrant == 2)
    j.reset()
    k.prove("reset() restarts the tracking explicitly", j.n_full_rotations == 0 and j.previous_quadrant == 1)
    k.prove_le("dummy", 0, 1)


@contract("C24", "contacts/no-new-system-attributes", samples=1)
def c_contacts(k):
    """System.assemble decides by hasattr(contr, 'nq'/'nu'/...) how to treat a contribution: the
    assembler callbacks of the contacts must not create such attributes"""
    k.covers(Sphere2Plane.assembler_callback, Sphere2Sphere.assembler_callback)
    KEYS = ("nq", "nu", "nla_g", "nla_gamma", "nla_c", "nla_S", "nla_tau", "ntau")
    b = RigidBody(1.0, np.eye(3))
    b.q0, b.t0 = np.array([0, 0, 1.0, 1, 0, 0, 0]), 0.0
    b.qDOF, b.uDOF = np.arange(7), np.arange(6)
    b2 = RigidBody(1.0, np.eye(3))
    b2.q0, b2.t0 = np.array([3.0, 0, 1.0, 1, 0, 0, 0]), 0.0
    b2.qDOF, b2.uDOF = np.arange(7) + 7, np.arange(6) + 6
    for name, c in (("Sphere2Plane", Sphere2Plane(Frame(), b, 0.3, r=0.1)), ("Sphere2Sphere", Sphere2Sphere(b, b2, 0.5, 0.5, 0.3))):
        pre = {a: hasattr(c, a) for a in KEYS}
        c.t0 = 0.0
        c.assembler_callback()
        post = {a: hasattr(c, a) for a in KEYS}
        k.prove(f"{name}.assembler_callback creates none of {KEYS}", pre == post, show=str({a: (pre[a], post[a]) for a in KEYS if pre[a] != post[a]}))
        e_N, nla_N = np.array(c.e_N), c.nla_N
        c.assembler_callback()
        k.prove(f"{name}: second assembler_callback keeps nla_N, e_N", c.nla_N == nla_N and np.array_equal(c.e_N, e_N))
    k.prove_le("dummy", 0, 1)


@bounded("C24", "real-runs/split-vs-uninterrupted")
def b_restart(tier, seed):
    """two-body pendulum chain (revolute joints, spring on a revolute joint, sphere-plane contact far away):
    run to t1, versus run to t_split, deepcopy + set_new_initial_state, run to t1"""
    import contextlib, io, warnings

    from cardillo import System
    from cardillo.force_laws import Spring
    from cardillo.forces import Force
    from cardillo.solver import Moreau, Rattle

    cases, failures = 0, []

    def build():
        s = System()
        q1 = np.array([0.5, 0, 0, 1, 0, 0, 0.0])
        q2 = np.array([1.5, 0, 0, 1, 0, 0, 0.0])
        b1 = RigidBody(1.0, np.diag([0.1, 0.2, 0.3]), q0=q1, u0=np.array([0, 0, 0, 0, 0, 0.5]) * 0)
        b2 = RigidBody(1.0, np.diag([0.1, 0.2, 0.3]), q0=q2)
        j1 = Revolute(s.origin, b1, axis=1, r_OJ0=np.zeros(3), angle0=0.2)
        j2 = Revolute(b1, b2, axis=1, r_OJ0=np.array([1.0, 0, 0]))
        sp = Spring(j2, 5.0, compliance_form=False)
        g1 = Force(np.array([0, 0, -9.81]), b1)
        g2 = Force(np.array([0, 0, -9.81]), b2)
        c = Sphere2Plane(Frame(r_OP=np.array([0, 0, -50.0])), b2, 0.3, r=0.1)
        s.add(b1, b2, j1, j2, sp, g1, g2, c)
        s.assemble()
        return s, j1, j2

    for Solver, dt in ((Moreau, 2e-3), (Rattle, 5e-3)):
        for k_split in ((5, 20) if tier == "quick" else (5, 20, 37)):
            cases += 1
            try:
                with warnings.catch_warnings(), contextlib.redirect_stdout(io.StringIO()), contextlib.redirect_stderr(io.StringIO()):
                    warnings.simplefilter("ignore")
                    nsteps = 50
                    s, j1, j2 = build()
                    full = Solver(s, nsteps * dt, dt).solve()
                    s1, _, _ = build()
                    part = Solver(s1, k_split * dt, dt).solve()
                    ang_before = s1.contributions_map["revolute_joint"].l(part.t[k_split], part.q[k_split][s1.contributions_map["revolute_joint"].qDOF])
                    s2 = s1.deepcopy()
                    from cardillo.solver import SolverOptions

                    # Moreau satisfies the constraints on velocity level only: its states carry a position drift above the
                    # 1e-8 acceptance threshold of the consistency check, which is therefore skipped for the restart
                    kw = dict(options=SolverOptions(compute_consistent_initial_conditions=False)) if Solver is Moreau else {}
                    s2.set_new_initial_state(part.q[k_split], part.u[k_split], t0=part.t[k_split], **kw)
                    jj = s2.contributions_map["revolute_joint"]
                    ang_after = jj.l(s2.t0, s2.q0[jj.qDOF])
                    rest = Solver(s2, nsteps * dt, dt).solve()
                # compare at the common final time (an extra trailing grid point is the known time-grid finding of C20)
                t_end = full.t[nsteps]
                i_end = int(np.argmin(np.abs(np.asarray(rest.t) - t_end)))
                err = np.abs(rest.q[i_end] - full.q[nsteps]).max()
                if abs(rest.t[i_end] - t_end) > 1e-9:
                    failures.append({"what": f"{Solver.__name__}: restarted run does not reach the final time of the uninterrupted run", "input": {"k_split": k_split}, "detail": f"{rest.t[i_end]} vs {t_end}"})
                elif not err <= 1e-5:
                    failures.append({"what": f"{Solver.__name__}: restarted trajectory deviates", "input": {"k_split": k_split}, "detail": f"max |dq| = {err:.2e}"})
                if not abs(ang_after - ang_before) <= 1e-8:
                    failures.append({"what": f"{Solver.__name__}: joint angle changes its meaning on re-initialisation", "input": {"k_split": k_split}, "detail": f"{ang_before} -> {ang_after}"})
            except Exception as e:  # noqa: BLE001
                failures.append({"what": f"{Solver.__name__}: restart at split step {k_split} raised {type(e).__name__} ({str(e)[:60]})", "input": {"k_split": k_split}, "detail": str(e)[:200]})
    seen, out = set(), []
    for f in failures:
        if f["what"] not in seen:
            seen.add(f["what"])
            out.append(f)
    return {"cases": cases, "distinct": cases, "failures": out, "bound": "double pendulum with revolute joints, spring on a joint and a (far) sphere-plane contact; Moreau and Rattle; split steps enumerated"}


# --------------------------------------------------------------------------- the real System.set_new_initial_state
@contract("C24", "System.set_new_initial_state/every contribution receives its slice of the new state", samples=0, replayable=False, timeout=60)
def c_set_new_initial_state(k):
    """executed for real on a real System whose contributions have position AND velocity coordinates (bodies), position
    coordinates only (internal states: MaxwellElement's damper elongation, PIDcontroller's integral) or none: after
    set_new_initial_state(q, u, t) the assembled initial state IS (q, u, t) and every contribution holds its own slice"""
    if not k.sym:
        from vk import kit as K

        raise K.Reject("symbolic only")
    import cardillo.system as csys
    from vk import npshim
    from vk import sym as S

    k.covers(csys.System.set_new_initial_state)

    class C:
        def __init__(self, name, nq=None, nu=None):
            self.name = name
            # object arrays: an implementation that writes the new (symbolic) state INTO these arrays must be able to do so
            if nq is not None:
                self.nq, self.q0 = nq, (np.arange(nq, dtype=float) + 10 * len(name)).astype(object)
            if nu is not None:
                self.nu, self.u0 = nu, (np.arange(nu, dtype=float) - 5.0).astype(object)

    with npshim.active(True), k.spec():
        sysm = csys.System(t0=0.75)  # a first initial time other than 0: a restart at t = 0 must replace it
        parts = [C("body", 3, 2), C("internal_state", 1, None), C("massless", None, None), C("body2", 2, 2), C("internal_state2", 2, None)]
        sysm.add(*parts)
        saved = csys.consistent_initial_conditions
        csys.consistent_initial_conditions = lambda system, *a_, **kw: (system.t0, system.q0, system.u0, None, None, None, None, None, None, None)
        try:
            sysm.assemble()
            q_new, u_new = S.symarray("q_new", sysm.nq), S.symarray("u_new", sysm.nu)
            layout = {c.name: (getattr(c, "my_qDOF", None), getattr(c, "my_uDOF", None)) for c in parts}
            old = {c.name: [(a, a.copy()) for a in (getattr(c, "q0", None), getattr(c, "u0", None)) if a is not None] for c in parts}
            t_new = S.var("t_new")  # every real restart time, 0 included
            sysm.set_new_initial_state(q_new, u_new, t0=t_new)
        finally:
            csys.consistent_initial_conditions = saved
        k.prove("the re-assembled system has the same sizes", sysm.nq == 8 and sysm.nu == 4)
        # frame: the arrays that held the previous initial state may be shared (default arguments, other systems, stored
        # solutions): the new state is bound to the contributions, not written into those arrays
        for c in parts:
            for arr, before in old[c.name]:
                k.prove_eq(f"{c.name}: the array that held the previous initial state is not written to", arr, before)
        k.prove_eq("assembled initial configuration = the state passed in", sysm.q0, q_new)
        k.prove_eq("assembled initial velocity = the state passed in", sysm.u0, u_new)
        k.prove_eq("initial time = the time passed in (for every real restart time, 0 included)", sysm.t0, t_new)
        for c in parts:
            qd, ud = layout[c.name]
            if qd is not None:
                k.prove(f"{c.name}: same position DOFs after re-assembly", np.array_equal(c.my_qDOF, qd))
                k.prove_eq(f"{c.name}: q0 = its slice of the new configuration", c.q0, q_new[qd])
            if ud is not None:
                k.prove_eq(f"{c.name}: u0 = its slice of the new velocity", c.u0, u_new[ud])


# --------------------------------------------------------------------------- force laws: the reference length is part of the model
def _force_law_reference(cls, sub_kind, given):
    """Spring / KelvinVoigtElement / MaxwellElement: a reference length (angle) the user passed is kept for EVERY real value
    - zero included: a spring of zero rest length, a torsional spring that is relaxed at angle 0 - by the first assembly
    and by every re-assembly; a defaulted one (l_ref=None) is fixed by the FIRST assembly (C09) and a re-assembly from
    another state (what restart does) must not move it."""
    from cardillo.force_laws import KelvinVoigtElement, MaxwellElement, Spring
    from cardillo.interactions import TwoPointInteraction

    CLS = {"Spring": Spring, "KelvinVoigtElement": KelvinVoigtElement, "MaxwellElement": MaxwellElement}[cls]

    def c(k):
        k.covers(CLS.assembler_callback)
        b1, b2 = _bodies(k)
        if sub_kind == "TwoPointInteraction":
            sub = TwoPointInteraction(b1, b2, B_r_CP1=k.reals("B1", 3), B_r_CP2=k.reals("B2", 3))
        else:
            sub = Revolute(b1, b2, axis=2, angle0=k.real("angle0", sample=lambda g: g.uniform(-3, 3)))
        L = k.real("l_ref", sample=lambda g: g.choice([0.0, 0.0, 0.7, -1.3])) if given else None
        if CLS is Spring:
            el = Spring(sub, 2.0, l_ref=L, compliance_form=False)
        elif CLS is KelvinVoigtElement:
            el = KelvinVoigtElement(sub, 2.0, 0.5, l_ref=L, compliance_form=False)
        else:
            el = MaxwellElement(sub, 2.0, 0.5, l_ref=L)
            el.my_qDOF = np.array([14])
        ok, _ = k.no_raise("first assembly", el.assembler_callback, allowed=(AssertionError,))  # coincident points are rejected explicitly (C09)
        if not ok:
            return
        first = el.l_ref
        if given:
            k.prove_eq("the reference passed by the user is kept by the first assembly", first, L)
        else:
            k.prove("a defaulted reference is fixed by the first assembly", first is not None)
        # restart: the bodies get a new initial state (the mechanism moved rigidly: admissible for the joint, and for the
        # two-point interaction additionally body 2 displaced, which changes the current length), then re-assembly
        cvec, Pq = k.reals("c", 3), k.reals("Pq", 4)
        k.assume(Pq @ Pq > 0)
        b1.q0, b2.q0 = _moved(k, b1.q0, cvec, Pq), _moved(k, b2.q0, cvec, Pq)
        if sub_kind == "TwoPointInteraction":
            b2.q0 = np.concatenate([b2.q0[:3] + k.reals("shift", 3), b2.q0[3:]])
        b1.t0 = b2.t0 = 1.0
        ok, _ = k.no_raise("re-assembly", el.assembler_callback, allowed=(AssertionError,))
        if not ok:
            return
        k.prove_eq("re-assembly from another state keeps the reference", el.l_ref, first)

    return c


for _cls in ("Spring", "KelvinVoigtElement", "MaxwellElement"):
    for _sub in ("TwoPointInteraction", "Revolute"):
        for _given in (True, False):
            contract("C24", f"{_cls} on {_sub}/{'given' if _given else 'defaulted'} reference survives assembly and re-assembly", samples=2, timeout=60)(_force_law_reference(_cls, _sub, _given))
