"""C04 - Rigid body, point mass and frame kinematics are self-consistent.

Provider side of the kinematic-subsystem contract (contracts/subsys.py): the
real RigidBody, PointMass and Frame methods are executed symbolically (any
q with nonzero quaternion, any u, u_dot, t, offset B) and proved to satisfy

    v_P = D_t r_OP          a_P = D_t v_P          J_P = d v_P/du
    D_t A = skew(A B_Omega) A   and   skew2ax(A^T D_t A) = B_Omega
    B_Psi = D_t B_Omega     B_J_R = d B_Omega/du   kappa_P = a_P - J_P u_dot
    every *_q / *_u routine = the partial derivative it names

with D_t the derivative along q_dot(t,q,u), u -> u_dot, t -> 1, plus quaternion
length conservation, power-free gyroscopic forces, h_u, M symmetric positive
definite and E_kin = 1/2 u^T M u.
"""

import numpy as np

import cardillo.math.algebra as alg
from cardillo.discrete.frame import Frame
from cardillo.discrete.point_mass import PointMass
from cardillo.discrete.rigid_body import RigidBody
from contracts.common import axial, moving_frame, point_mass, rigid_body, skew
from vk.registry import contract

LEVEL = "proof"
TRUSTED = ["Frame: the prescribed motion is an arbitrary smooth r(t) and A(t) = Exp_SO3_quat(P(t)) (every rotation is of this form) supplied with its exact derivatives"]
EXPLANATION = "provider side of the kinematic-subsystem contract; SMT obligations from symbolic execution of the real methods"


def _skewf(k, a):
    return np.array([[0 * a[0], -a[2], a[1]], [a[2], 0 * a[0], -a[0]], [-a[1], a[0], 0 * a[0]]])


@contract("C04", "RigidBody/kinematic-hierarchy", timeout=120)
def c_rb_kin(k):
    k.covers(RigidBody.q_dot, RigidBody.A_IB, RigidBody.r_OP, RigidBody.v_P, RigidBody.a_P, RigidBody.J_P, RigidBody.B_Omega, RigidBody.B_Psi, RigidBody.B_J_R, RigidBody.kappa_P, RigidBody.B_kappa_R)
    rb, q, u, ud = rigid_body(k)
    t = k.real("t")
    B = k.reals("B", 3)
    qd = rb.q_dot(t, q, u)
    k.prove_eq("D_t |P|^2 = 0 (quaternion length conserved)", q[3:] @ qd[3:], 0)
    k.prove_eq("D_t r_C = u[:3]", qd[:3], u[:3])
    v = rb.v_P(t, q, u, B_r_CP=B)
    k.prove_eq("v_P=D_t r_OP", v, k.jvp(lambda t_, q_: rb.r_OP(t_, q_, B_r_CP=B), [t, q], [1.0, qd]))
    A = rb.A_IB(t, q)
    A_dot = k.jvp(lambda t_, q_: rb.A_IB(t_, q_), [t, q], [1.0, qd])
    BOm = rb.B_Omega(t, q, u)
    k.prove_eq("D_t A = skew(A B_Omega) A (inertial form)", A_dot, _skewf(k, A @ BOm) @ A)
    k.prove_eq("B_Omega = skew2ax(A^T D_t A)", BOm, axial(A.T @ A_dot))
    k.prove_eq("A^T D_t A skew", A.T @ A_dot + (A.T @ A_dot).T, np.zeros((3, 3)))
    k.prove_eq("J_P=d v_P/du", rb.J_P(t, q, B_r_CP=B), k.jac(lambda u_: rb.v_P(t, q, u_, B_r_CP=B), u))
    k.prove_eq("a_P=D_t v_P", rb.a_P(t, q, u, ud, B_r_CP=B), k.jvp(lambda t_, q_, u_: rb.v_P(t_, q_, u_, B_r_CP=B), [t, q, u], [1.0, qd, ud]))
    k.prove_eq("B_Psi=D_t B_Omega", rb.B_Psi(t, q, u, ud), k.jvp(lambda t_, q_, u_: rb.B_Omega(t_, q_, u_), [t, q, u], [1.0, qd, ud]))
    k.prove_eq("B_J_R=d B_Omega/du", rb.B_J_R(t, q), k.jac(lambda u_: rb.B_Omega(t, q, u_), u))
    k.prove_eq("kappa_P=a_P-J_P u_dot", rb.kappa_P(t, q, u, B_r_CP=B), rb.a_P(t, q, u, ud, B_r_CP=B) - rb.J_P(t, q, B_r_CP=B) @ ud)
    k.prove_eq("B_kappa_R=B_Psi-B_J_R u_dot", rb.B_kappa_R(t, q, u), rb.B_Psi(t, q, u, ud) - rb.B_J_R(t, q) @ ud)


@contract("C04", "RigidBody/partials", timeout=120)
def c_rb_partials(k):
    k.covers(RigidBody.q_dot_q, RigidBody.q_dot_u, RigidBody.A_IB_q, RigidBody.r_OP_q, RigidBody.v_P_q, RigidBody.J_P_q, RigidBody.a_P_q, RigidBody.a_P_u,
             RigidBody.kappa_P_q, RigidBody.kappa_P_u, RigidBody.B_Omega_q, RigidBody.B_J_R_q, RigidBody.B_Psi_q, RigidBody.B_Psi_u,
             RigidBody.B_kappa_R_q, RigidBody.B_kappa_R_u, RigidBody.g_S, RigidBody.g_S_q)
    rb, q, u, ud = rigid_body(k)
    t = k.real("t")
    B = k.reals("B", 3)
    k.prove_eq("q_dot_q", rb.q_dot_q(t, q, u), k.jac(lambda q_: rb.q_dot(t, q_, u), q))
    k.prove_eq("q_dot_u", rb.q_dot_u(t, q), k.jac(lambda u_: rb.q_dot(t, q, u_), u))
    k.prove_eq("A_IB_q", rb.A_IB_q(t, q), k.jac(lambda q_: rb.A_IB(t, q_), q))
    k.prove_eq("r_OP_q", rb.r_OP_q(t, q, B_r_CP=B), k.jac(lambda q_: rb.r_OP(t, q_, B_r_CP=B), q))
    k.prove_eq("v_P_q", rb.v_P_q(t, q, u, B_r_CP=B), k.jac(lambda q_: rb.v_P(t, q_, u, B_r_CP=B), q))
    k.prove_eq("J_P_q", rb.J_P_q(t, q, B_r_CP=B), k.jac(lambda q_: rb.J_P(t, q_, B_r_CP=B), q))
    k.prove_eq("a_P_q", rb.a_P_q(t, q, u, ud, B_r_CP=B), k.jac(lambda q_: rb.a_P(t, q_, u, ud, B_r_CP=B), q))
    k.prove_eq("a_P_u", rb.a_P_u(t, q, u, ud, B_r_CP=B), k.jac(lambda u_: rb.a_P(t, q, u_, ud, B_r_CP=B), u))
    k.prove_eq("kappa_P_q", rb.kappa_P_q(t, q, u, B_r_CP=B), k.jac(lambda q_: rb.kappa_P(t, q_, u, B_r_CP=B), q))
    k.prove_eq("kappa_P_u", rb.kappa_P_u(t, q, u, B_r_CP=B), k.jac(lambda u_: rb.kappa_P(t, q, u_, B_r_CP=B), u))
    k.prove_eq("B_Omega_q", rb.B_Omega_q(t, q, u), k.jac(lambda q_: rb.B_Omega(t, q_, u), q))
    k.prove_eq("B_J_R_q", rb.B_J_R_q(t, q), k.jac(lambda q_: rb.B_J_R(t, q_), q))
    k.prove_eq("B_Psi_q", rb.B_Psi_q(t, q, u, ud), k.jac(lambda q_: rb.B_Psi(t, q_, u, ud), q))
    k.prove_eq("B_Psi_u", rb.B_Psi_u(t, q, u, ud), k.jac(lambda u_: rb.B_Psi(t, q, u_, ud), u))
    k.prove_eq("B_kappa_R_q", rb.B_kappa_R_q(t, q, u), k.jac(lambda q_: rb.B_kappa_R(t, q_, u), q))
    k.prove_eq("B_kappa_R_u", rb.B_kappa_R_u(t, q, u), k.jac(lambda u_: rb.B_kappa_R(t, q, u_), u))
    k.prove_eq("g_S=|P|^2-1", rb.g_S(t, q), np.array([q[3:] @ q[3:] - 1.0]))
    k.prove_eq("g_S_q", rb.g_S_q(t, q), k.jac(lambda q_: rb.g_S(t, q_), q))


@contract("C04", "RigidBody/dynamics", timeout=120)
def c_rb_dyn(k):
    k.covers(RigidBody.__init__, RigidBody.M, RigidBody.h, RigidBody.h_u, RigidBody.step_callback)
    rb, q, u, ud = rigid_body(k, theta="spd")
    t = k.real("t")
    h = rb.h(t, q, u)
    k.prove_eq("h.u=0 (gyroscopic forces do no work)", h @ u, 0)
    k.prove_eq("h_u", rb.h_u(t, q, u), k.jac(lambda u_: rb.h(t, q, u_), u))
    M = rb.M(t, q)
    k.prove_eq("M symmetric", M, M.T)
    k.assume(u @ u > 0)
    k.prove_lt("u^T M u > 0 for u != 0", 0, u @ M @ u)
    # step_callback normalises and does not change the rotation
    import cardillo.math.rotations as rot

    A_before = rot.Exp_SO3_quat(q[3:])
    q2, u2 = rb.step_callback(t, q.copy(), u.copy())
    k.prove_eq("|P|=1 after step_callback", q2[3:] @ q2[3:], 1)
    k.prove_eq("position untouched", q2[:3], q[:3])
    k.prove_eq("velocity untouched", u2, u)
    k.prove_eq("rotation unchanged by normalisation", rot.Exp_SO3_quat(q2[3:]), A_before)


@contract("C04", "RigidBody/general-inertia-h", timeout=120)
def c_rb_h(k):
    k.covers(RigidBody.h, RigidBody.h_u)
    rb, q, u, ud = rigid_body(k, theta="sym")
    t = k.real("t")
    k.prove_eq("h.u=0", rb.h(t, q, u) @ u, 0)
    k.prove_eq("h_u", rb.h_u(t, q, u), k.jac(lambda u_: rb.h(t, q, u_), u))


@contract("C04", "PointMass/all")
def c_pm(k):
    k.covers(PointMass.__init__, PointMass.q_dot, PointMass.q_dot_u, PointMass.E_kin, PointMass.M, PointMass.r_OP, PointMass.r_OP_q, PointMass.J_P, PointMass.J_P_q,
             PointMass.v_P, PointMass.v_P_q, PointMass.a_P, PointMass.a_P_q, PointMass.a_P_u)
    pm, q, u, ud = point_mass(k)
    t = k.real("t")
    B = k.reals("B", 3)
    qd = pm.q_dot(t, q, u)
    k.prove_eq("v_P=D_t r_OP", pm.v_P(t, q, u, B_r_CP=B), k.jvp(lambda t_, q_: pm.r_OP(t_, q_, B_r_CP=B), [t, q], [1.0, qd]))
    k.prove_eq("J_P=d v_P/du", pm.J_P(t, q, B_r_CP=B), k.jac(lambda u_: pm.v_P(t, q, u_, B_r_CP=B), u))
    k.prove_eq("a_P=D_t v_P", pm.a_P(t, q, u, ud, B_r_CP=B), k.jvp(lambda t_, q_, u_: pm.v_P(t_, q_, u_, B_r_CP=B), [t, q, u], [1.0, qd, ud]))
    k.prove_eq("q_dot_u", pm.q_dot_u(t, q), k.jac(lambda u_: pm.q_dot(t, q, u_), u))
    k.prove_eq("r_OP_q", pm.r_OP_q(t, q, B_r_CP=B), k.jac(lambda q_: pm.r_OP(t, q_, B_r_CP=B), q))
    k.prove_eq("v_P_q", pm.v_P_q(t, q, u, B_r_CP=B), k.jac(lambda q_: pm.v_P(t, q_, u, B_r_CP=B), q))
    k.prove_eq("J_P_q", pm.J_P_q(t, q, B_r_CP=B), k.jac(lambda q_: pm.J_P(t, q_, B_r_CP=B), q))
    k.prove_eq("a_P_q", pm.a_P_q(t, q, u, ud, B_r_CP=B), k.jac(lambda q_: pm.a_P(t, q_, u, ud, B_r_CP=B), q))
    k.prove_eq("a_P_u", pm.a_P_u(t, q, u, ud, B_r_CP=B), k.jac(lambda u_: pm.a_P(t, q, u_, ud, B_r_CP=B), u))
    M = pm.M(t, q)
    k.prove_eq("M symmetric", M, M.T)
    k.prove_eq("E_kin=1/2 u^T M u", pm.E_kin(t, q, u), 0.5 * (u @ M @ u))
    k.assume(u @ u > 0)
    k.prove_lt("u^T M u > 0", 0, u @ M @ u)


@contract("C04", "Frame/prescribed-motion", timeout=180)
def c_frame(k):
    k.covers(Frame.__init__, Frame.r_OP, Frame.v_P, Frame.a_P, Frame.kappa_P, Frame.A_IB, Frame.B_Omega, Frame.B_Psi, Frame.B_kappa_R, Frame.J_P, Frame.B_J_R)
    t = k.real("t")
    fr, A_of_t = moving_frame(k, t)
    B = k.reals("B", 3)
    none = np.array([])
    k.prove_eq("v_P=D_t r_OP", fr.v_P(t, B_r_CP=B), k.jvp(lambda t_: fr.r_OP(t_, B_r_CP=B), [t], [1.0]))
    k.prove_eq("a_P=D_t v_P", fr.a_P(t, B_r_CP=B), k.jvp(lambda t_: fr.v_P(t_, B_r_CP=B), [t], [1.0]))
    A = fr.A_IB(t)
    A_dot = k.jvp(lambda t_: fr.A_IB(t_), [t], [1.0])
    BOm = fr.B_Omega(t)
    k.prove_eq("D_t A = skew(A B_Omega) A", A_dot, _skewf(k, A @ BOm) @ A)
    k.prove_eq("B_Omega=skew2ax(A^T D_t A)", BOm, axial(A.T @ A_dot))
    k.prove_eq("B_Psi=D_t B_Omega", fr.B_Psi(t), k.jvp(lambda t_: fr.B_Omega(t_), [t], [1.0]))
    k.prove_eq("kappa_P=a_P (no generalized velocities)", fr.kappa_P(t, B_r_CP=B), fr.a_P(t, B_r_CP=B))
    k.prove_eq("B_kappa_R=B_Psi", fr.B_kappa_R(t), fr.B_Psi(t))
    k.prove("J_P empty", fr.J_P(t).shape == (3, 0) and fr.B_J_R(t, none).shape == (3, 0) and fr.r_OP_q(t).shape == (3, 0))


@contract("C04", "Frame/constant")
def c_frame_const(k):
    k.covers(Frame.__init__, Frame.r_OP, Frame.v_P, Frame.a_P, Frame.B_Omega, Frame.B_Psi)
    t = k.real("t")
    r0 = k.reals("r0", 3)
    import cardillo.math.rotations as rot

    Ph = k.reals("Ph", 4)
    k.assume(Ph @ Ph > 0)
    A0 = rot.Exp_SO3_quat(Ph)
    fr = Frame(r_OP=r0, A_IB=A0)
    B = k.reals("B", 3)
    k.prove_eq("r_OP", fr.r_OP(t, B_r_CP=B), r0 + A0 @ B)
    k.prove_eq("v_P=0", fr.v_P(t, B_r_CP=B), np.zeros(3))
    k.prove_eq("a_P=0", fr.a_P(t, B_r_CP=B), np.zeros(3))
    k.prove_eq("B_Omega=0", fr.B_Omega(t), np.zeros(3))
    k.prove_eq("B_Psi=0", fr.B_Psi(t), np.zeros(3))


@contract("C04", "Frame/motion supplied with constant (non-callable) derivatives")
def c_frame_constant_derivatives(k):
    """Frame accepts callable and non-callable derivatives (check_time_derivatives): a uniformly translating frame given
    by r(t) with constant velocity array, and a uniformly accelerated one with callable velocity and constant acceleration"""
    from cardillo.utility.check_time_derivatives import check_time_derivatives

    k.covers(Frame.__init__, check_time_derivatives, Frame.v_P, Frame.a_P, Frame.kappa_P)
    t = k.real("t")
    r0, v0, a0, B = k.reals("r0", 3), k.reals("v0", 3), k.reals("a0", 3), k.reals("B", 3)
    z = np.zeros(3)
    cases = {
        "uniform translation, r_OP_t and r_OP_tt constant arrays": (Frame(r_OP=lambda t_: r0 + v0 * t_, r_OP_t=v0, r_OP_tt=z), lambda t_: r0 + v0 * t_),
        "uniform acceleration, r_OP_t callable, r_OP_tt a constant array": (Frame(r_OP=lambda t_: r0 + v0 * t_ + 0.5 * a0 * t_ * t_, r_OP_t=lambda t_: v0 + a0 * t_, r_OP_tt=a0), lambda t_: r0 + v0 * t_ + 0.5 * a0 * t_ * t_),
    }
    for tag, (fr, r) in cases.items():
        k.prove_eq(f"{tag}: r_OP", fr.r_OP(t, B_r_CP=B), r(t) + B)
        k.prove_eq(f"{tag}: v_P = D_t r_OP", fr.v_P(t, B_r_CP=B), k.jvp(lambda t_: fr.r_OP(t_, B_r_CP=B), [t], [1.0]))
        k.prove_eq(f"{tag}: a_P = D_t v_P", fr.a_P(t, B_r_CP=B), k.jvp(lambda t_: fr.v_P(t_, B_r_CP=B), [t], [1.0]))
        k.prove_eq(f"{tag}: kappa_P = a_P", fr.kappa_P(t, B_r_CP=B), fr.a_P(t, B_r_CP=B))


@contract("C04", "RigidBody, PointMass/integer-typed state and lists denote the same real values", samples=0, replayable=False, timeout=30)
def c_machine_types(k):
    """The contracts above run on symbolic reals; what depends on the MACHINE type of an argument is invisible to them.
    A state given as an integer-typed array (System.assemble builds u0 from a list: all-integer initial velocities arrive
    as int64) or as a list denotes the same real numbers: every evaluation routine returns what it returns for float64
    (executed natively; results compared entrywise)."""
    import inspect

    from vk import kit as K
    from vk import npshim

    if not k.sym:
        raise K.Reject("decided by native execution")
    from cardillo.discrete.point_mass import PointMass
    from cardillo.discrete.rigid_body import RigidBody

    ARGS = {"t", "q", "u", "u_dot", "xi", "B_r_CP"}
    with npshim.active(False):
        Theta = np.array([[2.0, 0.3, -0.1], [0.3, 1.5, 0.2], [-0.1, 0.2, 1.1]])
        for cls, make, q, u, ud in (
            (RigidBody, lambda: RigidBody(1.7, Theta), [1, 2, 0, 1, 2, 0, 1], [0, 1, 2, 1, 2, -3], [1, 0, -1, 2, 0, 1]),
            (PointMass, lambda: PointMass(1.7), [1, 2, 0], [0, 1, 2], [1, 0, -1]),
        ):
            names = []
            for n in dir(cls):
                f = getattr(cls, n)
                if n.startswith("_") or not callable(f) or n in ("export", "step_callback", "pose2q", "q2pose", "local_qDOF_P", "local_uDOF_P"):
                    continue
                try:
                    ps = [p for p in inspect.signature(f).parameters if p != "self"]
                except (TypeError, ValueError):
                    continue
                if ps and set(ps) <= ARGS and "t" in ps:
                    names.append((n, ps))
            k.covers(*[getattr(getattr(cls, n), "__wrapped__", getattr(cls, n)) for n, _ in names])
            for B in ([0.3, -0.2, 0.5], [1, -2, 3]):
                for kind, conv in (("int64 arrays", lambda x: np.array(x, dtype=np.int64)), ("float32 arrays", lambda x: np.array(x, dtype=np.float32))):
                    for n, ps in names:
                        ref_obj, obj = make(), make()  # separate objects: nothing memoised is shared between the two calls
                        vals_f = dict(t=0.0, q=np.array(q, dtype=float), u=np.array(u, dtype=float), u_dot=np.array(ud, dtype=float), xi=None, B_r_CP=np.array(B, dtype=float))
                        vals_i = dict(t=0.0, q=conv(q), u=conv(u), u_dot=conv(ud), xi=None, B_r_CP=np.array(B, dtype=float) if isinstance(B[0], float) else conv(B))
                        try:
                            want = np.asarray(getattr(ref_obj, n)(*[vals_f[p] for p in ps]), dtype=float)
                            got = np.asarray(getattr(obj, n)(*[vals_i[p] for p in ps]), dtype=float)
                            ok = got.shape == want.shape and bool(np.allclose(got, want, rtol=1e-5 if "32" in kind else 1e-12, atol=1e-5 if "32" in kind else 1e-12))
                            how = "" if ok else f"max deviation {np.max(np.abs(got - want)) if got.shape == want.shape else 'shape'}"
                        except Exception as e:  # noqa: BLE001
                            ok, how = False, f"raised {type(e).__name__}: {e}"
                        k.prove(f"{cls.__name__}.{n}: state as {kind}, offset {B}: same result as float64", ok, show=how)
