"""C17 - Integrators keep bilateral constraints and unit quaternions at every step.

What a contract can say here is structural and exact: the equations each integrator hands
to its nonlinear / linear solver ARE the constraints evaluated at the state it stores.
One arbitrary step of the real `solve()` (time loop cut, vk/loopcut.py) is executed
symbolically against the System callee contract; nonlinear solves are opaque and report
success (only such steps are stored, C21), linear solves obey A x = b.  At the back edge:

  BackwardEuler   R_x(x, y) of the accepted x has the rows  g(t_n+1, q_n + dq), gamma(t_n+1, ., .), c(...),
                  dq - dt q_dot(...) and the momentum balance; the stored q, u are step_callback(t_n+1, q_n + dq, u_n + du)
  Rattle          R_x1 has the rows g(t_n+1, q_n+1), gamma(t_n+1, q_n+1, u_n+1/2); the stage-2 linear system gives
                  g_dot(t_n+1, q_n+1, u_n+1) = 0 and gamma(t_n+1, q_n+1, u_n+1) = 0 for the stored u_n+1
  Moreau          g_dot(t_n+1/2, q_n+1/2, u_n+1) = 0, gamma(...) = 0 for the stored velocity, q_n+1/2 the midpoint
  DualStormerVerlet   a fixed point of the real iteration map has g(t_n+1, q_n+1) = 0, gamma = 0, c = 0 at the stored state
  ScipyDAE.fun    residual rows are g, g_dot (GGL), gamma, c, the momentum balance and q_dot - q_dot(t,q,u) - g_q^T mu
  ScipyIVP        u_dot, la_g, la_gamma, la_c returned by la_g_la_gamma_la_c satisfy the equations of motion and
                  g_ddot = gamma_dot = 0 (linear solves with an explicit inverse: M regular)
  every solver    what is stored is the output of System.step_callback (unit quaternions: C04/C11)

The numeric clause "within solver tolerance" is the composition with C22 (a converged fsolve
result has scaled residual < 1) and is exercised by the bounded stand-in: real mechanisms,
all six solvers, two step sizes, residuals recomputed by the harness.
"""

import warnings

import numpy as np

import cardillo.solver.backward_euler as be
import cardillo.solver.dual_stormer_verlet as dsv
import cardillo.solver.moreau as mo
import cardillo.solver.rattle as ra
import cardillo.solver.scipy_dae as sdae
import cardillo.solver.scipy_ivp as sivp
from cardillo.solver import SolverOptions
from contracts.C21 import _opaque_np, _Pbar, _Rec, _StepHelper, _Summary, _warnmod
from contracts.sysstub import Lin, SysStub, mat, patched
from vk import kit as K
from vk import loopcut, npshim
from vk import sym as S
from vk.registry import bounded, contract

LEVEL = "proof"
TRUSTED = [
    "System callee contract (contracts/sysstub.py) incl. step_callback as an uninterpreted function (its normalisation property is C04/C11)",
    "assumed contracts: splu/spsolve A x = b (ScipyIVP: explicit inverse, M and the Schur complement regular); fsolve returns an arbitrary x and the step is only stored when it reports success (C21, C22)",
    "loop cut of the time loop: one arbitrary step from an arbitrary solver state; termination not proved",
    "the tolerance clause is the composition with C22 and is checked numerically by the bounded stand-in only",
]
EXPLANATION = "loop-cut symbolic execution of one solver step against the System callee contract; residual rows compared with the constraint functions at the stored state (normal form / QF_NRA); bounded real runs"

SIZES = dict(nq=2, nu=2, nla_g=1, nla_gamma=1, nla_c=1, nla_tau=1, nla_N=1, nla_F=0)


def _fsolve_ok(rec):
    def fsolve(fun, x0, jac=None, fun_args=(), jac_args=(), inexact=False, options=None, **kw):
        rec.n += 1
        x = S.symarray(f"newton{rec.n}_x", len(x0))

        class Res:
            pass

        r = Res()
        r.x, r.success, r.error, r.fun, r.nit, r.nfev, r.njev = x, True, 0.0, None, 1, 1, 1
        rec.events.append(("newton", x, fun_args if isinstance(fun_args, tuple) else (fun_args,)))
        return r

    return fsolve


def _np_converging(real_np):
    """every convergence measure is 0: the fixed-point loops stop at their first test (the converged path); abs / maximum
    (scaling of the measures, prox-parameter estimate) are opaque so that they do not fork"""
    n = [0]

    def fresh_like(x, *a, **kw):
        n[0] += 1
        return S.symarray(f"opq{n[0]}_", np.shape(x)) if np.shape(x) else S.var(f"opq{n[0]}")

    class LA:
        norm = staticmethod(lambda *a, **kw: 0.0)

        def __getattr__(self, name):
            return getattr(real_np.linalg, name)

    class NP:
        linalg = LA()
        abs = absolute = maximum = staticmethod(fresh_like)

        def __getattr__(self, name):
            return getattr(real_np, name)

    return NP()


def _run_step(k, module, cls, state, prepare, lists, sizes=None, ctor_kw=None):
    lin, rec = Lin(k), _Rec()
    sysm = SysStub(k, sizes=dict(SIZES, **(sizes or {})), friction=False, t0=0.0)
    sysm.q_dot0 = S.symarray("qd0", sysm.nq)

    def prox_par(alpha, W, M):
        return S.symarray("prox_r", np.asarray(W, dtype=object).shape[1])

    names = dict(bmat=lin.bmat, splu=lin.splu, fsolve=_fsolve_ok(rec), warnings=_warnmod(rec), tqdm=_Pbar, SolverSummary=_Summary, print=lambda *a, **kw: None, estimate_prox_parameter=prox_par)
    names = {a: b for a, b in names.items() if hasattr(module, a) or a == "print"}
    with patched(module, **names), npshim.active(True), k.spec():
        opts = SolverOptions()
        solver = cls(sysm, 1.0, 0.25, options=opts, **(ctor_kw or {}))
        prepare(solver, rec)
        helper = _StepHelper("iter", k, solver, state, lists)
        run = loopcut.cut(solver.solve, loop=0)
        k.loop_info = run.info
        with patched(module, np=_np_converging(module.np)):
            try:
                run(helper)
                raise S.KitError("the cut step returned instead of reaching the back edge")
            except loopcut.Stop:
                pass
    if helper.back is None:
        raise S.KitError("back edge not reached")
    return sysm, lin, rec, solver, helper


def _fresh_fn(rec, tag, pick=-1):
    def f(*args):
        rec.n += 1
        return S.symarray(f"{tag}{rec.n}_", len(args[pick]))

    return f


@contract("C17", "BackwardEuler/step", samples=0, replayable=False, timeout=60)
def c_be(k):
    if not k.sym:
        raise K.Reject("symbolic only")
    k.covers(be.BackwardEuler.solve, be.BackwardEuler.R_x)

    def prep(solver, rec):
        solver.prox = _fresh_fn(rec, "prox")
        solver.J_x = lambda x, y: mat(S.symarray("Jx", (solver.nx, solver.nx)))

    state = ("xn", "yn", "tn", "qn", "un")
    sysm, lin, rec, solver, helper = _run_step(k, be, be.BackwardEuler, state, prep, ("t", "q", "u"))
    loc = helper.back
    x, (y,) = rec.events[-1][1], rec.events[-1][2]
    # state at the loop head (havocked)
    tn, qn, un = helper.tn, helper.head["qn"], helper.head["un"]
    dt = solver.dt
    with npshim.active(True):
        post = np.concatenate([solver.qn, solver.un])
        solver.tn, solver.qn, solver.un = tn, qn, un  # R_x reads the state of the step it belongs to
        R = solver.R_x(x, y)
        nq, nu = sysm.nq, sysm.nu
        dq, du, dPg, dPgam, dPc = np.array_split(x, solver.split_x)
        dPN, dPF = np.array_split(y, solver.split_y)
        tn1, q1, u1 = tn + dt, qn + dq, un + du
        sx = solver.split_x
        k.prove_eq("R_x kinematic rows = dq - dt q_dot(t_n+1, q_n + dq, u_n + du)", R[: sx[0]], dq - dt * sysm.q_dot(tn1, q1, u1))
        mom = sysm.M(tn1, q1) @ du - dt * (sysm.h(tn1, q1, u1) + sysm.W_tau(tn1, q1) @ sysm.la_tau(tn1, q1, u1)) - sysm.W_g(tn1, q1) @ dPg - sysm.W_gamma(tn1, q1) @ dPgam - sysm.W_c(tn1, q1) @ dPc - sysm.W_N(tn1, q1) @ dPN
        k.prove_eq("R_x momentum rows = M du - dt (h + W_tau la_tau) - W_g dP_g - W_gamma dP_gamma - W_c dP_c - W_N dP_N", R[sx[0] : sx[1]], mom)
        k.prove_eq("R_x constraint rows = g(t_n+1, q_n + dq)", R[sx[1] : sx[2]], sysm.g(tn1, q1))
        k.prove_eq("R_x constraint rows = gamma(t_n+1, q_n + dq, u_n + du)", R[sx[2] : sx[3]], sysm.gamma(tn1, q1, u1))
        k.prove_eq("R_x compliance rows = c(t_n+1, q_n + dq, u_n + du, dP_c / dt)", R[sx[3] :], sysm.c(tn1, q1, u1, dPc / dt))
        qs, us = sysm.step_callback(tn1, q1, u1)
        k.prove_eq("stored q = step_callback(t_n+1, q_n + dq, u_n + du) of the accepted Newton result", loc["q"][-1], qs)
        k.prove_eq("stored u likewise", loc["u"][-1], us)
        k.prove_eq("stored t = t_n + dt", loc["t"][-1], tn1)
        k.prove_eq("stored P_g = dP_g of the same result", loc["P_g"][-1], dPg)
        k.prove_eq("stored P_N = contact percussion the accepted Newton result was solved with", loc["P_N"][-1], dPN)
        k.prove_eq("solver state advanced to the stored step", post, np.concatenate([qs, us]))


@contract("C17", "Rattle/step", samples=0, replayable=False, timeout=90)
def c_rattle(k):
    if not k.sym:
        raise K.Reject("symbolic only")
    k.covers(ra.Rattle.solve, ra.Rattle.R_x1)

    def prep(solver, rec):
        solver.prox1 = _fresh_fn(rec, "prox1_")
        solver.prox2 = _fresh_fn(rec, "prox2_")
        solver._J_x1 = lambda x, y: mat(S.symarray("Jx1", (solver.nx1, solver.nx1)))

    state = ("x1n", "y1n", "x2n", "y2n", "tn", "qn", "un")
    sysm, lin, rec, solver, helper = _run_step(k, ra, ra.Rattle, state, prep, ("t", "q", "u"))
    loc = helper.back
    x1, (y1,) = rec.events[-1][1], rec.events[-1][2]
    tn, qn, un = helper.tn, helper.head["qn"], helper.head["un"]
    dt = solver.dt
    with npshim.active(True):
        tn1 = tn + dt
        q1, u12, lac1, Pg1, Pgam1 = np.array_split(x1, solver.split_x1)
        # stage 1 residual of the accepted result, evaluated in the state of the step it belongs to
        saved = (solver.tn, solver.qn, solver.un)
        solver.tn, solver.qn, solver.un = tn, qn, un
        R = solver.R_x1(x1, y1)
        solver.tn, solver.qn, solver.un = saved
        s1 = solver.split_x1
        k.prove_eq("R_x1 constraint rows = g(t_n+1, q_n+1)", R[s1[2] : s1[3]], sysm.g(tn1, q1))
        k.prove_eq("R_x1 constraint rows = gamma(t_n+1, q_n+1, u_n+1/2)", R[s1[3] :], sysm.gamma(tn1, q1, u12))
        k.prove_eq("R_x1 compliance rows = c(t_n, q_n, u_n+1/2, la_c)", R[s1[1] : s1[2]], sysm.c(tn, qn, u12, lac1))
        # stage 2: the stored velocity comes from the last linear solve
        A, x2, b = lin.solves[-1]
        u1 = -x2[: sysm.nu]
        k.prove_eq("stage 2: g_dot(t_n+1, q_n+1, u_n+1) = 0 for the velocity of the stage-2 linear system", sysm.g_dot(tn1, q1, u1), np.zeros(sysm.nla_g))
        k.prove_eq("stage 2: gamma(t_n+1, q_n+1, u_n+1) = 0", sysm.gamma(tn1, q1, u1), np.zeros(sysm.nla_gamma))
        qs, us = sysm.step_callback(tn1, q1, u1)
        k.prove_eq("stored q = step_callback(t_n+1, q_n+1, u_n+1) of the accepted stage-1 result", loc["q"][-1], qs)
        k.prove_eq("stored u = step_callback(...) of the stage-2 velocity", loc["u"][-1], us)
        k.prove_eq("stored t = t_n + dt", loc["t"][-1], tn1)


@contract("C17", "Moreau/step", samples=0, replayable=False, timeout=90, max_paths=40)
def c_moreau(k):
    if not k.sym:
        raise K.Reject("symbolic only")
    k.covers(mo.Moreau.solve, mo.Moreau.step)

    def prep(solver, rec):
        def prox(un1, P_N, P_F):
            rec.n += 1
            return S.symarray(f"proxN{rec.n}_", len(P_N)), S.symarray(f"proxF{rec.n}_", len(P_F))

        solver.prox = prox

    state = ("tn", "qn", "un", "P_Nn", "P_Fn", "P_gn", "P_gamman")
    sysm, lin, rec, solver, helper = _run_step(k, mo, mo.Moreau, state, prep, ("q", "u"))
    loc = helper.back
    tn, qn, un = helper.tn, helper.head["qn"], helper.head["un"]
    dt = solver.dt
    with npshim.active(True):
        tn12 = tn + 0.5 * dt
        q12 = qn + 0.5 * dt * sysm.q_dot(tn, qn, un)
        A, x, b = lin.solves[-1]
        u1 = x[: sysm.nu]
        k.prove_eq("g_dot(t_n+1/2, q_n+1/2, u_n+1) = 0 for the velocity of the last linear solve", sysm.g_dot(tn12, q12, u1), np.zeros(sysm.nla_g))
        k.prove_eq("gamma(t_n+1/2, q_n+1/2, u_n+1) = 0", sysm.gamma(tn12, q12, u1), np.zeros(sysm.nla_gamma))
        q1 = q12 + 0.5 * dt * sysm.q_dot(tn12, q12, u1)
        qs, us = sysm.step_callback(tn + dt, q1, u1)
        k.prove_eq("stored q = step_callback(t_n+1, q_n+1/2 + dt/2 q_dot(t_n+1/2, q_n+1/2, u_n+1), u_n+1)", loc["q"][-1], qs)
        k.prove_eq("stored u likewise", loc["u"][-1], us)


@contract("C17", "DualStormerVerlet/step-fixed-point", samples=0, replayable=False, timeout=120, max_paths=40)
def c_dsv(k):
    if not k.sym:
        raise K.Reject("symbolic only")
    k.covers(dsv.DualStormerVerlet._step)
    lin, rec = Lin(k), _Rec()
    sysm = SysStub(k, sizes=dict(SIZES, nla_N=0), friction=False, t0=0.0)
    seen = {}

    def fpi(fun, x0, atol=None, rtol=None, max_iter=None, verbose=False):
        """contract of the fixed-point helpers (C22): the returned point is (up to tolerance) a fixed point of `fun`"""
        rec.n += 1
        z = S.symarray(f"fp{rec.n}_", len(x0))
        fz = fun(z.copy())
        for a, b_ in zip(z, fz):
            k.assume(S._coerce(a) == S._coerce(b_))
        seen[rec.n] = z
        return z, 1, 0.0

    with patched(dsv, splu=lin.splu, bmat=lin.bmat, block_diag=lambda blocks, format=None: lin.bmat([[blk if i == j else None for j in range(len(blocks))] for i, blk in enumerate(blocks)]) if any(np.size(b) for b in blocks) else mat(np.zeros((0, 0), dtype=object)), tqdm=_Pbar, SolverSummary=_Summary, warnings=_warnmod(rec), fixed_point_iteration=fpi, fixed_point_iteration_with_momentum=fpi, print=lambda *a, **kw: None), npshim.active(True), k.spec():
        solver = dsv.DualStormerVerlet(sysm, 1.0, 0.25, options=SolverOptions(), linear_solver="LU", constant_mass_matrix=False)
        # arbitrary state at the beginning of a step
        solver.tn = tn = S.var("tn")
        solver.qn = qn = S.symarray("qn_h", sysm.nq)
        solver.un = un = S.symarray("un_h", sysm.nu)
        solver.Pin = S.symarray("Pin_h", solver.nla)
        solver.Pi_Nn = S.symarray("PiN_h", 0)
        solver.Pi_Fn = S.symarray("PiF_h", 0)
        for nm in ("sol_t", "sol_q", "sol_u", "sol_la_c", "sol_P_g", "sol_P_gamma", "sol_P_N", "sol_P_F"):
            setattr(solver, nm, [])
        solver._step()
        dt = solver.dt
        tn1 = tn + dt
        z = seen[max(seen)]
        nu = sysm.nu
        u1, Pi = z[:nu], z[nu : nu + solver.nla]
        tm = tn + 0.5 * dt
        qm = seen[min(seen)]
        q1 = qm + 0.5 * dt * sysm.q_dot(tm, qm, u1)
        k.prove_eq("midpoint fixed point: q_m = q_n + dt/2 q_dot(t_m, q_m, u_n)", qm, qn + 0.5 * dt * sysm.q_dot(tm, qm, un))
        k.prove_eq("fixed point of the iteration map => g(t_n+1, q_n+1) = 0", sysm.g(tn1, q1), np.zeros(sysm.nla_g))
        k.prove_eq("fixed point => gamma(t_n+1, q_n+1, u_n+1) = 0", sysm.gamma(tn1, q1, u1), np.zeros(sysm.nla_gamma))
        Pg, Pgam, Pc = np.array_split(Pi, solver.split_la)
        k.prove_eq("fixed point => c(t_n+1, q_n+1, u_n+1, Pi_c / dt) = 0", sysm.c(tn1, q1, u1, Pc / dt), np.zeros(sysm.nla_c))
        qs, us = sysm.step_callback(tn1, q1, u1)
        k.prove_eq("stored q = step_callback(t_n+1, q_m + dt/2 q_dot(t_m, q_m, u_n+1), u_n+1)", solver.sol_q[-1], qs)
        k.prove_eq("stored u likewise", solver.sol_u[-1], us)


@contract("C17", "ScipyDAE/fun-rows", samples=0, replayable=False, timeout=60)
def c_dae(k):
    if not k.sym:
        raise K.Reject("symbolic only")
    k.covers(sdae.ScipyDAE.fun)
    rec = _Rec()
    sysm = SysStub(k, sizes=dict(SIZES, nla_N=0), friction=False, t0=0.0)
    sysm.q_dot0 = S.symarray("qd0", sysm.nq)
    with patched(sdae, tqdm=_Pbar, warnings=_warnmod(rec)), npshim.active(True), k.spec():
        solver = sdae.ScipyDAE(sysm, 1.0, 0.25)
        solver.frac = 1.0
        t = 0.5  # time enters the progress bar arithmetic only; System quantities are functions of the argument
        y = S.symarray("y", solver.ny)
        yp = S.symarray("yp", solver.ny)
        F = solver.fun(t, y, yp)
        q, u, _, _, _, _ = np.array_split(y, solver.split)
        qd, ud, mu_g, la_g, la_gam, la_c = np.array_split(yp, solver.split)
        sp = solver.split
        k.prove_eq("rows: q_dot - q_dot(t,q,u) - g_q^T mu_g (GGL stabilisation)", F[: sp[0]], qd - sysm.q_dot(t, q, u) - np.asarray(sysm.g_q(t, q)).T @ mu_g)
        k.prove_eq("rows: M u_dot - h - W_tau la_tau - W_g la_g - W_gamma la_gamma - W_c la_c", F[sp[0] : sp[1]], sysm.M(t, q) @ ud - sysm.h(t, q, u) - sysm.W_tau(t, q) @ sysm.la_tau(t, q, u) - sysm.W_g(t, q) @ la_g - sysm.W_gamma(t, q) @ la_gam - sysm.W_c(t, q) @ la_c)
        k.prove_eq("rows: g(t, q)", F[sp[1] : sp[2]], sysm.g(t, q))
        k.prove_eq("rows: g_dot(t, q, u)", F[sp[2] : sp[3]], sysm.g_dot(t, q, u))
        k.prove_eq("rows: gamma(t, q, u)", F[sp[3] : sp[4]], sysm.gamma(t, q, u))
        k.prove_eq("rows: c(t, q, u, la_c)", F[sp[4] :], sysm.c(t, q, u, la_c))


def _schur_lemmas(k, lin, tag):
    """G la = b for the last-but-one linear solve (the Schur-complement system), proved from the
    facts 'G Ginv = I' of that solve only, the entries of G replaced by fresh variables."""
    A, x, b = lin.solves[-2]
    key = tuple(S._coerce(e).uid for e in A.ravel())
    Ai = lin._inv[key]
    n = A.shape[0]
    abstract = {}
    for i in range(n):
        for j in range(n):
            abstract[A[i, j]] = f"{tag}_G{i}{j}"
    with npshim.active(True):
        r = A @ x
        inv_facts = [S._coerce((A @ Ai)[i, j]) == (1 if i == j else 0) for i in range(n) for j in range(n)]
    facts_now = {id(f) for f in k.run.facts}
    using = inv_facts if all(id(S._cb(f)) in facts_now for f in inv_facts) else None  # only facts the solver stub has stated
    for i in range(n):
        k.lemma(f"{tag}: row {i} of G la = -mu (Schur complement solve)", S._coerce(r[i]) == S._coerce(b[i]), using=using, abstract=abstract if using else None)


@contract("C17", "ScipyIVP/accelerations-and-multipliers", samples=0, replayable=False, timeout=180)
def c_ivp(k):
    if not k.sym:
        raise K.Reject("symbolic only")
    k.covers(sivp.ScipyIVP.la_g_la_gamma_la_c, sivp.ScipyIVP.eqm)
    rec = _Rec()
    lin = Lin(k, inverse=True)
    sysm = SysStub(k, sizes=dict(SIZES, nla_N=0), friction=False, t0=0.0)
    with patched(sivp, tqdm=_Pbar, bmat=lin.bmat, spsolve=lin.spsolve, warnings=_warnmod(rec)), npshim.active(True), k.spec():
        solver = sivp.ScipyIVP(sysm, 1.0, 0.25)
        solver.frac = 1.0
        t = 0.5
        q, u = S.symarray("q", sysm.nq), S.symarray("u", sysm.nu)
        ud, la_g, la_gam, la_c = solver.la_g_la_gamma_la_c(t, q, u)
        f = sysm.h(t, q, u) + sysm.W_tau(t, q) @ sysm.la_tau(t, q, u) + sysm.W_c(t, q) @ la_c
        k.prove_eq("la_c = la_c(t, q, u)", la_c, sysm.la_c(t, q, u))
        k.prove_eq("equations of motion: M u_dot = h + W_tau la_tau + W_c la_c + W_g la_g + W_gamma la_gamma", sysm.M(t, q) @ ud, f + sysm.W_g(t, q) @ la_g + sysm.W_gamma(t, q) @ la_gam)
        # proof script (Schur complement): G la = -mu from the solver contract of the G solve alone,
        # with the entries of G abstracted; the acceleration rows below then follow by
        # expanding g_dot_u M^-1 (f + W la) with la abstracted.  Both steps are obligations.
        _schur_lemmas(k, lin, "la_g_la_gamma_la_c")
        k.prove_eq("g_ddot(t, q, u, u_dot) = 0", sysm.g_ddot(t, q, u, ud), np.zeros(sysm.nla_g))
        k.prove_eq("gamma_dot(t, q, u, u_dot) = 0", sysm.gamma_dot(t, q, u, ud), np.zeros(sysm.nla_gamma))
        dx = solver.eqm(t, np.concatenate([q, u]))
        k.prove_eq("eqm: q' = q_dot(t, q, u)", dx[: sysm.nq], sysm.q_dot(t, q, u))
        ud2 = dx[sysm.nq :]
        A, x, b = lin.solves[-1]
        la_g2, la_gam2 = x[sysm.nu : sysm.nu + sysm.nla_g], x[sysm.nu + sysm.nla_g :]
        k.prove_eq("eqm: u' and its multipliers satisfy the equations of motion", sysm.M(t, q) @ ud2, f + sysm.W_g(t, q) @ la_g2 + sysm.W_gamma(t, q) @ la_gam2)
        k.prove_eq("eqm: g_ddot = 0", sysm.g_ddot(t, q, u, ud2), np.zeros(sysm.nla_g))
        k.prove_eq("eqm: gamma_dot = 0", sysm.gamma_dot(t, q, u, ud2), np.zeros(sysm.nla_gamma))


# --------------------------------------------------------------------------- bounded: real runs
def _mechanisms(rng):
    from cardillo import System
    from cardillo.constraints import FixedDistance, Revolute, Spherical
    from cardillo.discrete import PointMass, RigidBody
    from cardillo.forces import Force
    from cardillo.math.rotations import Exp_SO3_quat

    def rigid_pendulum(joint_kind):
        sysm = System()
        phi = rng.uniform(-1.0, 1.0)
        om = rng.uniform(-2.0, 2.0)
        L = rng.uniform(0.5, 1.2)
        P = np.array([np.cos(phi / 2), 0, 0, np.sin(phi / 2)])
        A = Exp_SO3_quat(P)
        q0 = np.concatenate([A @ np.array([L, 0, 0]), P])
        Om = np.array([0, 0, om])
        u0 = np.concatenate([A @ np.cross(Om, np.array([L, 0, 0])), Om])
        rb = RigidBody(rng.uniform(0.5, 2.0), np.diag(rng.uniform(0.1, 0.4, 3)), q0=q0, u0=u0)
        joint = Revolute(sysm.origin, rb, axis=2, r_OJ0=np.zeros(3)) if joint_kind == "revolute" else Spherical(sysm.origin, rb, r_OJ0=np.zeros(3))
        sysm.add(rb, joint, Force(np.array([0, -9.81 * rb.mass, 0]), rb))
        return sysm

    def point_pendulum():
        sysm = System()
        L = rng.uniform(0.5, 1.2)
        th = rng.uniform(-1, 1)
        r = L * np.array([np.sin(th), -np.cos(th), 0.0])
        v = rng.uniform(-1, 1) * np.array([np.cos(th), np.sin(th), 0.0])
        pm = PointMass(rng.uniform(0.5, 2.0), q0=r, u0=v)
        sysm.add(pm, FixedDistance(sysm.origin, pm), Force(np.array([0, -9.81 * pm.mass, 0]), pm))
        return sysm

    yield "rigid body on a revolute joint", lambda: rigid_pendulum("revolute")
    yield "rigid body on a spherical joint", lambda: rigid_pendulum("spherical")
    yield "point mass on a fixed-distance constraint", point_pendulum


@bounded("C17", "native/constraint-residuals-along-real-runs")
def b_runs(tier, seed):
    import contextlib
    import io

    from cardillo.solver import BackwardEuler, DualStormerVerlet, Moreau, Rattle, ScipyDAE, ScipyIVP

    rng = np.random.default_rng(seed + 170)
    cases, failures = 0, []
    dts = (1e-2,) if tier == "quick" else (2e-2, 2e-3)
    solvers = (
        ("Rattle", lambda s, dt: Rattle(s, 0.2, dt), dict(g=1e-5, g_dot=1e-8)),
        ("BackwardEuler", lambda s, dt: BackwardEuler(s, 0.2, dt), dict(g=1e-5)),
        ("Moreau", lambda s, dt: Moreau(s, 0.2, dt), dict(g_dot_mid=1e-8)),
        ("DualStormerVerlet", lambda s, dt: DualStormerVerlet(s, 0.2, dt, linear_solver="LU"), dict(g=1e-4)),
        ("ScipyDAE", lambda s, dt: ScipyDAE(s, 0.2, dt, rtol=1e-6, atol=1e-8), dict(g=1e-5, g_dot=1e-5)),
        ("ScipyIVP", lambda s, dt: ScipyIVP(s, 0.2, dt), dict(eom=1e-8)),
    )
    for mname, build in _mechanisms(rng):
        for sname, mk, tol in solvers:
            for dt in dts:
                cases += 1
                what = f"{sname} on {mname}, dt={dt}"
                try:
                    with warnings.catch_warnings(), contextlib.redirect_stdout(io.StringIO()), contextlib.redirect_stderr(io.StringIO()):
                        warnings.simplefilter("ignore")
                        sysm = build()
                        sysm.assemble()
                        sol = mk(sysm, dt).solve()
                except Exception as e:  # noqa: BLE001
                    failures.append({"what": f"{what}: run raised {type(e).__name__}", "input": {"seed": seed}, "detail": str(e)[:200]})
                    continue
                t, q, u = sol.t, sol.q, sol.u
                worst = {}
                for i in range(len(t)):
                    if "g" in tol:
                        worst["g"] = max(worst.get("g", 0.0), float(np.max(np.abs(sysm.g(t[i], q[i])), initial=0.0)))
                    if "g_dot" in tol:
                        worst["g_dot"] = max(worst.get("g_dot", 0.0), float(np.max(np.abs(sysm.g_dot(t[i], q[i], u[i])), initial=0.0)))
                    if "g_dot_mid" in tol and i > 0:
                        tm = t[i - 1] + 0.5 * dt
                        qm = q[i - 1] + 0.5 * dt * sysm.q_dot(t[i - 1], q[i - 1], u[i - 1])
                        # the stored velocity passed through step_callback; the midpoint constraint holds for it up to that map (identity on velocities)
                        worst["g_dot_mid"] = max(worst.get("g_dot_mid", 0.0), float(np.max(np.abs(sysm.g_dot(tm, qm, u[i])), initial=0.0)))
                    if "eom" in tol:
                        rhs = sysm.h(t[i], q[i], u[i]) + sysm.W_g(t[i], q[i]) @ sol.la_g[i] + sysm.W_gamma(t[i], q[i]) @ sol.la_gamma[i] + sysm.W_c(t[i], q[i]) @ sol.la_c[i]
                        worst["eom"] = max(worst.get("eom", 0.0), float(np.max(np.abs(sysm.M(t[i], q[i]) @ sol.u_dot[i] - rhs)) / (1 + np.max(np.abs(rhs)))))
                        worst["g_ddot"] = max(worst.get("g_ddot", 0.0), float(np.max(np.abs(sysm.g_ddot(t[i], q[i], u[i], sol.u_dot[i])), initial=0.0)))
                    if q.shape[1] == 7 and sname not in ("ScipyIVP", "ScipyDAE"):
                        worst["|p|-1"] = max(worst.get("|p|-1", 0.0), abs(float(np.linalg.norm(q[i, 3:7])) - 1.0))
                limits = dict(tol)
                limits.setdefault("|p|-1", 1e-12)
                limits.setdefault("g_ddot", 1e-8)
                for key, val in worst.items():
                    cases += 1
                    if not val <= limits[key]:
                        failures.append({"what": f"{what}: max {key} over the stored steps exceeds {limits[key]:g}", "input": {"seed": seed}, "detail": f"{val:.3e}"})
    return {"cases": cases, "distinct": cases, "failures": failures[:12], "bound": f"3 real mechanisms x 6 solvers x step sizes {dts}, horizon 0.2; residuals recomputed from the stored solution"}
