"""C11 - Rod discretization derivatives and nodal interpolation are consistent.

  provider (symbolic)  Quaternion `_deval` = derivative of `_eval` w.r.t. the element coordinates (non-unit
                       nodal quaternions, symbolic basis values); A_IB is a rotation
  client (symbolic)    f_int_el_qe, c_el_qe, Wla_c_el_qe, g_q_el, Wla_g_q_el are the derivatives of f_int_el,
                       c_el, W_c_el la_c, g_el, W_g_el la_g - verified against the `_eval/_deval` contract
                       (uninterpreted smooth strains/orientation with their derivative tensors)
  global (symbolic)    q_dot_q, q_dot_u, g_S_q, step_callback; M_el symmetric positive semidefinite,
                       E_kin_el = 1/2 u^T M_el u, f_gyr_el . u = 0, f_gyr_el_ue = d f_gyr_el/du
  kinematics (symbolic, Quaternion)  r_OP_q, A_IB_q, v_P_q, J_P = dv_P/du, J_P_q, a_P_q, a_P_u, and nodal
                       interpolation at xi = 0, 1
  all formulations / assembled level  bounded stand-in (central differences on real rods)
"""

import numpy as np

import cardillo.math.rotations as rot
from cardillo.rods import Simo1986
from contracts.rods import FORMULATIONS, dense, fd, make_rod, perturb, relerr
from contracts.subsys import Jets
from vk import kit as K
from vk import npshim
from vk import sym as S
from vk.registry import bounded, contract

LEVEL = "proof"
TRUSTED = [
    "mesh tables (N, N_xi, quadrature weights, reference Jacobians) are symbolic atoms or the rod's own float tables; SE3 and R12 `_deval` are covered by the bounded stand-in only",
    "material law Simo1986 with symbolic positive stiffnesses (C12)",
]
EXPLANATION = "provider/client contracts around the rod `_eval/_deval`; QF_NRA obligations; bounded finite-difference stand-in for SE3/R12 and assembled rods"


def _deval_quat(degree):
    def c(k):
        rng = np.random.default_rng(1)
        rod, Q = make_rod("Quaternion", False, None, degree, 1, rng)
        cls = type(rod)
        k.covers(cls._eval, cls._deval)
        nn = degree + 1
        qe = k.reals("qe", 7 * nn, sample=lambda g: np.concatenate([g.normal(size=3 * nn), g.normal(size=4 * nn)]))
        N = k.reals("N", nn, sample=lambda g: g.uniform(0.1, 1, nn))
        Nx = k.reals("Nx", nn)
        p = sum(N[i] * qe[rod.nodalDOF_element_p[i]] for i in range(nn))
        k.assume(p @ p > 0)
        ev = lambda q_: cls._eval.__wrapped__(rod, q_, 0.3, N, Nx)
        out = cls._deval.__wrapped__(rod, qe, 0.3, N, Nx)
        names = ["r_OP", "A_IB", "B_Gamma_bar", "B_Kappa_bar"]
        for i, nm in enumerate(names):
            k.prove_eq(f"_deval returns {nm} of _eval", out[i], ev(qe)[i], tol=1e-10)
            k.prove_eq(f"{nm}_qe = d {nm}/d qe", out[4 + i], k.jac(lambda q_: ev(q_)[i], qe), tol=1e-6)

    return c


contract("C11", "Quaternion._deval[degree=1]", timeout=180, samples=2)(_deval_quat(1))
contract("C11", "Quaternion._deval[degree=2]", timeout=300, samples=2, tiers=("thorough",))(_deval_quat(2))


def _client(mixed, constraints, degree):
    def c(k):
        if not k.sym:
            raise K.Reject("symbolic only")
        rng = np.random.default_rng(2)
        rod, Q = make_rod("Quaternion", mixed, constraints, degree, 1, rng)
        cls = type(rod)
        k.covers(*[getattr(cls, n) for n in ("f_int_el", "f_int_el_qe", "c_el", "c_el_qe", "W_c_el", "Wla_c_el_qe", "g_el", "g_q_el", "W_g_el", "Wla_g_q_el") if hasattr(cls, n)])
        nq = rod.nquadrature
        Ei, Fi = S.symarray("E", 3), S.symarray("F", 3)
        for v in list(Ei) + list(Fi):
            k.assume(v > 0)
        with npshim.active(True):
            rod.material_model = Simo1986(Ei, Fi)
        qe = S.symarray("qe", rod.nq_element)
        jets = Jets()
        store = {}

        def pieces(xi):
            key = float(xi)
            if key not in store:
                i = len(store)
                deps = tuple(qe)
                store[key] = (jets.array(f"r{i}", 3, deps), jets.array(f"A{i}", (3, 3), deps), jets.array(f"G{i}", 3, deps), jets.array(f"K{i}", 3, deps))
            return store[key]

        def d(arr):
            out = np.empty(arr.shape + (len(qe),), dtype=object)
            for idx in np.ndindex(*arr.shape):
                for j, v in enumerate(qe):
                    out[idx + (j,)] = S.PARTIALS[arr[idx].uid].partial(v)
            return out

        def chk(q_):
            if not all(a is b for a, b in zip(q_, qe)):
                raise S.KitError("_eval/_deval stub called with foreign element coordinates")

        rod._eval = lambda q_, xi, N=None, N_xi=None: (chk(q_), pieces(xi))[1]
        rod._deval = lambda q_, xi, N=None, N_xi=None: (chk(q_), pieces(xi) + tuple(d(a) for a in pieces(xi)))[1]
        # reference strains are positive constants of the element
        rod.J = S.symarray("J", (1, nq))
        for v in rod.J.ravel():
            k.assume(v > 0)
        rod.B_Gamma0 = S.symarray("G0", (1, nq, 3))
        rod.B_Kappa0 = S.symarray("K0", (1, nq, 3))

        def jac(y):
            y = S.as_symarray(y)
            out = np.empty(y.shape + (len(qe),), dtype=object)
            for j, v in enumerate(qe):
                memo = {}
                for idx in np.ndindex(*y.shape):
                    out[idx + (j,)] = S.jvp(y[idx], {v: S.ONE}, memo)
            return out

        if hasattr(rod, "f_int_el"):
            k.prove_eq("f_int_el_qe = d f_int_el/d qe", rod.f_int_el_qe(qe, 0), jac(rod.f_int_el(qe, 0)))
        if mixed:
            la = S.symarray("la_c", rod.nla_c_element)
            k.prove_eq("c_el_qe = d c_el/d qe", rod.c_el_qe(qe, la, 0), jac(rod.c_el(qe, la, 0)))
            k.prove_eq("Wla_c_el_qe = d(W_c_el la_c)/d qe", rod.Wla_c_el_qe(qe, la, 0), jac(rod.W_c_el(qe, 0) @ la))
            k.prove_eq("c_la_c_el = d c_el/d la_c", rod.c_la_c_el(0), np.array([[S.jvp(S._coerce(ci), {lj: S.ONE}) for lj in la] for ci in rod.c_el(qe, la, 0)], dtype=object))
        if constraints is not None:
            lag = S.symarray("la_g", rod.nla_g_element)
            k.prove_eq("g_q_el = d g_el/d qe", rod.g_q_el(qe, 0), jac(rod.g_el(qe, 0)))
            k.prove_eq("Wla_g_q_el = d(W_g_el la_g)/d qe", rod.Wla_g_q_el(qe, lag, 0), jac(rod.W_g_el(qe, 0) @ lag))

    return c


for _mixed, _constraints, _deg, _t in (
    (False, None, 1, ("quick", "thorough")),
    (True, None, 1, ("quick", "thorough")),
    (False, (1, 2), 1, ("quick", "thorough")),
    (True, (0, 1, 2), 2, ("quick", "thorough")),
    (False, None, 2, ("thorough",)),
    (True, None, 2, ("thorough",)),
    (False, (0, 1, 2, 3, 4, 5), 2, ("thorough",)),
):
    contract("C11", f"element-jacobians/eval-contract[mixed={_mixed},constraints={_constraints},degree={_deg}]", samples=0, replayable=False, timeout=120, tiers=_t)(_client(_mixed, _constraints, _deg))


@contract("C11", "rod/kinematic-equation-and-inertia[Quaternion,degree=1]", timeout=120, samples=2)
def c_global(k):
    rng = np.random.default_rng(3)
    rod, Q = make_rod("Quaternion", False, None, 1, 1, rng)
    cls = type(rod)
    k.covers(cls.q_dot, cls.q_dot_q, cls.q_dot_u, cls.g_S, cls.g_S_q, cls.step_callback, cls.M_el, cls.E_kin_el, cls.f_gyr_el, cls.f_gyr_el_ue)
    q = k.reals("q", rod.nq, sample=lambda g: perturb(Q, g, 0.3))
    u = k.reals("u", rod.nu)
    t = 0.0
    for node in range(rod.nnodes_p):
        p = q[rod.nodalDOF_p[node]]
        k.assume(p @ p > 0)
    qd = rod.q_dot(t, q, u)
    k.prove_eq("q_dot_q = d q_dot/dq", dense(rod.q_dot_q(t, q, u)), k.jac(lambda q_: rod.q_dot(t, q_, u), q))
    k.prove_eq("q_dot_u = d q_dot/du", dense(rod.q_dot_u(t, q)), k.jac(lambda u_: rod.q_dot(t, q, u_), u))
    for node in range(rod.nnodes_p):
        p = q[rod.nodalDOF_p[node]]
        k.prove_eq(f"node {node}: quaternion length conserved by q_dot", p @ qd[rod.nodalDOF_p[node]], 0)
    k.prove_eq("g_S_q = d g_S/dq", dense(rod.g_S_q(t, q)), k.jac(lambda q_: rod.g_S(t, q_), q))
    q2, u2 = rod.step_callback(t, q.copy(), u.copy())
    for node in range(rod.nnodes_p):
        p2 = q2[rod.nodalDOF_p[node]]
        k.prove_eq(f"node {node}: unit quaternion after step_callback", p2 @ p2, 1)
    k.prove_eq("g_S = 0 after step_callback", rod.g_S(t, q2), np.zeros(rod.nla_S))
    # inertia terms of one element (the rod's own float tables)
    ue = u[rod.elDOF_u[0]]
    qe = q[rod.elDOF[0]]
    M = rod.M_el(0)
    k.prove_eq("M_el symmetric", M, M.T, tol=1e-14)
    # the rod's tables are doubles and M_el multiplies them natively: identities hold up to rounding of those products
    bound = 1e-9 * (1 + ue @ ue)

    def close(label, a, b):
        k.prove_le(label + " (upper)", np.asarray(a) - np.asarray(b), bound)
        k.prove_le(label + " (lower)", np.asarray(b) - np.asarray(a), bound)

    close("E_kin_el = 1/2 u^T M_el u", rod.E_kin_el(qe, ue, 0), 0.5 * (ue @ M @ ue))
    k.prove_le("u^T M_el u >= 0", 0, ue @ M @ ue)
    fg = rod.f_gyr_el(t, qe, ue, 0)
    close("f_gyr_el . u = 0 (power free)", fg @ ue, 0)
    close("f_gyr_el_ue = d f_gyr_el/du", rod.f_gyr_el_ue(t, qe, ue, 0), k.jac(lambda u_: rod.f_gyr_el(t, qe, u_, 0), ue))


def _kinematics(xi):
    def c(k):
        rng = np.random.default_rng(4)
        rod, Q = make_rod("Quaternion", False, None, 1, 1, rng)
        cls = type(rod)
        k.covers(cls.r_OP, cls.r_OP_q, cls.v_P, cls.v_P_q, cls.J_P, cls.J_P_q, cls.a_P, cls.a_P_q, cls.a_P_u, cls.A_IB, cls.A_IB_q, cls.B_Omega, cls.B_J_R, cls.B_Psi)
        qe = k.reals("qe", rod.nq_element, sample=lambda g: perturb(Q, g, 0.3)[rod.elDOF[0]])
        ue = k.reals("ue", rod.nu_element)
        ud = k.reals("ud", rod.nu_element)
        B = k.reals("B", 3)
        t = 0.0
        N, _ = rod.basis_functions_r(xi)
        p = sum(N[i] * qe[rod.nodalDOF_element_p[i]] for i in range(2))
        k.assume(p @ p > 0)
        noc = lambda f: f  # caches are keyed on the symbolic coordinates: fresh terms give fresh keys
        k.prove_eq("r_OP_q = d r_OP/dq", rod.r_OP_q(t, qe, xi, B), k.jac(lambda q_: rod.r_OP(t, q_, xi, B), qe), tol=1e-6)
        k.prove_eq("A_IB_q = d A_IB/dq", rod.A_IB_q(t, qe, xi), k.jac(lambda q_: rod.A_IB(t, q_, xi), qe), tol=1e-6)
        A = rod.A_IB(t, qe, xi)
        k.prove_eq("A_IB is a rotation", A.T @ A, np.eye(3), tol=1e-9)
        k.prove_eq("v_P_q = d v_P/dq", rod.v_P_q(t, qe, ue, xi, B), k.jac(lambda q_: rod.v_P(t, q_, ue, xi, B), qe), tol=1e-6)
        k.prove_eq("J_P = d v_P/du", rod.J_P(t, qe, xi, B), k.jac(lambda u_: rod.v_P(t, qe, u_, xi, B), ue), tol=1e-6)
        k.prove_eq("J_P_q = d J_P/dq", rod.J_P_q(t, qe, xi, B), k.jac(lambda q_: rod.J_P(t, q_, xi, B), qe), tol=1e-6)
        k.prove_eq("a_P_q = d a_P/dq", rod.a_P_q(t, qe, ue, ud, xi, B), k.jac(lambda q_: rod.a_P(t, q_, ue, ud, xi, B), qe), tol=1e-6)
        k.prove_eq("a_P_u = d a_P/du", rod.a_P_u(t, qe, ue, ud, xi, B), k.jac(lambda u_: rod.a_P(t, qe, u_, ud, xi, B), ue), tol=1e-6)
        k.prove_eq("B_J_R = d B_Omega/du", rod.B_J_R(t, qe, xi), k.jac(lambda u_: rod.B_Omega(t, qe, u_, xi), ue), tol=1e-6)
        k.prove_eq("B_Omega_q = d B_Omega/dq", rod.B_Omega_q(t, qe, ue, xi), k.jac(lambda q_: rod.B_Omega(t, q_, ue, xi), qe), tol=1e-6)
        # frame: the kinematic routines are functions of their arguments - they share memoised `_eval/_deval`
        # results and must not modify them (a second query at the same state returns the same value)
        for nm, call in (
            ("r_OP", lambda: rod.r_OP(t, qe, xi, B)),
            ("r_OP_q", lambda: rod.r_OP_q(t, qe, xi, B)),
            ("A_IB_q", lambda: rod.A_IB_q(t, qe, xi)),
            ("v_P", lambda: rod.v_P(t, qe, ue, xi, B)),
            ("v_P_q", lambda: rod.v_P_q(t, qe, ue, xi, B)),
            ("J_P", lambda: rod.J_P(t, qe, xi, B)),
            ("J_P_q", lambda: rod.J_P_q(t, qe, xi, B)),
            ("a_P", lambda: rod.a_P(t, qe, ue, ud, xi, B)),
            ("a_P_q", lambda: rod.a_P_q(t, qe, ue, ud, xi, B)),
            ("a_P_u", lambda: rod.a_P_u(t, qe, ue, ud, xi, B)),
            ("B_J_R", lambda: rod.B_J_R(t, qe, xi)),
            ("B_Omega_q", lambda: rod.B_Omega_q(t, qe, ue, xi)),
        ):
            first = np.array(call(), copy=True)
            k.prove_eq(f"{nm}: a repeated query at the same state returns the same value", call(), first, tol=1e-13)
        if xi in (0.0, 1.0):
            node = 0 if xi == 0.0 else 1
            k.prove_eq("nodal interpolation: r_OP = nodal position", rod.r_OP(t, qe, xi), qe[rod.nodalDOF_element_r[node]], tol=1e-12)
            k.prove_eq("nodal interpolation: A_IB = R(nodal quaternion)", A, rot.Exp_SO3_quat(qe[rod.nodalDOF_element_p[node]]), tol=1e-12)
            k.prove_eq("nodal interpolation: v_P = nodal velocity", rod.v_P(t, qe, ue, xi), ue[rod.nodalDOF_element_r_u[node]], tol=1e-12)
            k.prove_eq("nodal interpolation: B_Omega = nodal angular velocity", rod.B_Omega(t, qe, ue, xi), ue[rod.nodalDOF_element_p_u[node]], tol=1e-12)

    return c


for _xi in (0.0, 0.3, 1.0):
    contract("C11", f"rod/kinematics[Quaternion,xi={_xi}]", timeout=180, samples=2, tiers=("quick", "thorough") if _xi != 0.3 else ("quick", "thorough"))(_kinematics(_xi))


@bounded("C11", "all-formulations/finite-difference-jacobians")
def b_rods(tier, seed):
    rng = np.random.default_rng(seed + 50)
    cases, failures = 0, []
    forms = FORMULATIONS if tier == "thorough" else [f for f in FORMULATIONS if f[3] == (1 if f[0] == "SE3" else 2)]
    for interp, mixed, constraints, degree in forms:
        nel = 2
        name = f"{interp}[mixed={mixed},constraints={constraints},degree={degree}]"
        try:
            rod, Q = make_rod(interp, mixed, constraints, degree, nel, rng)
        except Exception as e:  # noqa: BLE001
            failures.append({"what": f"{name}: construction raised {type(e).__name__}", "input": {}, "detail": str(e)[:200]})
            continue
        t = 0.0
        q = perturb(Q, rng)
        u = rng.normal(size=rod.nu)
        ud = rng.normal(size=rod.nu)
        checks = []
        try:
            if hasattr(rod, "h_q") and hasattr(rod, "f_int_el"):
                checks.append(("h_q = dh/dq", relerr(dense(rod.h_q(t, q, u)), fd(lambda q_: rod.h(t, q_, u), q))))
            if hasattr(rod, "h_u") and hasattr(rod, "h"):
                checks.append(("h_u = dh/du", relerr(dense(rod.h_u(t, q, u)), fd(lambda u_: rod.h(t, q, u_), u))))
                checks.append(("gyroscopic forces are power free", abs((rod.h(t, q, u) - rod.h(t, q, 0 * u)) @ u) / (1 + np.abs(rod.h(t, q, u)).max() * np.abs(u).max())))
            if hasattr(rod, "c"):
                la = rng.normal(size=rod.nla_c)
                checks.append(("c_q = dc/dq", relerr(dense(rod.c_q(t, q, u, la)), fd(lambda q_: rod.c(t, q_, u, la), q))))
                checks.append(("c_la_c = dc/dla_c", relerr(dense(rod.c_la_c()), fd(lambda l_: rod.c(t, q, u, l_), la))))
                checks.append(("Wla_c_q = d(W_c la_c)/dq", relerr(dense(rod.Wla_c_q(t, q, la)), fd(lambda q_: dense(rod.W_c(t, q_)) @ la, q))))
                checks.append(("c(q, la_c(q)) = 0", np.max(np.abs(rod.c(t, q, u, rod.la_c(t, q, u))))))
            if hasattr(rod, "g"):
                lag = rng.normal(size=rod.nla_g)
                checks.append(("g_q = dg/dq", relerr(dense(rod.g_q(t, q)), fd(lambda q_: rod.g(t, q_), q))))
                checks.append(("Wla_g_q = d(W_g la_g)/dq", relerr(dense(rod.Wla_g_q(t, q, lag)), fd(lambda q_: dense(rod.W_g(t, q_)) @ lag, q))))
                checks.append(("W_g^T u = g_dot", relerr(dense(rod.W_g(t, q)).T @ u, rod.g_dot(t, q, u))))
            checks.append(("q_dot_q = d q_dot/dq", relerr(dense(rod.q_dot_q(t, q, u)), fd(lambda q_: rod.q_dot(t, q_, u), q))))
            checks.append(("q_dot_u = d q_dot/du", relerr(dense(rod.q_dot_u(t, q)), fd(lambda u_: rod.q_dot(t, q, u_), u))))
            checks.append(("g_S_q = d g_S/dq", relerr(dense(rod.g_S_q(t, q)), fd(lambda q_: rod.g_S(t, q_), q))))
            M = dense(rod.M(t, q))
            checks.append(("M symmetric", relerr(M, M.T)))
            checks.append(("M positive semidefinite", max(0.0, -np.linalg.eigvalsh(0.5 * (M + M.T)).min())))
            checks.append(("E_kin = 1/2 u^T M u", abs(rod.E_kin(t, q, u) - 0.5 * u @ M @ u) / (1 + abs(rod.E_kin(t, q, u)))))
            B = rng.normal(size=3)
            for xi in (0.0, 0.37, 0.5, 1.0):
                qe = q[rod.elDOF_P(xi)]
                ue = u[rod.elDOF_P_u(xi)]
                ude = ud[rod.elDOF_P_u(xi)]
                checks.append((f"xi={xi}: r_OP_q", relerr(rod.r_OP_q(t, qe, xi, B), fd(lambda q_: rod.r_OP(t, q_, xi, B), qe))))
                checks.append((f"xi={xi}: A_IB_q", relerr(rod.A_IB_q(t, qe, xi), fd(lambda q_: rod.A_IB(t, q_, xi), qe))))
                checks.append((f"xi={xi}: v_P_q", relerr(rod.v_P_q(t, qe, ue, xi, B), fd(lambda q_: rod.v_P(t, q_, ue, xi, B), qe))))
                checks.append((f"xi={xi}: J_P = dv_P/du", relerr(rod.J_P(t, qe, xi, B), fd(lambda u_: rod.v_P(t, qe, u_, xi, B), ue))))
                checks.append((f"xi={xi}: J_P_q", relerr(rod.J_P_q(t, qe, xi, B), fd(lambda q_: rod.J_P(t, q_, xi, B), qe))))
                checks.append((f"xi={xi}: a_P_q", relerr(rod.a_P_q(t, qe, ue, ude, xi, B), fd(lambda q_: rod.a_P(t, q_, ue, ude, xi, B), qe))))
                checks.append((f"xi={xi}: a_P_u", relerr(rod.a_P_u(t, qe, ue, ude, xi, B), fd(lambda u_: rod.a_P(t, qe, u_, ude, xi, B), ue))))
                # second query at the same state with another offset (memoised _eval/_deval results must not be modified)
                B2 = rng.normal(size=3)
                checks.append((f"xi={xi}: r_OP_q, second query at the same state", relerr(rod.r_OP_q(t, qe, xi, B2), fd(lambda q_: rod.r_OP(t, q_, xi, B2), qe))))
                checks.append((f"xi={xi}: v_P_q, second query at the same state", relerr(rod.v_P_q(t, qe, ue, xi, B2), fd(lambda q_: rod.v_P(t, q_, ue, xi, B2), qe))))
                checks.append((f"xi={xi}: J_P, second query at the same state", relerr(rod.J_P(t, qe, xi, B2), fd(lambda u_: rod.v_P(t, qe, u_, xi, B2), ue))))
                if interp in ("Quaternion", "SE3"):
                    A = rod.A_IB(t, qe, xi)
                    checks.append((f"xi={xi}: A_IB in SO(3)", max(np.abs(A.T @ A - np.eye(3)).max(), abs(np.linalg.det(A) - 1))))
            nn = len(Q) // 7
            for node, xi in ((0, 0.0), (nn - 1, 1.0)):
                qe = q[rod.elDOF_P(xi)]
                ue = u[rod.elDOF_P_u(xi)]
                checks.append((f"node at xi={xi}: r_OP = nodal position", relerr(rod.r_OP(t, qe, xi), q[rod.nodalDOF_r[node]])))
                checks.append((f"node at xi={xi}: v_P = nodal velocity", relerr(rod.v_P(t, qe, ue, xi), u[rod.nodalDOF_r_u[node]])))
                if interp != "R12":
                    checks.append((f"node at xi={xi}: A_IB = R(nodal quaternion)", relerr(rod.A_IB(t, qe, xi), rot.Exp_SO3_quat(q[rod.nodalDOF_p[node]]))))
        except Exception as e:  # noqa: BLE001
            failures.append({"what": f"{name}: evaluation raised {type(e).__name__}", "input": {}, "detail": str(e)[:300]})
        for what, err in checks:
            cases += 1
            if not err <= 2e-6:
                failures.append({"what": f"{name}: {what}", "input": {"seed": seed}, "detail": f"error {err:.3e}"})
    return {"cases": cases, "distinct": cases, "failures": failures[:15], "bound": f"{len(forms)} formulations, 2 elements, random curved non-unit reference and state, central differences h=1e-6, tolerance 2e-6"}
