"""C25 - Revolute joint angle tracks the accumulated relative rotation.

Inductive invariant over the tracking state of Revolute (n_full_rotations,
previous_quadrant) with a ghost accumulated angle theta:

    Inv(theta):  2 pi n + (pq - 1) pi/2  <=  theta  <  2 pi n + pq pi/2

  Init   : assembler_callback / reset establish Inv(0)   (n = 0, pq = 1)
  Step   : Inv(theta) and |delta| < pi/2  ==>  after l():  Inv(theta + delta)  and
           l() = angle0 + theta + delta,        for every previous quadrant, every n,
           every within-quadrant angle, every increment (the real l() is executed; its
           quadrant test forks the path, arctan enters through the axiom table)
  Idem   : a second query at the same configuration returns the same angle and state
  Frames : for every joint orientation A_IJ1 = R(P) and relative rotation phi about the
           joint axis, the projections used by l() are x = cos phi, y = sin phi
  Rate   : on the joint manifold l_dot = D_t l = (Omega_2 - Omega_1) . e_axis
"""

import numpy as np

from cardillo.constraints import Revolute
import cardillo.math.rotations as rot
from vk import kit as K
from vk import sym as S
from vk.registry import bounded, contract

LEVEL = "proof"
TRUSTED = [
    "ghost state: the accumulated relative rotation theta is split as 2 pi n + (pq-1) pi/2 + psi with psi in [0, pi/2); increments satisfy |delta| < pi/2 (requires of the property)",
    "l() depends on the joint frames only through x = e_a2.e_a1 and y = e_a2.e_b1 (shown by the Frames contract for every orientation); the step contract feeds x = cos, y = sin of the new angle",
]
EXPLANATION = "inductive invariant of the angle-tracking state machine proved on the real Revolute.l with trigonometric axioms; QF_NRA"


class _Dummy:
    nq = nu = 0


def _joint(axis, angle0):
    j = Revolute(_Dummy(), _Dummy(), axis=axis, angle0=angle0)
    return j


def _rot_axis(axis, c, s, sym):
    R = np.zeros((3, 3), dtype=object if sym else float)
    a, b = np.roll([0, 1, 2], -axis)[1:]
    for i in range(3):
        for jx in range(3):
            R[i, jx] = 0
    R[axis, axis] = 1
    R[a, a] = c
    R[b, a] = s
    R[a, b] = -s
    R[b, b] = c
    return R


def _step(axis, pq):
    def c(k):
        k.covers(Revolute.l, Revolute._compute_quadrant)
        angle0 = k.real("angle0")
        n = k.real("n", sample=lambda g: float(g.integers(-3, 4)))
        psi = k.real("psi", sample=lambda g: g.uniform(0, np.pi / 2 * 0.999))
        delta = k.real("delta", sample=lambda g: g.uniform(-np.pi / 2, np.pi / 2) * 0.999)
        pi = S.PI if k.sym else np.pi
        k.assume(psi >= 0)
        k.assume(psi < pi / 2)
        k.assume(delta > -pi / 2)
        k.assume(delta < pi / 2)
        phi_prev = (pq - 1) * pi / 2 + psi
        phi_new = phi_prev + delta
        j = _joint(axis, angle0)
        j.n_full_rotations = n
        j.previous_quadrant = pq
        cn, sn = np.cos(phi_new), np.sin(phi_new)
        J1 = np.eye(3)
        J2 = _rot_axis(axis, cn, sn, k.sym)
        j.A_IJ1 = lambda t, q: J1
        j.A_IJ2 = lambda t, q: J2
        val = j.l(0.0, None)
        theta_new = 2 * pi * n + phi_new
        k.prove_eq("l = angle0 + accumulated rotation", val, angle0 + theta_new, tol=1e-9)
        n2, q2 = j.n_full_rotations, j.previous_quadrant
        lo = 2 * pi * n2 + (q2 - 1) * pi / 2
        k.prove_le("Inv: lower bound of the tracked quadrant", lo, theta_new, tol=1e-9)
        k.prove_lt("Inv: upper bound of the tracked quadrant", theta_new, lo + pi / 2, tol=-1e-12)
        # idempotence: query again at the same configuration
        val2 = j.l(0.0, None)
        k.prove_eq("second query returns the same angle", val2, val, tol=1e-12)
        k.prove("second query leaves the tracking state unchanged", (j.previous_quadrant == q2) and k.eq(j.n_full_rotations, n2))

    return c


for _pq in (1, 2, 3, 4):
    contract("C25", f"Revolute.l/step[prev_quadrant={_pq},axis=2]", timeout=120, samples=4, max_paths=40)(_step(2, _pq))
    # every axis at the quick tier too: the orientation of the rotation plane (right-handed about e_axis) is per axis
    contract("C25", f"Revolute.l/step[prev_quadrant={_pq},axis=0]", timeout=120, samples=4, max_paths=40)(_step(0, _pq))
    contract("C25", f"Revolute.l/step[prev_quadrant={_pq},axis=1]", timeout=120, samples=4, max_paths=40)(_step(1, _pq))


@contract("C25", "Revolute/init-and-reset", samples=1)
def c_init(k):
    k.covers(Revolute.reset, Revolute.assembler_callback)
    j = _joint(2, 0.0)
    j.n_full_rotations, j.previous_quadrant = 5, 3
    j.reset()
    k.prove("reset restores n = 0, previous_quadrant = 1", j.n_full_rotations == 0 and j.previous_quadrant == 1)
    # the first assembly of a freshly defined joint establishes the same tracking state:
    # the real assembler_callback runs on a joint between two real rigid bodies whose
    # initial configuration is arbitrary (symbolic in the proof run).  Re-assembly of a
    # joint that already tracks an angle is the subject of C24, not of this clause.
    from cardillo.discrete.rigid_body import RigidBody

    bs = []
    for i, tag in enumerate(("a", "b")):
        b = RigidBody(1.0, np.eye(3))
        q0 = k.reals(tag + "q0", 7, sample=lambda g: np.concatenate([g.normal(size=3), g.normal(size=4)]))
        k.assume(q0[3:] @ q0[3:] > 0)
        b.q0, b.u0, b.t0 = q0, np.zeros(6), 0.0
        b.qDOF = np.arange(7) + 7 * i
        b.uDOF = np.arange(6) + 6 * i
        bs.append(b)
    for axis in (0, 1, 2):
        jf = Revolute(bs[0], bs[1], axis=axis, angle0=k.real("angle0"))
        k.prove(f"a freshly defined joint carries no tracking state before assembly or has the reset state [axis={axis}]", (not hasattr(jf, "n_full_rotations") and not hasattr(jf, "previous_quadrant")) or (jf.n_full_rotations == 0 and jf.previous_quadrant == 1))
        jf.assembler_callback()
        k.prove(f"first assembler_callback establishes n = 0, previous_quadrant = 1 [axis={axis}]", jf.n_full_rotations == 0 and jf.previous_quadrant == 1, show=str((jf.n_full_rotations, jf.previous_quadrant)))
        jf.n_full_rotations, jf.previous_quadrant = -2, 4
        jf.reset()
        k.prove(f"reset after assembly restores the state of the first assembly [axis={axis}]", jf.n_full_rotations == 0 and jf.previous_quadrant == 1)
    k.prove_le("Inv(0) holds for the reset state", 0, 0)


def _frames(axis):
    def c(k):
        """x = e_a2.e_a1 = cos phi, y = e_a2.e_b1 = sin phi for A_IJ2 = A_IJ1 Rot_axis(phi), any A_IJ1 = R(P)."""
        k.covers(Revolute.l)
        P = k.reals("P", 4)
        k.assume(P @ P > 0)
        cphi = k.real("c", sample=lambda g: 0.6)
        sphi = k.real("s", sample=lambda g: 0.8)
        if k.sym:
            k.assume(cphi * cphi + sphi * sphi == 1)
        J1 = rot.Exp_SO3_quat(P)
        J2 = J1 @ _rot_axis(axis, cphi, sphi, k.sym)
        a, b = np.roll([0, 1, 2], -axis)[1:]
        k.prove_eq("x = cos phi", J2[:, a] @ J1[:, a], cphi)
        k.prove_eq("y = sin phi", J2[:, a] @ J1[:, b], sphi)
        k.prove_eq("axes stay aligned", J2[:, axis], J1[:, axis])

    return c


for _ax in (0, 1, 2):
    contract("C25", f"Revolute/frames[axis={_ax}]", samples=2)(_frames(_ax))


def _rate(axis):
    def c(k):
        """On the joint manifold l_dot equals the time derivative of l and the relative angular
        velocity about the joint axis (quadrant 1 branch shown; the other branches differ by constants)."""
        if not k.sym:
            raise K.Reject("symbolic only")
        k.covers(Revolute.l, Revolute.l_dot)
        j = _joint(axis, S.var("angle0"))
        j.n_full_rotations, j.previous_quadrant = 0, 1
        A1 = S.symarray("A1", (3, 3))
        A2 = S.symarray("A2", (3, 3))
        O1 = S.symarray("Om1", 3)
        O2 = S.symarray("Om2", 3)
        j.A_IJ1 = lambda t, q: A1
        j.A_IJ2 = lambda t, q: A2
        j.Omega1 = lambda t, q, u: O1
        j.Omega2 = lambda t, q, u: O2
        a, b = j.plane_axes
        x = A2[:, a] @ A1[:, a]
        y = A2[:, a] @ A1[:, b]
        k.assume(x > 0)
        k.assume(y >= 0)
        l = j.l(0.0, None)

        def skew(w):
            return np.array([[0, -w[2], w[1]], [w[2], 0, -w[0]], [-w[1], w[0], 0]], dtype=object)

        tang = {}
        for A, O in ((A1, O1), (A2, O2)):
            Ad = skew(O) @ A
            for i in range(3):
                for jx in range(3):
                    tang[A[i, jx]] = Ad[i, jx]
        ldot_spec = S.jvp(S._coerce(l), tang)
        ldot_code = S._coerce(j.l_dot(0.0, None, None))
        # restrict to the manifold: A1 = R(P), A2 = A1 Rot_axis(c, s)
        P = S.symarray("P", 4)
        cc, ss = S.var("c"), S.var("s")
        k.assume(P @ P > 0)
        k.assume(cc * cc + ss * ss == 1)
        k.assume(cc > 0)
        k.assume(ss >= 0)
        J1 = rot.Exp_SO3_quat(P)
        J2 = J1 @ _rot_axis(axis, cc, ss, True)
        mp = {}
        for i in range(3):
            for jx in range(3):
                mp[A1[i, jx]] = J1[i, jx]
                mp[A2[i, jx]] = S._coerce(J2[i, jx])
        spec_m = S.substitute(ldot_spec, mp)
        code_m = S.substitute(ldot_code, mp)
        k.prove_eq("l_dot = D_t l on the joint manifold", code_m, spec_m)
        k.prove_eq("l_dot = relative angular velocity about the joint axis", code_m, (O2 - O1) @ J1[:, axis])

    return c


contract("C25", "Revolute/l_dot-on-manifold[axis=2]", samples=0, replayable=False, timeout=180)(_rate(2))
contract("C25", "Revolute/l_dot-on-manifold[axis=0]", tiers=("thorough",), samples=0, replayable=False, timeout=180)(_rate(0))
contract("C25", "Revolute/l_dot-on-manifold[axis=1]", tiers=("thorough",), samples=0, replayable=False, timeout=180)(_rate(1))


@bounded("C25", "random-histories")
def b_hist(tier, seed):
    """random rotation histories through the real Revolute between two real rigid bodies (bounded)."""
    from cardillo.discrete.rigid_body import RigidBody

    rng = np.random.default_rng(seed + 21)
    cases, failures = 0, []
    for trial in range(6 if tier == "quick" else 60):
        axis = int(rng.integers(0, 3))
        angle0 = float(rng.uniform(-3, 3))
        P0 = rng.normal(size=4)
        P0 /= np.linalg.norm(P0)
        r0 = rng.normal(size=3)
        b1 = RigidBody(1.0, np.eye(3))
        b2 = RigidBody(1.0, np.eye(3))
        q0 = np.concatenate([r0, P0])
        for i, b in enumerate((b1, b2)):
            b.q0 = q0.copy()
            b.u0 = np.zeros(6)
            b.t0 = 0.0
            b.qDOF = np.arange(7) + 7 * i
            b.uDOF = np.arange(6) + 6 * i
        j = Revolute(b1, b2, axis=axis, angle0=angle0)
        j.assembler_callback()
        A0 = rot.Exp_SO3_quat(P0)
        theta = 0.0
        for step in range(40 if tier == "quick" else 300):
            theta += rng.uniform(-np.pi / 2, np.pi / 2) * 0.98
            R = A0 @ rot.Exp_SO3(theta * np.eye(3)[axis])
            q = np.concatenate([q0, r0, rot.Spurrier(R)])
            val = j.l(0.0, q)
            cases += 1
            if not abs(val - (angle0 + theta)) <= 1e-8 * (1 + abs(theta)):
                failures.append({"what": "tracked angle differs from accumulated rotation", "input": {"axis": axis, "angle0": angle0, "theta": theta, "step": step}, "detail": f"l = {val}, expected {angle0 + theta}"})
                break
    return {"cases": cases, "distinct": cases, "failures": failures[:3], "bound": "random histories of increments in (-pi/2, pi/2), all axes, random orientations"}


@contract("C25", "Revolute/the post-processing aliases angle, angle_dot are l, l_dot of the SAME joint - also after deepcopy", samples=0, replayable=False, timeout=30)
def c_aliases(k):
    """`angle` / `angle_dot` are the documented way to read the joint angle in post-processing.  The tracking state lives on
    the joint object, so the alias must be bound to the object it is read from: on a joint of a deep-copied system (the
    restart workflow, System.deepcopy) it reads and updates the COPY's full-turn counter, not the original's.  Executed
    natively: original driven through two and a half turns, copy reset and driven through a quarter turn."""
    from vk import npshim

    if not k.sym:
        raise K.Reject("decided by native execution")
    import warnings

    from cardillo import System
    from cardillo.discrete import RigidBody

    k.covers(Revolute.__init__, Revolute.l, Revolute.reset)
    with npshim.active(False), warnings.catch_warnings():
        warnings.simplefilter("ignore")
        for axis in (0, 1, 2):
            s = System()
            rb = RigidBody(1.0, np.eye(3), q0=np.array([0, 0, 0, 1, 0, 0, 0.0]))
            j = Revolute(s.origin, rb, axis=axis, angle0=0.3, name="hinge")
            s.add(rb, j)
            s.assemble()
            e = np.eye(3)[axis]

            def q_at(theta):
                return np.concatenate([np.zeros(3), [np.cos(theta / 2), *(np.sin(theta / 2) * e)]])

            thetas = np.arange(1, 51) * (2.5 * 2 * np.pi / 50)  # 2.5 turns in steps of 18 degrees
            for th in thetas:
                a = j.angle(0.0, q_at(th)[j.qDOF] if len(j.qDOF) == 7 else q_at(th))
            k.prove(f"axis {axis}: alias on the original joint follows the accumulated angle", bool(abs(a - (0.3 + thetas[-1])) <= 1e-9), show=f"{a} vs {0.3 + thetas[-1]}")
            state_orig = (j.n_full_rotations, j.previous_quadrant)
            c = s.deepcopy()
            jc = c.contributions_map["hinge"]
            k.prove(f"axis {axis}: the copy has a joint object of its own", jc is not j)
            jc.reset()
            small = np.arange(1, 6) * (0.5 * np.pi / 5)  # a quarter turn on the copy
            for th in small:
                ac = jc.angle(0.0, q_at(th))
                lc = jc.l(0.0, q_at(th))
                k.prove(f"axis {axis}: on the copy angle(t, q) = l(t, q) at theta = {th:.3f}", bool(abs(ac - lc) <= 1e-12), show=f"angle {ac}, l {lc}")
            k.prove(f"axis {axis}: the copy's alias reports the copy's angle (0.3 + a quarter turn)", bool(abs(ac - (0.3 + small[-1])) <= 1e-9), show=f"{ac} vs {0.3 + small[-1]}")
            k.prove(f"axis {axis}: reading the copy's angle leaves the original's tracking state alone", (j.n_full_rotations, j.previous_quadrant) == state_orig, show=f"{(j.n_full_rotations, j.previous_quadrant)} vs {state_orig}")
            u = np.array([0, 0, 0, *(1.7 * e)])
            k.prove(f"axis {axis}: angle_dot = l_dot on the copy", bool(abs(jc.angle_dot(0.0, q_at(0.4), u) - jc.l_dot(0.0, q_at(0.4), u)) <= 1e-12))
