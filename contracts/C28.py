"""C28 - URDF import builds systems consistent with the described robot.

The REAL `system_from_urdf` is executed (symbolically and, for the cross-check / replay, natively) on a URDF
object tree handed to it in place of the result of the external XML parser (`URDF.from_xml_file` is the only
name rebound; urdf_parser_py and the XML file are outside the contract and trusted).  The tree is one parent
link and one child link connected by a joint of every supported type; the parent's reference frame has an
ARBITRARY pose and twist (they are parameters of the importer), so one run is the induction step of the tree
recursion: processing a joint reads nothing of its parent but (name, r_OR, A_IR, v_R, R_omega_IR) and writes
exactly these for the child (frame obligation, checked on the real source), hence what is proved for
root -> child holds for every edge of every tree.  Two-level trees and branching are exercised natively by
the bounded stand-in.

Specification (written here, independent of the importer's formulas):

    T_child = T_parent o T_origin(xyz, rpy) o T_motion(q),   R(rpy) = Rz(yaw) Ry(pitch) Rx(roll)   (URDF)
    revolute/continuous: rotation by q about n = axis/|axis| (Rodrigues);  prismatic: translation q n;
    planar: translation (x, y, 0) in the joint frame (the importer's documented convention: plane normal = z
    of the joint frame);  floating: (xyz, rpy) or (xyz, quaternion);  fixed: identity
    body pose = T_child o T_inertial_origin;   u0 = (d/dt r_OC, body-fixed angular velocity of A_IB) where
    d/dt is taken along the motion in which the parent moves with its twist and q with the requested rate

Obligations: q0, u0 of the child body equal the specification (`FK/...` contracts, parent orientation a
generic matrix: the identities do not need it to be a rotation); every matrix handed to `pose2q` is a
rotation; the joint the importer creates is satisfied on position and velocity level by (q0, u0) of the
assembled system and a revolute joint reports the requested angle and rate (`joint/...` contracts, real
joint classes executed on the real bodies; parent orientation R(alpha, beta, gamma)).

`RigidBody.pose2q` = Spurrier and `Exp_SO3_quat` form a callee pair with the contract proved in C02
(Exp_SO3_quat(Spurrier(A)) = A for every rotation A): in symbolic mode the pair is replaced by that contract
(the quaternion is four fresh atoms whose rotation matrix is A); native runs use the real pair.
`consistent_initial_conditions` (C16) is replaced by its contract "returns q0, u0 unchanged or raises".
"""

import contextlib
import inspect
import io
import math
import warnings

import numpy as np

import cardillo.discrete.rigid_body as rbmod
import cardillo.system as sysmod
import cardillo.urdf.system_from_urdf  # noqa: F401  (the package re-exports the function under the module's name)
from contracts.sysstub import patched
from vk import kit as K
from vk import npshim
from vk import sym as S
from vk.registry import bounded, contract, static

import sys as _sys

U = _sys.modules["cardillo.urdf.system_from_urdf"]

LEVEL = "proof"
TRUSTED = [
    "urdf_parser_py and the XML file are external: the importer is run on the parsed object tree (link_map, joint_map, child_map, get_root, origin.position/rotation, axis, inertial) that URDF.from_xml_file would return",
    "callee contract of the pair RigidBody.pose2q (Spurrier) / Exp_SO3_quat: Exp_SO3_quat(Spurrier(A)) = A for rotations A (proved in C02); the argument is proved to be a rotation here",
    "consistent_initial_conditions is replaced by its contract (C16): returns the assembled q0, u0 unchanged (or raises)",
    "induction over the tree: one edge with an arbitrary parent frame + frame obligation on the importer's source; deeper trees and branching by the bounded stand-in only",
    "planar joints: the importer's documented convention (translation in the x-y plane of the joint frame, <axis> ignored) is taken as the specification; URDF's 'plane perpendicular to <axis>' differs from it for axes other than z - see DESIGN.md",
    "builtin float() on the requested joint coordinates is the identity on reals",
]
EXPLANATION = "symbolic native execution of the real system_from_urdf on a stub URDF tree (one edge, arbitrary parent frame and twist, every joint type); child pose/twist compared with an independently written forward-kinematics specification (product rule for the twist); real joint classes evaluated at the assembled initial state; bounded generated URDF files through the real XML parser"

JOINT_TYPES = ("fixed", "revolute", "continuous", "prismatic", "planar", "floating6", "floating7", "floating-default")


# --------------------------------------------------------------------------- stub URDF tree
class _Pose:
    def __init__(self, xyz, rpy):
        self.position = self.xyz = list(xyz)
        self.rotation = self.rpy = list(rpy)


class _Inertia:
    def __init__(self, v):
        self.ixx, self.ixy, self.ixz, self.iyy, self.iyz, self.izz = v


class _Inertial:
    def __init__(self, origin, mass, inertia):
        self.origin, self.mass, self.inertia = origin, mass, _Inertia(inertia)


class _Link:
    """URDF link; records which attributes the importer reads and writes (frame obligations)"""

    def __init__(self, name, inertial):
        object.__setattr__(self, "reads", set())
        object.__setattr__(self, "writes", set())
        object.__setattr__(self, "name", name)
        object.__setattr__(self, "inertial", inertial)
        object.__setattr__(self, "visual", None)

    def __getattribute__(self, a):
        if not a.startswith("__") and a not in ("reads", "writes"):
            object.__getattribute__(self, "reads").add(a)
        return object.__getattribute__(self, a)

    def __setattr__(self, a, v):
        object.__getattribute__(self, "writes").add(a)
        object.__setattr__(self, a, v)


class _Joint:
    def __init__(self, name, jtype, parent, child, origin, axis):
        self.name, self.type, self.parent, self.child, self.origin, self.axis = name, jtype, parent, child, origin, axis


class _Tree:
    def __init__(self, links, joints):
        self.link_map = {l.name: l for l in links}
        self.joint_map = {j.name: j for j in joints}
        self.child_map = {}
        for j in joints:
            self.child_map.setdefault(j.parent, []).append((j.name, j.child))
        children = {j.child for j in joints}
        self._root = next(l.name for l in links if l.name not in children)

    def get_root(self):
        return self._root


# --------------------------------------------------------------------------- specification side
def _sc(k, x):
    return (S.sin(x), S.cos(x)) if k.sym else (math.sin(x), math.cos(x))


def _R_rpy(k, rpy):
    (sr, cr), (sp, cp), (sy, cy) = _sc(k, rpy[0]), _sc(k, rpy[1]), _sc(k, rpy[2])
    Rx = np.array([[1, 0, 0], [0, cr, -sr], [0, sr, cr]], dtype=object if k.sym else float)
    Ry = np.array([[cp, 0, sp], [0, 1, 0], [-sp, 0, cp]], dtype=object if k.sym else float)
    Rz = np.array([[cy, -sy, 0], [sy, cy, 0], [0, 0, 1]], dtype=object if k.sym else float)
    return Rz @ Ry @ Rx


def _skew(w):
    return np.array([[0, -w[2], w[1]], [w[2], 0, -w[0]], [-w[1], w[0], 0]], dtype=np.asarray(w).dtype)


def _unit(k, a):
    n2 = a @ a
    n = S.sqrt(n2) if k.sym else math.sqrt(n2)
    return a / n


def _rodrigues(k, n, th):
    s, c = _sc(k, th)
    N = _skew(n)
    return np.eye(3, dtype=object if k.sym else float) + s * N + (1 - c) * (N @ N)


def _R_quat(k, P):
    P = P / (S.sqrt(P @ P) if k.sym else math.sqrt(P @ P))
    p0, p = P[0], P[1:]
    N = _skew(p)
    return np.eye(3, dtype=object if k.sym else float) + 2 * (N @ N + p0 * N)


class _D:
    """a quantity together with its rate along the specified motion (product rule)"""

    def __init__(self, v, d=None):
        self.v = v
        self.d = np.zeros_like(v) if d is None else d

    def __matmul__(self, o):
        return _D(self.v @ o.v, self.d @ o.v + self.v @ o.d)

    def __add__(self, o):
        return _D(self.v + o.v, self.d + o.d)


def _spec(k, jt, par, joint, cfg, vel, inertial_child):
    """forward kinematics of the child body and its rate.  par = dict(r, A, v, om) of the parent reference frame."""
    r_p = _D(par["r"], par["v"])
    A_p = _D(par["A"], par["A"] @ _skew(par["om"]))
    r_J = _D(np.asarray(joint["xyz"]))
    A_J = _D(_R_rpy(k, joint["rpy"]))
    I3 = np.eye(3, dtype=object if k.sym else float)
    z3 = np.zeros(3, dtype=object if k.sym else float)
    if jt in ("fixed", "floating-default"):
        r_c, A_c = _D(z3), _D(I3)
    elif jt in ("revolute", "continuous"):
        n = _unit(k, np.asarray(joint["axis"]))
        A = _rodrigues(k, n, cfg)
        dA = k.jvp(lambda th: _rodrigues(k, n, th), [cfg], [vel])
        r_c, A_c = _D(z3), _D(A, dA)
    elif jt == "prismatic":
        n = _unit(k, np.asarray(joint["axis"]))
        r_c, A_c = _D(cfg * n, vel * n), _D(I3)
    elif jt == "planar":
        r_c = _D(np.array([cfg[0], cfg[1], 0 * cfg[0]]), np.array([vel[0], vel[1], 0 * vel[0]]))
        A_c = _D(I3)
    elif jt == "floating6":
        A = _R_rpy(k, cfg[3:6])
        r_c, A_c = _D(cfg[:3], vel[:3]), _D(A, _skew(vel[3:6]) @ A)
    elif jt == "floating7":
        A = _R_quat(k, cfg[3:7])
        r_c, A_c = _D(cfg[:3], vel[:3]), _D(A, _skew(vel[3:6]) @ A)
    else:
        raise ValueError(jt)
    r_R = r_p + A_p @ (r_J + A_J @ r_c)
    A_R = A_p @ A_J @ A_c
    r_C = r_R + A_R @ _D(np.asarray(inertial_child["xyz"]))
    A_B = A_R @ _D(_R_rpy(k, inertial_child["rpy"]))
    return r_C, A_B, A_R, r_R


# --------------------------------------------------------------------------- running the real importer
class _QuatPair:
    """contract of the callee pair Spurrier / Exp_SO3_quat (symbolic mode)"""

    def __init__(self):
        self.table = {}
        self.args = []
        self.real_exp = rbmod.Exp_SO3_quat

    def spurrier(self, A):
        A = np.asarray(A, dtype=object)
        p = S.symarray(f"quat{len(self.args)}_", 4)
        self.table[tuple(S._coerce(e).uid for e in p)] = A.copy()
        self.args.append(A.copy())
        return p

    def exp(self, P, normalize=True):
        key = tuple(S._coerce(e).uid for e in np.asarray(P, dtype=object))
        if key in self.table:
            return self.table[key].copy()
        return self.real_exp(P, normalize=normalize)


def _cic_stub(system, *a, **kw):
    """contract of consistent_initial_conditions (C16) as far as the initial state goes"""
    z = lambda n: np.zeros(n)
    return (system.t0, system.q0, system.u0, None, z(system.nu), z(system.nla_g), z(system.nla_gamma), z(system.nla_c), z(system.nla_N), z(system.nla_F))


def _inputs(k, jt, generic_parent):
    sm = lambda g: g.uniform(-1, 1, 3)
    par = {"r": k.reals("r_OR", 3, sample=lambda g: g.uniform(-2, 2, 3))}
    if generic_parent and k.sym:
        par["A"] = k.reals("A_IR", (3, 3))
    else:
        ang = k.reals("ang_IR", 3, sample=lambda g: g.uniform(-3, 3, 3))
        par["A"] = _R_rpy(k, ang)
    par["v"] = k.reals("v_R", 3, sample=sm)
    par["om"] = k.reals("om_R", 3, sample=sm)
    joint = {"xyz": k.reals("j_xyz", 3, sample=sm), "rpy": k.reals("j_rpy", 3, sample=lambda g: g.uniform(-3, 3, 3))}
    joint["axis"] = k.reals("j_axis", 3, sample=lambda g: g.uniform(-2, 2, 3))
    k.assume(joint["axis"] @ joint["axis"] > 0)
    inertial = [{"xyz": k.reals(f"i{i}_xyz", 3, sample=sm), "rpy": k.reals(f"i{i}_rpy", 3, sample=lambda g: g.uniform(-3, 3, 3))} for i in range(2)]
    if jt in ("revolute", "continuous", "prismatic"):
        cfg, vel = k.real("q_j", sample=lambda g: g.uniform(-3, 3)), k.real("qd_j", sample=lambda g: g.uniform(-2, 2))
    elif jt == "planar":
        cfg, vel = k.reals("q_j", 2, sample=lambda g: g.uniform(-1, 1, 2)), k.reals("qd_j", 2, sample=lambda g: g.uniform(-1, 1, 2))
    elif jt == "floating6":
        cfg, vel = k.reals("q_j", 6, sample=lambda g: g.uniform(-2, 2, 6)), k.reals("qd_j", 6, sample=lambda g: g.uniform(-1, 1, 6))
    elif jt == "floating7":
        cfg, vel = k.reals("q_j", 7, sample=lambda g: g.uniform(-2, 2, 7)), k.reals("qd_j", 6, sample=lambda g: g.uniform(-1, 1, 6))
        k.assume(cfg[3:] @ cfg[3:] > 0)
    else:
        cfg, vel = None, None
    return par, joint, inertial, cfg, vel


def _import(k, jt, par, joint, inertial, cfg, vel, floating_root):
    """run the real importer on the one-edge tree"""
    base = _Link("base", _Inertial(_Pose(inertial[0]["xyz"], inertial[0]["rpy"]), 1.5, (0.3, 0.01, 0.02, 0.4, 0.03, 0.5)))
    child = _Link("link1", _Inertial(_Pose(inertial[1]["xyz"], inertial[1]["rpy"]), 2.5, (0.2, 0.0, 0.01, 0.3, 0.02, 0.25)))
    utype = {"floating6": "floating", "floating7": "floating", "floating-default": "floating"}.get(jt, jt)
    j = _Joint("joint1", utype, "base", "link1", _Pose(joint["xyz"], joint["rpy"]), list(joint["axis"]))
    tree = _Tree([base, child], [j])

    class _U:
        @staticmethod
        def from_xml_file(path):
            return tree

    # requests for joints with several coordinates are handed over as numpy arrays (what a caller who keeps its state in arrays
    # does): joint_kinematics may return views of them, so the importer must not update what it got in place
    as_req = lambda v: np.array(list(v), dtype=object if k.sym else float) if np.ndim(v) == 1 else v  # noqa: E731
    configuration = {} if cfg is None else {"joint1": as_req(cfg)}
    velocities = {} if vel is None else {"joint1": as_req(vel)}
    requested = {n: (np.array(d["joint1"], copy=True) if "joint1" in d and np.ndim(d["joint1"]) == 1 else None) for n, d in (("configuration", configuration), ("velocities", velocities))}
    pair = _QuatPair()
    names_u = dict(URDF=_U, print=lambda *a, **kw: None)
    ctx = [patched(U, **names_u), patched(sysmod, consistent_initial_conditions=_cic_stub)]
    if k.sym:
        names_u["float"] = lambda v: v if isinstance(v, S.Sym) else float(v)
        ctx = [patched(U, **names_u), patched(sysmod, consistent_initial_conditions=_cic_stub), patched(rbmod, Spurrier=pair.spurrier, Exp_SO3_quat=pair.exp)]
    with contextlib.ExitStack() as st, warnings.catch_warnings():
        warnings.simplefilter("ignore")
        for c in ctx:
            st.enter_context(c)
        system = U.system_from_urdf(
            "robot.urdf",
            r_OR=par["r"],
            A_IR=par["A"],
            v_R=par["v"] if floating_root else np.zeros(3),
            R_omega_IR=par["om"] if floating_root else np.zeros(3),
            configuration=configuration,
            velocities=velocities,
            root_is_floating=floating_root,
        )
    for n, d in (("configuration", configuration), ("velocities", velocities)):
        if requested[n] is not None:
            k.prove_eq(f"frame: the importer leaves the requested {n} of the joint as it got them", d["joint1"], requested[n])
    return system, pair, tree


@contextlib.contextmanager
def _pair_active(k, pair):
    """keep the callee-pair contract in force while the assembled system is queried"""
    if k.sym:
        with patched(rbmod, Spurrier=pair.spurrier, Exp_SO3_quat=pair.exp):
            yield
    else:
        yield


def _is_rotation(k, label, A):
    A = np.asarray(A)
    k.prove_eq(label + ": A^T A = I", A.T @ A, np.eye(3))
    det = A[0] @ np.cross(A[1], A[2]) if not k.sym else (A[0, 0] * (A[1, 1] * A[2, 2] - A[1, 2] * A[2, 1]) - A[0, 1] * (A[1, 0] * A[2, 2] - A[1, 2] * A[2, 0]) + A[0, 2] * (A[1, 0] * A[2, 1] - A[1, 1] * A[2, 0]))
    k.prove_eq(label + ": det A = 1", det, 1)


@contract("C28", "rotations/rpy_to_A, axis_angle_to_A and q2pose return rotations", samples=2, timeout=120)
def c_rotations(k):
    """precondition of the pose2q / Exp_SO3_quat callee pair: every factor of the matrices handed to pose2q is a rotation"""
    k.covers(U.rpy_to_A, U.axis_angle_to_A, rbmod.RigidBody.q2pose)
    rpy = k.reals("rpy", 3, sample=lambda g: g.uniform(-3, 3, 3))
    A = U.rpy_to_A(rpy)
    with k.spec():
        _is_rotation(k, "rpy_to_A(rpy)", A)
        k.prove_eq("rpy_to_A = Rz(yaw) Ry(pitch) Rx(roll) (URDF convention)", A, _R_rpy(k, rpy))
    ax = k.reals("axis", 3, sample=lambda g: g.uniform(-2, 2, 3))
    k.assume(ax @ ax > 0)
    th = k.real("theta", sample=lambda g: g.uniform(-3, 3))
    B = U.axis_angle_to_A(np.array(ax), th)
    with k.spec():
        _is_rotation(k, "axis_angle_to_A(axis, angle)", B)
        k.prove_eq("axis_angle_to_A = Rodrigues rotation about the normalised axis", B, _rodrigues(k, _unit(k, ax), th))
    q = k.reals("q", 7, sample=lambda g: g.uniform(-2, 2, 7))
    k.assume(q[3:] @ q[3:] > 0)
    r, C = rbmod.RigidBody.q2pose(q)
    with k.spec():
        k.prove_eq("q2pose: position", r, q[:3])
        _is_rotation(k, "q2pose(q) orientation", C)
        k.prove_eq("q2pose: orientation = rotation of the normalised quaternion", C, _R_quat(k, q[3:]))


def _stub_parent(k):
    class P:
        name = "base"

    P.r_OR = k.reals("r_OR", 3, sample=lambda g: g.uniform(-2, 2, 3))
    P.A_IR = k.reals("A_IR", (3, 3), sample=lambda g: g.uniform(-1, 1, (3, 3)))  # a generic matrix: the identities below are linear in it
    return P


def _jk(jt):
    """contract of joint_kinematics: relative motion of the child reference frame in the joint frame, and the
    constructor arguments of the joint"""

    def c(k):
        k.covers(U.joint_kinematics)
        par, joint, inertial, cfg, vel = _inputs(k, jt, generic_parent=True)
        P = _stub_parent(k)
        utype = {"floating6": "floating", "floating7": "floating", "floating-default": "floating"}.get(jt, jt)
        j = _Joint("joint1", utype, "base", "link1", _Pose(joint["xyz"], joint["rpy"]), list(joint["axis"]))
        names = dict(print=lambda *a, **kw: None)
        if k.sym:
            names["float"] = lambda v: v if isinstance(v, S.Sym) else float(v)
        with patched(U, **names):
            JT, kw, J_r, A_c, J_v, J_om = U.joint_kinematics(P, j, {} if cfg is None else {"joint1": cfg}, {} if vel is None else {"joint1": vel})
        with k.spec():
            I3 = np.eye(3)
            A_J = _R_rpy(k, joint["rpy"])
            want = {"fixed": "RigidConnection", "revolute": "Revolute", "continuous": "Revolute", "prismatic": "Prismatic", "planar": "Planarizer"}.get(jt)
            k.prove("joint class", (JT.__name__ if JT is not None else None) == want)
            k.prove("the joint carries the URDF joint name", kw.get("name") == "joint1")
            if jt in ("revolute", "continuous", "prismatic"):
                n = _unit(k, np.asarray(joint["axis"]))
            if jt in ("fixed", "floating-default"):
                k.prove_eq("relative position", J_r, np.zeros(3)); k.prove_eq("relative orientation", A_c, I3)
                k.prove_eq("relative velocity", J_v, np.zeros(3)); k.prove_eq("relative angular velocity", J_om, np.zeros(3))
            elif jt in ("revolute", "continuous"):
                A = _rodrigues(k, n, cfg)
                k.prove_eq("relative position", J_r, np.zeros(3))
                k.prove_eq("relative orientation = rotation by the requested angle about the normalised axis", A_c, A)
                k.prove_eq("relative velocity", J_v, np.zeros(3))
                k.prove_eq("relative angular velocity = requested rate times the normalised axis", J_om, vel * n)
                dA = k.jvp(lambda th: _rodrigues(k, n, th), [cfg], [vel])
                k.prove_eq("skew(relative angular velocity) A_c = d/dt A_c along the requested rate", _skew(vel * n) @ A, dA)
                k.prove_eq("the joint is told the requested angle", kw["angle0"], cfg)
            elif jt == "prismatic":
                k.prove_eq("relative position = requested displacement along the normalised axis", J_r, cfg * n)
                k.prove_eq("relative orientation", A_c, I3)
                k.prove_eq("relative velocity = requested rate along the normalised axis", J_v, vel * n)
                k.prove_eq("relative angular velocity", J_om, np.zeros(3))
            elif jt == "planar":
                k.prove_eq("relative position = (x, y, 0) in the joint frame", J_r, np.array([cfg[0], cfg[1], 0 * cfg[0]]))
                k.prove_eq("relative orientation", A_c, I3)
                k.prove_eq("relative velocity", J_v, np.array([vel[0], vel[1], 0 * vel[0]]))
                k.prove_eq("relative angular velocity", J_om, np.zeros(3))
            elif jt == "floating6":
                k.prove_eq("relative position", J_r, cfg[:3]); k.prove_eq("relative orientation = R(rpy)", A_c, _R_rpy(k, cfg[3:6]))
                k.prove_eq("relative velocity", J_v, vel[:3]); k.prove_eq("relative angular velocity", J_om, vel[3:6])
            elif jt == "floating7":
                k.prove_eq("relative position", J_r, cfg[:3]); k.prove_eq("relative orientation = rotation of the normalised quaternion", A_c, _R_quat(k, cfg[3:7]))
                k.prove_eq("relative velocity", J_v, vel[:3]); k.prove_eq("relative angular velocity", J_om, vel[3:6])
            # where the joint is defined
            if want is not None and jt != "fixed":
                k.prove_eq("joint origin handed to the joint = origin of the joint frame", kw["r_OJ0"], P.r_OR + P.A_IR @ np.asarray(joint["xyz"]))
                if jt == "planar":
                    k.prove("planar: the free plane is the x-y plane of the joint frame", kw["axis"] == 2)
                    k.prove_eq("planar: joint basis = joint frame", kw["A_IJ0"], P.A_IR @ A_J)
                else:
                    k.prove("the joint axis is the first axis of the basis handed to the joint", kw["axis"] == 0)
                    # kw["A_IJ0"] = A_IR A_J E with E a rotation whose first column is the normalised axis: since A_IR is a
                    # generic (invertible for almost every value) matrix here, E is recovered from a second run with A_IR = A_J = 1
                    class Q:
                        name = "base"
                        r_OR = np.zeros(3)
                        A_IR = np.eye(3)

                    j0 = _Joint("joint1", utype, "base", "link1", _Pose([0.0, 0.0, 0.0], [0.0, 0.0, 0.0]), list(joint["axis"]))
                    with patched(U, **names):
                        _, kw0, *_ = U.joint_kinematics(Q, j0, {}, {})
                    E = np.asarray(kw0["A_IJ0"])
                    k.prove_eq("joint basis handed to the joint = A_IR A_J E", kw["A_IJ0"], P.A_IR @ A_J @ E)
                    k.prove_eq("E: first column is the normalised axis", E[:, 0], n)
                    _is_rotation(k, "E", E)

    return c


for _jt in JOINT_TYPES:
    contract("C28", f"joint_kinematics/{_jt}", samples=2, timeout=120, max_paths=40)(_jk(_jt))


# --------------------------------------------------------------------------- the recursion step of system_from_urdf
FORMS = {
    "identity": "A_JRc = 1, no relative spin (contract of joint_kinematics for fixed, prismatic, planar and unconfigured floating joints; J_r_JRc, J_v_JRc arbitrary)",
    "rodrigues": "A_JRc = rotation by theta about a unit vector e, relative spin theta_dot e (revolute, continuous); J_r_JRc, J_v_JRc arbitrary",
    "rpy": "A_JRc = R(rpy), relative spin arbitrary (floating joint configured by xyz + rpy)",
    "quat": "A_JRc = rotation of a unit quaternion, relative spin arbitrary (floating joint configured by xyz + quaternion)",
}


def _jk_stub(k, form):
    """what joint_kinematics returns according to its contract (joint_kinematics/* above), in abstract form"""
    J_r = k.reals("J_r", 3, sample=lambda g: g.uniform(-1, 1, 3))
    J_v = k.reals("J_v", 3, sample=lambda g: g.uniform(-1, 1, 3))
    I3 = np.eye(3, dtype=object if k.sym else float)
    if form == "identity":
        A_c, J_om = I3, np.zeros(3, dtype=object if k.sym else float) + 0 * J_r
    elif form == "rodrigues":
        e = k.reals("e_axis", 3, sample=lambda g: (lambda v: v / np.linalg.norm(v))(g.normal(size=3)))
        k.assume(k.eq(e @ e, 1.0))
        th, thd = k.real("theta", sample=lambda g: g.uniform(-3, 3)), k.real("theta_dot", sample=lambda g: g.uniform(-2, 2))
        A_c, J_om = _rodrigues(k, e, th), thd * e
    elif form == "rpy":
        A_c = _R_rpy(k, k.reals("c_rpy", 3, sample=lambda g: g.uniform(-3, 3, 3)))
        J_om = k.reals("J_om", 3, sample=lambda g: g.uniform(-1, 1, 3))
    else:
        p = k.reals("c_quat", 4, sample=lambda g: (lambda v: v / np.linalg.norm(v))(g.normal(size=4)))
        k.assume(k.eq(p @ p, 1.0))
        N = _skew(p[1:])
        A_c = I3 + 2 * (N @ N + p[0] * N)
        J_om = k.reals("J_om", 3, sample=lambda g: g.uniform(-1, 1, 3))
    return J_r, A_c, J_v, J_om


def _step(form, floating_root):
    def c(k):
        k.covers(U.system_from_urdf, U.pose_to_r_A, U.inertia_to_matrix)
        par, joint, inertial, _cfg, _vel = _inputs(k, "fixed", generic_parent=True)
        if not floating_root:
            par = dict(par, v=0 * par["v"], om=0 * par["om"])
        J_r, A_c, J_v, J_om = _jk_stub(k, form)
        seen = []

        def jk(parent, joint_, configuration, velocities):
            seen.append((parent.name, joint_.name))
            object.__getattribute__(parent, "reads").clear()  # from here on: reads made while this edge is processed
            return None, {"name": joint_.name}, J_r.copy(), np.array(A_c).copy(), J_v.copy(), J_om.copy()

        base = _Link("base", _Inertial(_Pose(inertial[0]["xyz"], inertial[0]["rpy"]), 1.5, (0.3, 0.01, 0.02, 0.4, 0.03, 0.5)))
        child = _Link("link1", _Inertial(_Pose(inertial[1]["xyz"], inertial[1]["rpy"]), 2.5, (0.2, 0.0, 0.01, 0.3, 0.02, 0.25)))
        j = _Joint("joint1", "floating", "base", "link1", _Pose(joint["xyz"], joint["rpy"]), [1.0, 0.0, 0.0])
        tree = _Tree([base, child], [j])

        class _U:
            @staticmethod
            def from_xml_file(path):
                return tree

        pair = _QuatPair()
        with contextlib.ExitStack() as st, warnings.catch_warnings():
            warnings.simplefilter("ignore")
            st.enter_context(patched(U, URDF=_U, print=lambda *a, **kw: None, joint_kinematics=jk))
            st.enter_context(patched(sysmod, consistent_initial_conditions=_cic_stub))
            if k.sym:
                st.enter_context(patched(rbmod, Spurrier=pair.spurrier, Exp_SO3_quat=pair.exp))
            system = U.system_from_urdf(
                "robot.urdf", r_OR=par["r"], A_IR=par["A"], v_R=par["v"] if floating_root else np.zeros(3), R_omega_IR=par["om"] if floating_root else np.zeros(3), root_is_floating=floating_root
            )
        with k.spec(), _pair_active(k, pair):
            k.prove("joint_kinematics is asked once, for this edge", seen == [("base", "joint1")])
            # frame: what an edge reads of its parent link / writes to its child link (so that the step composes along a tree)
            carried = {"r_OR", "A_IR", "v_R", "R_omega_IR"}
            pr = object.__getattribute__(base, "reads") - {"name"}
            k.prove(f"an edge reads nothing of its parent link but name and (r_OR, A_IR, v_R, R_omega_IR) [read: {sorted(pr)}]", pr <= carried)
            cw = object.__getattribute__(child, "writes")
            k.prove(f"an edge defines (r_OR, A_IR, v_R, R_omega_IR) of its child link [written: {sorted(cw)}]", carried <= cw)
            # specification: T_child = T_parent o T_origin o T_motion, rates by the product rule, d/dt A_c = skew(J_omega) A_c
            r_p, A_p = _D(par["r"], par["v"]), _D(par["A"], par["A"] @ _skew(par["om"]))
            r_J, A_J = _D(np.asarray(joint["xyz"])), _D(_R_rpy(k, joint["rpy"]))
            # (J_v, J_omega) is the twist of the child frame relative to the joint frame taken at the joint frame's origin
            # (the importer's convention, visible for floating joints only: d/dt J_r = J_v + J_omega x J_r)
            r_c, A_cD = _D(J_r, J_v + _skew(J_om) @ J_r), _D(np.array(A_c), _skew(J_om) @ np.array(A_c))
            r_R = r_p + A_p @ (r_J + A_J @ r_c)
            A_R = A_p @ A_J @ A_cD
            r_C = r_R + A_R @ _D(np.asarray(inertial[1]["xyz"]))
            A_B = A_R @ _D(_R_rpy(k, inertial[1]["rpy"]))
            ch = tree.link_map["link1"]
            k.prove_eq("child reference frame: position", ch.r_OR, r_R.v)
            k.prove_eq("child reference frame: orientation", ch.A_IR, A_R.v)
            k.prove_eq("child reference frame: velocity = d/dt position", ch.v_R, r_R.d)
            k.prove_eq("child reference frame: A skew(R_omega) = d/dt A", A_R.v @ _skew(ch.R_omega_IR), A_R.d)
            body = system.contributions_map["link1"]
            q0, u0 = system.q0[body.qDOF], system.u0[body.uDOF]
            k.prove_eq("child link: centre of mass at its forward-kinematics position", q0[:3], r_C.v)
            k.prove_eq("child link: orientation = forward-kinematics orientation", body.A_IB(system.t0, q0), A_B.v)
            # velocity of the centre of mass, as a chain:  v_C = v_R + A_R skew(R_omega) r_RC   (dataflow, next line)
            #   = d/dt r_R + (d/dt A_R) r_RC = d/dt (r_R + A_R r_RC)      (reference-frame obligations above, product rule)
            k.prove_eq("child link: v_C = v_R + A_IR (R_omega x R_r_RC) of the child reference frame", u0[:3], ch.v_R + ch.A_IR @ (_skew(ch.R_omega_IR) @ np.asarray(inertial[1]["xyz"])))
            # body-fixed angular velocity, as a chain (each link an obligation):
            #   A_IB skew(B_Omega) = A_R A_RB skew(A_RB^T R_omega)      (dataflow, next line)
            #                      = A_R skew(R_omega) A_RB             (lemma over ARBITRARY M, w: A_RB is a rotation)
            #                      = (d/dt A_R) A_RB = d/dt A_IB        (reference-frame obligation above; A_RB constant)
            A_RB = _R_rpy(k, inertial[1]["rpy"])
            k.prove_eq("child link: B_Omega = A_RB^T R_omega of the child reference frame", u0[3:], A_RB.T @ ch.R_omega_IR)
            M = k.reals("M_generic", (3, 3))
            w = k.reals("w_generic", 3)
            k.prove_eq("lemma (all M, w): M A_RB skew(A_RB^T w) = M skew(w) A_RB", M @ A_RB @ _skew(A_RB.T @ w), M @ _skew(w) @ A_RB)
            k.prove("mass and inertia are those of the URDF link", float(body.mass) == 2.5 and np.allclose(np.asarray(body.B_Theta_C, dtype=float), [[0.2, 0.0, 0.01], [0.0, 0.3, 0.02], [0.01, 0.02, 0.25]]))
            root = system.contributions_map["base"]
            A_Bp = par["A"] @ _R_rpy(k, inertial[0]["rpy"])
            r_Cp = par["r"] + par["A"] @ np.asarray(inertial[0]["xyz"])
            if floating_root:
                q0r, u0r = system.q0[root.qDOF], system.u0[root.uDOF]
                k.prove_eq("floating root: centre of mass", q0r[:3], r_Cp)
                k.prove_eq("floating root: orientation", root.A_IB(system.t0, q0r), A_Bp)
                k.prove_eq("floating root: velocity of the centre of mass", u0r[:3], par["v"] + par["A"] @ (_skew(par["om"]) @ np.asarray(inertial[0]["xyz"])))
                k.prove_eq("floating root: A skew(B_Omega) = d/dt A", A_Bp @ _skew(u0r[3:]), par["A"] @ _skew(par["om"]) @ _R_rpy(k, inertial[0]["rpy"]))
            else:
                k.prove_eq("fixed root frame: position", root.r_OP(system.t0), r_Cp)
                k.prove_eq("fixed root frame: orientation", root.A_IB(system.t0), A_Bp)

    return c


for _form in FORMS:
    for _fl in (True, False):
        contract("C28", f"recursion-step/{_form}[{'floating' if _fl else 'fixed'} root]", samples=2, timeout=180, max_paths=40)(_step(_form, _fl))


# --------------------------------------------------------------------------- wiring of the created joints (all real code)
def _wiring(jt):
    def c(k):
        if not k.sym:
            raise K.Reject("symbolic only (the native end-to-end runs are the bounded stand-in)")
        k.covers(U.system_from_urdf)
        par, joint, inertial, cfg, vel = _inputs(k, jt, generic_parent=False)
        system, pair, tree = _import(k, jt, par, joint, inertial, cfg, vel, True)
        with k.spec(), _pair_active(k, pair):
            P = tree.link_map["base"]
            utype = {"floating6": "floating", "floating7": "floating", "floating-default": "floating"}.get(jt, jt)
            names = dict(print=lambda *a, **kw: None, float=lambda v: v if isinstance(v, S.Sym) else float(v))
            with patched(U, **names):
                JT, kw, *_ = U.joint_kinematics(P, tree.joint_map["joint1"], {} if cfg is None else {"joint1": cfg}, {} if vel is None else {"joint1": vel})
            if JT is None:
                k.prove("floating joints create no constraint", "joint1" not in system.contributions_map)
                return
            jn = system.contributions_map.get("joint1")
            k.prove("the joint is part of the system under the URDF joint name, with the class joint_kinematics chose", jn is not None and type(jn) is JT)
            k.prove("it connects the parent link's body (subsystem1) with the child link's body (subsystem2)", jn.subsystem1 is system.contributions_map["base"] and jn.subsystem2 is system.contributions_map["link1"])
            if jt != "fixed":
                k.prove_eq("it is defined at the joint origin computed by joint_kinematics", jn.r_OJ0, kw["r_OJ0"])
                k.prove_eq("with the joint basis computed by joint_kinematics", jn.A_IJ0, kw["A_IJ0"])
            if jt in ("revolute", "continuous"):
                k.prove_eq("and the requested angle as angle0 (so that it reports it: C25)", jn.angle0, cfg)
                k.prove("free axis = first axis of the joint basis", jn.axis == 0)

    return c


for _jt in JOINT_TYPES:
    contract("C28", f"joint-wiring/{_jt}", samples=0, replayable=False, timeout=60, max_paths=40)(_wiring(_jt))


# --------------------------------------------------------------------------- bounded: generated URDF files, end to end
class _ConcKit:
    sym = False

    def jvp(self, fn, xs, ts, h=1e-6):
        return (np.asarray(fn(xs[0] + h * ts[0]), dtype=float) - np.asarray(fn(xs[0] - h * ts[0]), dtype=float)) / (2 * h)


def _gen_tree(rng, depth, branching):
    """random URDF tree as XML text + the data to recompute its forward kinematics"""
    types = ["fixed", "revolute", "continuous", "prismatic", "planar", "floating"]
    links, joints = ["L0"], []
    frontier = [("L0", 0)]
    while frontier:
        parent, d = frontier.pop(0)
        if d >= depth:
            continue
        for _ in range(rng.integers(1, branching + 1)):
            name = f"L{len(links)}"
            links.append(name)
            jt = types[rng.integers(0, len(types))]
            joints.append(dict(name=f"J{len(joints)}", type=jt, parent=parent, child=name, xyz=rng.uniform(-1, 1, 3), rpy=rng.uniform(-3, 3, 3), axis=rng.uniform(-2, 2, 3) if jt != "planar" else np.array([0.0, 0.0, 1.0])))
            frontier.append((name, d + 1))
    inertial = {l: dict(xyz=rng.uniform(-0.5, 0.5, 3), rpy=rng.uniform(-3, 3, 3), mass=rng.uniform(0.5, 3)) for l in links}
    f = lambda v: " ".join(repr(float(x)) for x in v)
    xml = ['<?xml version="1.0"?>', '<robot name="generated">']
    for l in links:
        I = inertial[l]
        xml.append(f'<link name="{l}"><inertial><origin xyz="{f(I["xyz"])}" rpy="{f(I["rpy"])}"/><mass value="{I["mass"]!r}"/><inertia ixx="0.3" ixy="0.01" ixz="0.02" iyy="0.4" iyz="0.03" izz="0.5"/></inertial></link>')
    for j in joints:
        xml.append(f'<joint name="{j["name"]}" type="{j["type"]}"><parent link="{j["parent"]}"/><child link="{j["child"]}"/><origin xyz="{f(j["xyz"])}" rpy="{f(j["rpy"])}"/><axis xyz="{f(j["axis"])}"/><limit lower="-10" upper="10" effort="1" velocity="1"/></joint>')
    xml.append("</robot>")
    return "\n".join(xml), links, joints, inertial


@bounded("C28", "native/generated-urdf-trees")
def b_trees(tier, seed):
    import os
    import tempfile

    from cardillo.constraints import Revolute

    rng = np.random.default_rng(seed + 280)
    ck = _ConcKit()
    cases, failures = 0, []
    ntrees = 6 if tier == "quick" else 40
    for it in range(ntrees):
        depth, branching = int(rng.integers(1, 4)), int(rng.integers(1, 3 if tier == "quick" else 4))
        xml, links, joints, inertial = _gen_tree(rng, depth, branching)
        floating = bool(rng.integers(0, 2))
        cfg, vel = {}, {}
        for j in joints:
            if rng.uniform() < 0.2:
                continue  # default configuration
            if j["type"] in ("revolute", "continuous", "prismatic"):
                cfg[j["name"]], vel[j["name"]] = float(rng.uniform(-3, 3)), float(rng.uniform(-2, 2))
            elif j["type"] == "planar":
                cfg[j["name"]], vel[j["name"]] = rng.uniform(-1, 1, 2), rng.uniform(-1, 1, 2)
            elif j["type"] == "floating":
                if rng.uniform() < 0.5:
                    cfg[j["name"]] = rng.uniform(-2, 2, 6)
                else:
                    cfg[j["name"]] = np.concatenate([rng.uniform(-2, 2, 3), rng.normal(size=4)])
                vel[j["name"]] = rng.uniform(-1, 1, 6)
        root = dict(r=rng.uniform(-2, 2, 3), A=_R_rpy(ck, rng.uniform(-3, 3, 3)), v=rng.uniform(-1, 1, 3) if floating else np.zeros(3), om=rng.uniform(-1, 1, 3) if floating else np.zeros(3))
        what = f"tree {it} (seed {seed}: {len(links)} links, depth {depth}, root {'floating' if floating else 'fixed'}, joints {[j['type'] for j in joints]})"
        with tempfile.TemporaryDirectory() as tmp:
            path = os.path.join(tmp, "robot.urdf")
            open(path, "w").write(xml)
            cases += 1
            try:
                with warnings.catch_warnings(), contextlib.redirect_stdout(io.StringIO()), contextlib.redirect_stderr(io.StringIO()):
                    warnings.simplefilter("ignore")
                    system = U.system_from_urdf(path, r_OR=root["r"], A_IR=root["A"], v_R=root["v"], R_omega_IR=root["om"], configuration=cfg, velocities=vel, root_is_floating=floating)
            except Exception as e:  # noqa: BLE001
                failures.append({"what": f"{what}: import raised {type(e).__name__}", "input": {"urdf": xml, "configuration": {a: np.asarray(b).tolist() for a, b in cfg.items()}, "velocities": {a: np.asarray(b).tolist() for a, b in vel.items()}}, "detail": str(e)[:300]})
                continue
        t0, q0, u0 = system.t0, system.q0, system.u0
        worst = dict(g=float(np.max(np.abs(system.g(t0, q0)), initial=0.0)), g_dot=float(np.max(np.abs(system.g_dot(t0, q0, u0)), initial=0.0)))
        # independent forward kinematics, breadth first
        frames = {"L0": root}
        for j in joints:
            par = frames[j["parent"]]
            jt = j["type"]
            c, v = cfg.get(j["name"]), vel.get(j["name"])
            if jt == "floating":
                jt = "floating-default" if c is None else ("floating6" if len(c) == 6 else "floating7")
                if c is None and v is not None:
                    jt, c = "floating6", np.zeros(6)
                if v is None and c is not None:
                    v = np.zeros(6)
            elif c is None:
                c, v = (np.zeros(2), np.zeros(2)) if jt == "planar" else (0.0, 0.0)
            r_C, A_B, A_R, r_R = _spec(ck, jt, par, dict(xyz=j["xyz"], rpy=j["rpy"], axis=j["axis"]), c, v, inertial[j["child"]])
            if jt in ("floating6", "floating7"):
                # twist convention of the importer for floating joints (see recursion-step contracts)
                Jr, Jv, Jom = np.asarray(c[:3]), np.asarray(v[:3]), np.asarray(v[3:6])
                extra = par["A"] @ _R_rpy(ck, j["rpy"]) @ np.cross(Jom, Jr)
                r_R.d = r_R.d + extra
                r_C.d = r_C.d + extra
            om_c = np.array([(A_R.v.T @ A_R.d)[2, 1], (A_R.v.T @ A_R.d)[0, 2], (A_R.v.T @ A_R.d)[1, 0]])
            frames[j["child"]] = dict(r=r_R.v, A=A_R.v, v=r_R.d, om=om_c)
            body = system.contributions_map[j["child"]]
            qb, ub = q0[body.qDOF], u0[body.uDOF]
            S_ = A_B.v.T @ A_B.d
            errs = dict(position=np.max(np.abs(qb[:3] - r_C.v)), orientation=np.max(np.abs(body.A_IB(t0, qb) - A_B.v)), velocity=np.max(np.abs(ub[:3] - r_C.d)), spin=np.max(np.abs(ub[3:] - np.array([S_[2, 1], S_[0, 2], S_[1, 0]]))))
            for key, val in errs.items():
                cases += 1
                if not val <= 1e-6:
                    failures.append({"what": f"{what}: link {j['child']} (joint {j['name']}, {j['type']}) is not at its forward-kinematics {key}", "input": {"urdf": xml, "configuration": {a: np.asarray(b).tolist() for a, b in cfg.items()}}, "detail": f"{val:.3e}"})
            jn = system.contributions_map.get(j["name"])
            if isinstance(jn, Revolute):
                cases += 2
                a, ad = jn.l(t0, q0[jn.qDOF]), jn.l_dot(t0, q0[jn.qDOF], u0[jn.uDOF])
                wa, wad = cfg.get(j["name"], 0.0), vel.get(j["name"], 0.0)
                if not (abs(a - wa) <= 1e-8 and abs(ad - wad) <= 1e-6):
                    failures.append({"what": f"{what}: revolute joint {j['name']} reports angle/rate {a:.6g}/{ad:.6g}, requested {wa:.6g}/{wad:.6g}", "input": {"urdf": xml}, "detail": ""})
        for key, val in worst.items():
            cases += 1
            if not val <= 1e-8:
                failures.append({"what": f"{what}: assembled initial state violates {key}", "input": {"urdf": xml}, "detail": f"{val:.3e}"})
    return {"cases": cases, "distinct": cases, "failures": failures[:12], "bound": f"{ntrees} generated URDF trees (depth <= 3, branching <= {2 if tier == 'quick' else 3}, all joint types, random origins/axes/inertial frames/configurations/velocities, fixed and floating roots) through the real XML parser and the real System.assemble"}


# --------------------------------------------------------------------------- the induction step composes: nothing else is carried
from vk.registry import static  # noqa: E402


def _loop_carried(fn):
    """names that some loop of `fn` assigns and that one of its iterations may read before assigning them itself - the
    local state an iteration inherits from the previous one (def-use analysis of the current source; structured control
    flow: if / for / while / try / with; a branch that ends in continue / break / raise / return does not flow on)"""
    import ast
    import inspect
    import textwrap

    tree = ast.parse(textwrap.dedent(inspect.getsource(fn))).body[0]

    def targets(node):
        out = set()
        for t in ast.walk(node):
            if isinstance(t, ast.Name) and isinstance(t.ctx, (ast.Store, ast.Del)):
                out.add(t.id)
        return out

    def reads(expr):
        return {n.id for n in ast.walk(expr) if isinstance(n, ast.Name) and isinstance(n.ctx, ast.Load)} if expr is not None else set()

    ALL = None  # "every name is defined": the value of a path that does not continue

    def meet(a, b):
        if a is ALL:
            return b
        if b is ALL:
            return a
        return a & b

    def run(stmts, defd, assigned, exposed):
        """returns the set of names definitely assigned after the statements (ALL if control never falls through)"""
        for st in stmts:
            if defd is ALL:
                return ALL
            if isinstance(st, (ast.Continue, ast.Break, ast.Raise, ast.Return)):
                for e in ast.iter_child_nodes(st):
                    exposed |= (reads(e) & assigned) - defd
                return ALL
            if isinstance(st, ast.If):
                exposed |= (reads(st.test) & assigned) - defd
                a = run(st.body, set(defd), assigned, exposed)
                b = run(st.orelse, set(defd), assigned, exposed)
                defd = meet(a, b)
            elif isinstance(st, (ast.For, ast.While)):
                exposed |= (reads(st.iter if isinstance(st, ast.For) else st.test) & assigned) - defd
                inner = set(defd) | (targets(st.target) if isinstance(st, ast.For) else set())
                run(st.body, inner, assigned, exposed)  # the body may run zero times: nothing it assigns is definite
                run(st.orelse, set(defd), assigned, exposed)
            elif isinstance(st, ast.Try):
                a = run(st.body, set(defd), assigned, exposed)
                for h in st.handlers:
                    run(h.body, set(defd), assigned, exposed)
                defd = meet(a, run(st.finalbody, set(defd), assigned, exposed)) if st.finalbody else (a if a is not ALL else set(defd))
            elif isinstance(st, ast.With):
                for it in st.items:
                    exposed |= (reads(it.context_expr) & assigned) - defd
                    defd |= targets(it.optional_vars) if it.optional_vars is not None else set()
                defd = run(st.body, defd, assigned, exposed)
            elif isinstance(st, ast.AugAssign):
                exposed |= ((reads(st.value) | targets(st.target)) & assigned) - defd
                defd |= targets(st.target)
            elif isinstance(st, (ast.Assign, ast.AnnAssign)):
                exposed |= (reads(st.value) & assigned) - defd
                tg = st.targets if isinstance(st, ast.Assign) else [st.target]
                for t in tg:
                    # reads inside a target (subscripts, attributes: `child.r_OR = ...` reads `child`)
                    exposed |= ({n.id for n in ast.walk(t) if isinstance(n, ast.Name) and isinstance(n.ctx, ast.Load)} & assigned) - defd
                    defd |= targets(t)
            else:
                exposed |= (reads(st) & assigned) - defd
                defd |= targets(st)
        return defd

    found = {}
    for loop in [n for n in ast.walk(tree) if isinstance(n, (ast.For, ast.While))]:
        assigned = set().union(*[targets(s) for s in loop.body]) if loop.body else set()
        exposed = set()
        run(loop.body, targets(loop.target) if isinstance(loop, ast.For) else set(), assigned, exposed)
        found[f"{type(loop).__name__.lower()} loop at line {loop.lineno} of the function"] = sorted(exposed)
    return found


@static("C28", "tree-walk/no local state is carried from one edge to the next")
def s_no_carried_state(tier):
    """The recursion-step contracts prove one edge for an arbitrary parent frame; they compose along a tree only if an
    iteration of the importer's walk takes nothing from the previous iteration except what is stored on the link objects,
    the queue and the system.  Decided on the current source: no loop of system_from_urdf assigns a local name that one of
    its iterations may read before assigning it itself."""
    out = []
    carried = _loop_carried(U.system_from_urdf)
    for where, names in carried.items():
        out.append(dict(name=f"system_from_urdf, {where}: an iteration reads no local name left over from the previous one", ok=not names, backend="ast def-use analysis", show=f"read before assigned: {names}", detail=f"local names assigned in the loop and possibly read before this iteration assigns them: {names}", replay=None if not names else {"loop": where, "carried_names": names}))
    out.append(dict(name="vacuity guard: the walk has loops", ok=len(carried) >= 2, backend="ast def-use analysis", show=str(list(carried))))
    return out
