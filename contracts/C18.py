"""C18 - Nonsmooth integrators satisfy the discrete Signorini-Coulomb laws.

The projection step of every scheme is executed for real (real NegativeOrthant / Sphere prox,
symbolic percussions, gaps, gap rates, prox parameters r > 0, restitution 0..1, friction
mu >= 0) against the System callee contract.  The loops that call them stop when consecutive
iterates agree up to tolerance; the contract is the exact statement at their limit:

  position level   BackwardEuler.prox, Rattle.prox1:    y = prox(x, y)  =>  P_N >= 0, g_N(t_n+1, q_n+1) >= 0, P_N g_N = 0
  velocity level   Rattle.prox2, Moreau.step (loop cut), DualStormerVerlet._step (fixed point of its map):
                   fixed point => closed contacts: P_N >= 0, xi_N >= 0, P_N xi_N = 0 with
                   xi_N = g_N_dot(post) + e_N g_N_dot(pre) built independently from the callee contract;
                   contacts that are not closed carry P_N = 0
  friction         every projected friction percussion lies in the disk |P_F| <= mu P_N (any iterate, not only fixed
                   points); at a fixed point with slip the percussion is anti-parallel to the slip and on the boundary

Kinetic energy at frictionless impacts and the tolerance clauses are a bounded stand-in on
real scenes (spheres and planes, random restitution / friction / step sizes).
"""

import warnings

import numpy as np

import cardillo.solver.backward_euler as be
import cardillo.solver.dual_stormer_verlet as dsv
import cardillo.solver.moreau as mo
import cardillo.solver.rattle as ra
from cardillo.solver import SolverOptions
from contracts.C21 import _Pbar, _Rec, _Summary, _warnmod
from contracts.sysstub import Lin, SysStub, mat, patched
from vk import kit as K
from vk import loopcut, npshim
from vk import sym as S
from vk.registry import bounded, contract, static

LEVEL = "proof"
TRUSTED = [
    "System callee contract (contracts/sysstub.py): g_N_dot = W_N^T u + chi_N, gamma_F = W_F^T u + chi_F (C06), one contact with a Coulomb disk (two friction directions)",
    "the statements hold at exact fixed points of the projection loops; the loops stop at tolerance (C22 for the helpers) - the numeric gap is covered by the bounded stand-in only",
    "assumed contracts: splu A x = b, estimate_prox_parameter > 0 (C27)",
]
EXPLANATION = "symbolic native execution of the real projection steps (path forking through the real prox code); QF_NRA obligations; loop cut for Moreau.step; bounded real scenes"

SIZES = dict(nq=2, nu=2, nla_g=0, nla_gamma=0, nla_c=0, nla_tau=0, nla_N=1, nla_F=2)


def _mk(k, module, cls, friction, layout=None, **kw):
    lin, rec = Lin(k), _Rec()
    sysm = SysStub(k, sizes=dict(SIZES), friction=friction, t0=0.0, layout=layout)
    sysm.q_dot0 = S.symarray("qd0", sysm.nq)
    names = dict(bmat=lin.bmat, splu=lin.splu, warnings=_warnmod(rec), tqdm=_Pbar, SolverSummary=_Summary, print=lambda *a, **kw: None)
    names = {a: b for a, b in names.items() if hasattr(module, a) or a == "print"}
    ctx = patched(module, **names)
    ctx.__enter__()
    try:
        with npshim.active(True), k.spec():
            solver = cls(sysm, 1.0, 0.25, options=SolverOptions(), **kw)
    except BaseException:
        ctx.__exit__(None, None, None)
        raise
    return sysm, lin, rec, solver, ctx


def _havoc_state(solver, sysm, names):
    for nm in names:
        old = getattr(solver, nm)
        setattr(solver, nm, S.var(nm) if nm == "tn" else S.symarray(nm + "_h", np.shape(old)))


def _pos(k, r):
    for v in np.atleast_1d(r):
        k.assume(v > 0)


def _signorini(k, tag, P, g, hyp):
    for i in range(len(P)):
        k.prove(f"{tag}: fixed point => P_N[{i}] >= 0", hyp.implies(S._coerce(P[i]) >= 0))
        k.prove(f"{tag}: fixed point => gap measure[{i}] >= 0", hyp.implies(S._coerce(g[i]) >= 0))
        k.prove(f"{tag}: fixed point => P_N[{i}] * gap measure[{i}] = 0", hyp.implies(S._coerce(P[i] * g[i]) == 0))


def _coulomb(k, tag, PF_out, PN_used, mu, slip, hyp, PF_in):
    with npshim.active(True):
        k.prove(f"{tag}: projected friction percussion inside the disk |P_F|^2 <= (mu P_N)^2 (P_N >= 0)", (S._coerce(PN_used) >= 0).implies(S._coerce(PF_out @ PF_out) <= S._coerce((mu * PN_used) ** 2)))
        # fixed point with slip: anti-parallel and on the boundary
        cross = PF_out[0] * slip[1] - PF_out[1] * slip[0]
        dot = PF_out @ slip
        k.prove(f"{tag}: fixed point => P_F parallel to the slip (cross product 0)", hyp.implies(S._coerce(cross) == 0))
        k.prove(f"{tag}: fixed point => P_F opposes the slip (P_F . slip <= 0)", hyp.implies(S._coerce(dot) <= 0))
        sliding = ~(S._coerce(slip @ slip) == 0)
        k.prove(f"{tag}: fixed point with slip and P_N >= 0 => |P_F| = mu P_N", (hyp & sliding & (S._coerce(PN_used) >= 0)).implies(S._coerce(PF_out @ PF_out) == S._coerce((mu * PN_used) ** 2)))


def _eqall(a, b):
    return S.conj([S._coerce(x) == S._coerce(y) for x, y in zip(np.atleast_1d(a), np.atleast_1d(b))])


def _be_prox(friction, layout=None):
    """layout = (0, 2): a frictionless contact assembled before the frictional one - the friction law must use ITS contact's normal percussion"""
    ic = 0 if layout is None else len(layout) - 1

    def c(k):
        if not k.sym:
            raise K.Reject("symbolic only")
        k.covers(be.BackwardEuler.prox)
        sysm, lin, rec, solver, ctx = _mk(k, be, be.BackwardEuler, friction, layout=layout)
        try:
            with npshim.active(True), k.spec():
                _havoc_state(solver, sysm, ("tn", "qn", "un"))
                solver.prox_r_N = S.symarray("rN", sysm.nla_N)
                solver.prox_r_F = S.symarray("rF", sysm.nla_F)
                _pos(k, solver.prox_r_N)
                _pos(k, solver.prox_r_F)
                x1 = S.symarray("x1", solver.nx)
                y0 = S.symarray("y0", solver.ny)
                y1 = solver.prox(x1, y0)
                dq, du = x1[: sysm.nq], x1[sysm.nq : sysm.nq + sysm.nu]
                tn1, q1, u1 = solver.tn + solver.dt, solver.qn + dq, solver.un + du
                gN = sysm.g_N(tn1, q1)
                nN = sysm.nla_N
                hypN = _eqall(y1[:nN], y0[:nN])
                _signorini(k, "BackwardEuler.prox (position level, gap g_N(t_n+1, q_n+1))", y1[:nN], gN, hypN)
                if friction:
                    hyp = _eqall(y1, y0)
                    _coulomb(k, "BackwardEuler.prox", y1[nN:], y1[ic], sysm.mus[ic], sysm.gamma_F(tn1, q1, u1), hyp, y0[nN:])
        finally:
            ctx.__exit__(None, None, None)

    return c


def _rattle_prox(friction, layout=None):
    ic = 0 if layout is None else len(layout) - 1

    def c(k):
        if not k.sym:
            raise K.Reject("symbolic only")
        k.covers(ra.Rattle.prox1, ra.Rattle.prox2)
        sysm, lin, rec, solver, ctx = _mk(k, ra, ra.Rattle, friction, layout=layout)
        try:
            with npshim.active(True), k.spec():
                _havoc_state(solver, sysm, ("tn", "qn", "un", "x1n", "y1n"))
                solver.prox_r_N = S.symarray("rN", sysm.nla_N)
                solver.prox_r_F = S.symarray("rF", sysm.nla_F)
                _pos(k, solver.prox_r_N)
                _pos(k, solver.prox_r_F)
                nN = sysm.nla_N
                tn, dt, qn, un = solver.tn, solver.dt, solver.qn, solver.un
                tn1 = tn + dt
                # ---- stage 1 (position level)
                x1 = S.symarray("x1", solver.nx1)
                y1 = S.symarray("y1", solver.ny)
                y1p = solver.prox1(x1, y1)
                q1, u12 = x1[: sysm.nq], x1[sysm.nq : sysm.nq + sysm.nu]
                _signorini(k, "Rattle.prox1 (position level, gap g_N(t_n+1, q_n+1))", y1p[:nN], sysm.g_N(tn1, q1), _eqall(y1p[:nN], y1[:nN]))
                if friction:
                    _coulomb(k, "Rattle.prox1", y1p[nN:], y1[ic], sysm.mus[ic], sysm.gamma_F(tn1, q1, u12), _eqall(y1p, y1), y1[nN:])
                # ---- stage 2 (velocity level); prox2 reads q_n+1 from self.x1n and the stage-1 percussions from self.y1n
                x2 = S.symarray("x2", solver.nx2)
                y2 = S.symarray("y2", solver.ny)
                y2p = solver.prox2(x2, y2)
                qn1 = solver.x1n[: sysm.nq]
                un1 = x2[: sysm.nu]
                xiN = sysm.e_N * sysm.g_N_dot(tn, qn, un) + sysm.g_N_dot(tn1, qn1, un1)
                P = solver.y1n + y2  # total percussion entering the projection
                Pout = solver.y1n + y2p
                hyp = _eqall(y2p[:nN], y2[:nN])
                for i in range(nN):
                    act = solver.I_N[i]
                    act = act if isinstance(act, S.SymBool) else S._cb(bool(act))
                    k.prove(f"Rattle.prox2: contact closed in stage 1 and fixed point => P_N[{i}] >= 0", (act & hyp).implies(S._coerce(Pout[i]) >= 0))
                    k.prove(f"Rattle.prox2: closed and fixed point => xi_N[{i}] = g_N_dot(t_n+1,q_n+1,u_n+1) + e_N g_N_dot(t_n,q_n,u_n) >= 0", (act & hyp).implies(S._coerce(xiN[i]) >= 0))
                    k.prove(f"Rattle.prox2: closed and fixed point => P_N[{i}] xi_N[{i}] = 0", (act & hyp).implies(S._coerce(Pout[i] * xiN[i]) == 0))
                    k.prove(f"Rattle.prox2: contact not closed in stage 1 => total normal percussion P_N[{i}] = 0", (~act).implies(S._coerce(Pout[i]) == 0))
                if friction:
                    xiF = sysm.e_F * sysm.gamma_F(tn, qn, un) + sysm.gamma_F(tn1, qn1, un1)
                    _coulomb(k, "Rattle.prox2", Pout[nN:], P[ic], sysm.mus[ic], xiF, _eqall(y2p, y2), P[nN:])
        finally:
            ctx.__exit__(None, None, None)

    return c


for _fr in (False, True):
    contract("C18", f"BackwardEuler.prox[friction={_fr}]", samples=0, replayable=False, timeout=90, max_paths=200, soft=("*fixed point with slip*", "*parallel to the slip*", "*opposes the slip*"))(_be_prox(_fr))
    contract("C18", f"Rattle.prox1-prox2[friction={_fr}]", samples=0, replayable=False, timeout=90, max_paths=400, soft=("*fixed point with slip*", "*parallel to the slip*", "*opposes the slip*"))(_rattle_prox(_fr))


contract("C18", "BackwardEuler.prox[frictionless contact before a frictional one]", samples=0, replayable=False, timeout=90, max_paths=400, soft=("*fixed point with slip*", "*parallel to the slip*", "*opposes the slip*"))(_be_prox(True, layout=(0, 2)))
contract("C18", "Rattle.prox1-prox2[frictionless contact before a frictional one]", samples=0, replayable=False, timeout=90, max_paths=1600, tiers=("thorough",), soft=("*fixed point with slip*", "*parallel to the slip*", "*opposes the slip*"))(_rattle_prox(True, layout=(0, 2)))


# --------------------------------------------------------------------------- Moreau: fixed-point loop of step() cut
class _MoreauHelper(loopcut.Helper):
    def __init__(self, mode, k):
        super().__init__(mode)
        self.k = k
        self.prev = {}
        self.back = None

    def havoc(self, name, old):
        if name == "j":
            return 0
        if name == "converged":
            return False
        if isinstance(old, np.ndarray) and old.dtype == object:
            v = S.symarray(name + "_h", old.shape)
        elif isinstance(old, (S.Sym, float)):
            v = S.var(name + "_h")
        else:
            return old
        self.prev[name] = v.copy() if isinstance(v, np.ndarray) else v  # the real prox writes into its argument
        return v

    def back_edge(self, loc):
        self.back = dict(loc)

    def element(self, it):
        return 0

    def last(self, it):
        return len(it) - 1


def _moreau_step(friction):
    def c(k):
        if not k.sym:
            raise K.Reject("symbolic only")
        k.covers(mo.Moreau.step, mo.Moreau.prox)
        sysm, lin, rec, solver, ctx = _mk(k, mo, mo.Moreau, friction)
        try:
            def prox_par(alpha, W, M):
                r = S.symarray("r", np.asarray(W, dtype=object).shape[1])
                _pos(k, r)
                return r

            from contracts.C21 import _opaque_np

            nplocal = _opaque_np(mo.np, rec, extra=("max",))
            with patched(mo, estimate_prox_parameter=prox_par), npshim.active(True), k.spec():
                _havoc_state(solver, sysm, ("tn", "qn", "un", "P_Nn", "P_Fn"))
                tn, qn, un, dt = solver.tn, solver.qn, solver.un, solver.dt
                # closed contact at the midpoint (the loop is only entered then); other cases: P_N = 0 by construction (checked below)
                helper = _MoreauHelper("iter", k)
                run = loopcut.cut(solver.step, loop=0)
                k.loop_info = run.info
                with patched(mo, np=nplocal):
                    try:
                        ret = run(helper)
                    except loopcut.Stop:
                        return  # not converged in this iteration: nothing to show at the back edge
                (conv, j, err), tn1, qn1, un1, P_g, P_gam, la_c, P_N, P_F = ret
                tm = tn + 0.5 * dt
                qm = qn + 0.5 * dt * sysm.q_dot(tn, qn, un)
                if not helper.prev:
                    # loop not entered: no contact closed at the midpoint
                    k.prove_eq("no closed contact at the midpoint: P_N = 0", P_N, np.zeros(sysm.nla_N))
                    k.prove_eq("no closed contact at the midpoint: P_F = 0", P_F, np.zeros(sysm.nla_F))
                    k.prove("no closed contact at the midpoint: g_N(t_m, q_m) > 0", S._coerce(sysm.g_N(tm, qm)[0]) > 0)
                    return
                # converging iteration: prox evaluated at the havocked previous velocity u0_h and percussions P_N_h, P_F_h
                u_prev = helper.prev["u0"]
                PN_prev, PF_prev = helper.prev["P_N"], helper.prev["P_F"]
                hyp = _eqall(P_N, PN_prev) & _eqall(un1, u_prev)
                xiN = sysm.g_N_dot(tm, qm, un1) + sysm.e_N * sysm.g_N_dot(tm, qm, un)
                _signorini(k, "Moreau.step (velocity level, xi_N = g_N_dot(t_m,q_m,u_n+1) + e_N g_N_dot(t_m,q_m,u_n))", P_N, xiN, hyp)
                A, x, b = lin.solves[-1]
                k.prove_eq("returned velocity is the solution of the linear system with the projected percussions", un1, x[: sysm.nu])
                k.prove_eq("momentum balance row: M u_n+1 = M u_n + dt (h + W_c la_c + W_tau la_tau) + W_N P_N + W_F P_F", sysm.M(tm, qm) @ un1, sysm.M(tm, qm) @ un + dt * (sysm.h(tm, qm, un)) + sysm.W_N(tm, qm) @ P_N + (sysm.W_F(tm, qm) @ P_F if sysm.nla_F else 0))
                if friction:
                    xiF = sysm.gamma_F(tm, qm, un1) + sysm.e_F * sysm.gamma_F(tm, qm, un)
                    hypF = hyp & _eqall(P_F, PF_prev)
                    _coulomb(k, "Moreau.step", P_F, P_N[0], sysm.mu, xiF, hypF, PF_prev)
        finally:
            ctx.__exit__(None, None, None)

    return c


for _fr in (False, True):
    contract("C18", f"Moreau.step[friction={_fr}]/iter", samples=0, replayable=False, timeout=90, max_paths=400)(_moreau_step(_fr))


# --------------------------------------------------------------------------- DualStormerVerlet: fixed point of the real iteration map
def _dsv_step(friction):
    def c(k):
        if not k.sym:
            raise K.Reject("symbolic only")
        k.covers(dsv.DualStormerVerlet._step)
        lin, rec = Lin(k), _Rec()
        sysm = SysStub(k, sizes=dict(SIZES), friction=friction, t0=0.0)
        seen = {}
        holder = {}

        def fpi(fun, x0, atol=None, rtol=None, max_iter=None, verbose=False):
            rec.n += 1
            z = S.symarray(f"fp{rec.n}_", len(x0))
            s = holder["solver"]
            if hasattr(s, "prox_r_N") and rec.n > 1:
                for v in list(np.atleast_1d(s.prox_r_N)) + list(np.atleast_1d(s.prox_r_F)):
                    k.assume(v > 0)  # M has a positive diagonal and the force directions are non-zero
            fz = fun(z.copy())
            seen[rec.n] = (z, fz)
            return z, 1, 0.0

        def block_diag(blocks, format=None):
            blocks = [np.asarray(b, dtype=object).reshape(np.shape(b)) for b in blocks]
            n = sum(b.shape[0] for b in blocks)
            out = np.empty((n, n), dtype=object)
            out[...] = S.ZERO
            i = 0
            for b in blocks:
                out[i : i + b.shape[0], i : i + b.shape[1]] = b
                i += b.shape[0]
            return mat(out)

        with patched(dsv, splu=lin.splu, bmat=lin.bmat, block_diag=block_diag, diags_array=lambda d, **kw: mat(np.diag(np.asarray(d, dtype=object))), tqdm=_Pbar, SolverSummary=_Summary, warnings=_warnmod(rec), fixed_point_iteration=fpi, fixed_point_iteration_with_momentum=fpi, print=lambda *a, **kw: None), npshim.active(True), k.spec():
            solver = dsv.DualStormerVerlet(sysm, 1.0, 0.25, options=SolverOptions(), linear_solver="LU", constant_mass_matrix=False)
            holder["solver"] = solver
            solver.tn = tn = S.var("tn")
            solver.qn = qn = S.symarray("qn_h", sysm.nq)
            solver.un = un = S.symarray("un_h", sysm.nu)
            solver.Pin = S.symarray("Pin_h", solver.nla)
            solver.Pi_Nn = S.symarray("PiN_h", sysm.nla_N)
            solver.Pi_Fn = S.symarray("PiF_h", sysm.nla_F)
            for nm in ("sol_t", "sol_q", "sol_u", "sol_la_c", "sol_P_g", "sol_P_gamma", "sol_P_N", "sol_P_F"):
                setattr(solver, nm, [])
            solver._step()
            dt = solver.dt
            z, fz = seen[max(seen)]
            qm = seen[min(seen)][0]
            tm = tn + 0.5 * dt
            nu, nN = sysm.nu, sysm.nla_N
            nx = nu + solver.nla
            u1 = z[:nu]
            PN_in, PN_out = z[nx : nx + nN], fz[nx : nx + nN]
            PF_in, PF_out = z[nx + nN :], fz[nx + nN :]
            hypN = _eqall(PN_out, PN_in) & _eqall(fz[:nu], u1)
            xiN = sysm.e_N * sysm.g_N_dot(tm, qm, un) + sysm.g_N_dot(tm, qm, u1)
            gNm = sysm.g_N(tm, qm)
            act = S._coerce(gNm[0]) <= 0
            for i in range(nN):
                k.prove(f"DualStormerVerlet: closed at the midpoint and fixed point => P_N[{i}] >= 0", (act & hypN).implies(S._coerce(PN_out[i]) >= 0))
                k.prove(f"DualStormerVerlet: closed and fixed point => xi_N[{i}] = g_N_dot(t_m,q_m,u_n+1) + e_N g_N_dot(t_m,q_m,u_n) >= 0", (act & hypN).implies(S._coerce(xiN[i]) >= 0))
                k.prove(f"DualStormerVerlet: closed and fixed point => P_N[{i}] xi_N[{i}] = 0", (act & hypN).implies(S._coerce(PN_out[i] * xiN[i]) == 0))
                k.prove(f"DualStormerVerlet: contact open at the midpoint => P_N[{i}] = 0", (~act).implies(S._coerce(PN_out[i]) == 0))
            if friction:
                xiF = sysm.e_F * sysm.gamma_F(tm, qm, un) + sysm.gamma_F(tm, qm, u1)
                _coulomb(k, "DualStormerVerlet", PF_out, PN_out[0], sysm.mu, xiF, hypN & _eqall(PF_out, PF_in), PF_in)
            k.prove_eq("stored normal percussion is the projected one", solver.sol_P_N[-1], z[nx : nx + nN])

    return c


for _fr in (False, True):
    contract("C18", f"DualStormerVerlet._step[friction={_fr}]/fixed-point", samples=0, replayable=False, timeout=90, max_paths=400)(_dsv_step(_fr))


# --------------------------------------------------------------------------- bounded: real scenes
def _scene_ball_on_plane(rng):
    from cardillo import System
    from cardillo.contacts import Sphere2Plane
    from cardillo.discrete import RigidBody
    from cardillo.forces import Force

    sysm = System()
    R, m = rng.uniform(0.05, 0.2), rng.uniform(0.5, 2.0)
    mu, eN = rng.uniform(0.0, 1.0), rng.uniform(0.0, 1.0)
    h0 = rng.uniform(0.0, 0.05)
    v = np.array([rng.uniform(-1, 1), rng.uniform(-1, 1), rng.uniform(-1, 0)])
    th = 0.4 * m * R**2
    rb = RigidBody(m, np.diag([th, th * rng.uniform(1, 3), th * rng.uniform(1, 3)]), q0=np.array([0, 0, R + h0, 1, 0, 0, 0.0]), u0=np.concatenate([v, rng.normal(size=3)]))
    c = Sphere2Plane(sysm.origin, rb, mu=mu, r=R, e_N=eN, e_F=0.0)
    sysm.add(rb, Force(np.array([0, 0, -9.81 * m]), rb), c)
    return sysm, dict(mu=mu, eN=eN, kind="ball on plane")


def _scene_two_spheres_elastic(rng):
    return _scene_two_spheres(rng, elastic=True)


def _scene_two_spheres(rng, elastic=False):
    from cardillo import System
    from cardillo.contacts import Sphere2Sphere
    from cardillo.discrete import PointMass

    sysm = System()
    R = 0.1
    eN = 1.0 if elastic else rng.uniform(0.0, 0.95)
    off = rng.uniform(0.05, 0.15) if elastic else rng.uniform(-0.12, 0.12)
    s1 = PointMass(rng.uniform(0.5, 2.0), q0=np.array([-0.3, 0.0, 0.0]), u0=np.array([1.0, 0.0, 0.0]), name="s1")
    s2 = PointMass(rng.uniform(0.5, 2.0), q0=np.array([0.3, off, 0.0]), u0=np.array([-rng.uniform(0.2, 1.0), 0.0, 0.0]), name="s2")
    c = Sphere2Sphere(s1, s2, R, R, mu=0.0, e_N=eN, e_F=0.0)
    sysm.add(s1, s2, c)
    return sysm, dict(mu=0.0, eN=eN, kind="two free spheres, frictionless, no applied forces" + (", oblique impact with e_N = 1" if elastic else ", e_N <= 0.95"))


@bounded("C18", "native/signorini-coulomb-along-real-runs")
def b_scenes(tier, seed):
    import contextlib
    import io

    from cardillo.solver import BackwardEuler, DualStormerVerlet, Moreau, Rattle

    rng = np.random.default_rng(seed + 180)
    cases, failures = 0, []
    reps = 2 if tier == "quick" else 6
    dts = (5e-3,) if tier == "quick" else (1e-2, 2e-3)
    solvers = (("Moreau", lambda s, dt: Moreau(s, 0.6, dt), False), ("Rattle", lambda s, dt: Rattle(s, 0.6, dt), True), ("BackwardEuler", lambda s, dt: BackwardEuler(s, 0.6, dt), True), ("DualStormerVerlet", lambda s, dt: DualStormerVerlet(s, 0.6, dt, linear_solver="LU"), False))
    for rep in range(reps):
        for scene in (_scene_ball_on_plane, _scene_two_spheres, _scene_two_spheres_elastic):
            state = rng.bit_generator.state
            for sname, mk, position_level in solvers:
                for dt in dts:
                    rng.bit_generator.state = state  # same scene for every solver / step size
                    cases += 1
                    try:
                        with warnings.catch_warnings(), contextlib.redirect_stdout(io.StringIO()), contextlib.redirect_stderr(io.StringIO()):
                            warnings.simplefilter("ignore")
                            sysm, par = scene(rng)
                            sysm.assemble()
                            sol = mk(sysm, dt).solve()
                    except Exception as e:  # noqa: BLE001
                        failures.append({"what": f"{sname} on {scene.__name__}: run raised {type(e).__name__}", "input": {"seed": seed, "rep": rep}, "detail": str(e)[:200]})
                        continue
                    what = f"{sname} on {par['kind']} (e_N={par['eN']:.2f}, mu={par['mu']:.2f}, dt={dt})"
                    t, q, u, PN, PF = sol.t, sol.q, sol.u, sol.P_N, sol.P_F
                    worst = {}
                    E = [sysm.E_kin(t[i], q[i], u[i]) for i in range(len(t))]
                    for i in range(1, len(t)):
                        gN0, gN1 = sysm.g_N(t[i - 1], q[i - 1]), sysm.g_N(t[i], q[i])
                        worst["P_N >= 0"] = max(worst.get("P_N >= 0", 0.0), float(np.max(-PN[i], initial=0.0)))
                        far = np.minimum(gN0, gN1) > 0.05
                        worst["open contact carries no percussion"] = max(worst.get("open contact carries no percussion", 0.0), float(np.max(np.abs(PN[i][far]), initial=0.0)))
                        if position_level:
                            worst["no penetration (position-level scheme)"] = max(worst.get("no penetration (position-level scheme)", 0.0), float(np.max(-gN1, initial=0.0)))
                        if PF.shape[1] == 2:
                            worst["|P_F| <= mu P_N"] = max(worst.get("|P_F| <= mu P_N", 0.0), float(np.linalg.norm(PF[i]) - par["mu"] * PN[i][0]))
                            gam = sysm.gamma_F(t[i], q[i], u[i])
                            if np.linalg.norm(gam) > 1e-2 and PN[i][0] > 1e-8 and par["mu"] > 1e-3 and sname in ("Rattle", "BackwardEuler"):
                                dev = np.linalg.norm(PF[i] + par["mu"] * PN[i][0] * gam / np.linalg.norm(gam)) / (par["mu"] * PN[i][0])
                                worst["sliding: P_F = -mu P_N slip/|slip|"] = max(worst.get("sliding: P_F = -mu P_N slip/|slip|", 0.0), float(dev))
                        if par["mu"] == 0.0:
                            worst["kinetic energy never increases (frictionless, no applied forces)"] = max(worst.get("kinetic energy never increases (frictionless, no applied forces)", 0.0), float(E[i] - E[i - 1]) / (1e-12 + E[0]))
                    limits = {"P_N >= 0": 1e-10, "open contact carries no percussion": 1e-12, "no penetration (position-level scheme)": 1e-5, "|P_F| <= mu P_N": 1e-8, "sliding: P_F = -mu P_N slip/|slip|": 1e-2, "kinetic energy never increases (frictionless, no applied forces)": 1e-9}
                    for key, val in worst.items():
                        cases += 1
                        if not val <= limits[key]:
                            failures.append({"what": f"{sname}: {key} - {par['kind']}", "input": {"seed": seed, "rep": rep, "scene": par, "dt": dt}, "detail": f"{what}: {val:.3e} > {limits[key]:g}"})
    seen, out = set(), []
    for f in failures:
        if f["what"] not in seen:
            seen.add(f["what"])
            out.append(f)
    return {"cases": cases, "distinct": cases, "failures": out[:12], "bound": f"{reps} random instances x 3 scenes (ball on plane with friction/restitution, two free spheres, two free spheres with e_N = 1) x 4 solvers x step sizes {dts}, horizon 0.6"}


# --------------------------------------------------------------------------- several contacts: index bookkeeping
@static("C18", "compute_I_F/exhaustive")
def s_compute_I_F(tier):
    from contracts.multicontact import exhaustive_compute_I_F

    return exhaustive_compute_I_F(tier)


def _moreau_prox_multi(layout, active):
    """the real Moreau.prox on the active sets that the real compute_I_F produces for a system with several contacts:
    every active friction law projects onto the disk of ITS OWN contact's normal percussion"""

    def c(k):
        if not k.sym:
            raise K.Reject("symbolic only")
        from cardillo.solver._base import compute_I_F

        k.covers(mo.Moreau.prox, compute_I_F)
        sysm = SysStub(k, sizes=dict(SIZES), friction=True, t0=0.0, layout=layout)
        with npshim.active(True), k.spec():
            I_N = np.array(active, dtype=int)
            I_F, laws = compute_I_F(I_N, sysm)
            solver = object.__new__(mo.Moreau)
            nA, nFa, nu = len(I_N), len(I_F), sysm.nu
            solver.dt = 0.25
            solver.W_N, solver.W_F = S.symarray("WN", (nu, nA)), S.symarray("WF", (nu, nFa))
            solver.xi_N0, solver.xi_F0 = S.symarray("xiN0", nA), S.symarray("xiF0", nFa)
            solver.prox_r_N, solver.prox_r_F = S.symarray("rN", nA), S.symarray("rF", nFa)
            _pos(k, solver.prox_r_N)
            _pos(k, solver.prox_r_F)
            solver.global_active_friction_laws = laws
            un1, PN0, PF0 = S.symarray("un1", nu), S.symarray("PN", nA), S.symarray("PF", nFa)
            PN, PF = solver.prox(un1, PN0.copy(), PF0.copy())
            for j in range(nA):
                k.prove_le(f"normal percussion of active contact {active[j]} >= 0", 0, PN[j])
            f0 = 0
            for c_idx, nf in enumerate(layout):
                if nf and c_idx in active:
                    jn = list(active).index(c_idx)  # position of the contact in the active set (specification side)
                    pf = PF[f0 : f0 + nf]
                    k.prove_le(f"friction percussion of contact {c_idx} inside the disk of ITS normal percussion: |P_F|^2 <= (mu_{c_idx} P_N[{c_idx}])^2", pf @ pf, (sysm.mus[c_idx] * PN[jn]) ** 2)
                    f0 += nf
            k.prove("every active friction direction is projected", f0 == nFa)

    return c


for _layout, _active in (((0, 2), (0, 1)), ((2, 2), (1,)), ((1, 0, 2), (0, 1, 2)), ((1, 0, 2), (1, 2))):
    contract("C18", f"Moreau.prox[contacts {_layout}, active {_active}]", samples=0, replayable=False, timeout=60, max_paths=400, tiers=("quick", "thorough") if len(_layout) == 2 else ("thorough",))(_moreau_prox_multi(_layout, _active))


# --------------------------------------------------------------------------- the real System's impact-law combinations
@contract("C18", "System.xi_N, xi_F/Newton impact law per contact", samples=0, replayable=False, timeout=60)
def c_system_xi(k):
    """the stepping contracts above use the System callee contract's xi_N / xi_F; here the REAL System.xi_N / xi_F are
    executed on a real System holding two contacts with their own (symbolic, all different) restitution coefficients:
    normal rows combine g_N_dot with e_N, tangential rows combine gamma_F with e_F of the SAME contact"""
    if not k.sym:
        raise K.Reject("symbolic only")
    import cardillo.system as csys

    k.covers(csys.System.xi_N, csys.System.xi_F)
    memo = {}

    def atoms(tag, n, *args):
        key = (tag,) + tuple(tuple(S._coerce(e).uid for e in np.atleast_1d(a)) if not isinstance(a, float) else a for a in args)
        if key not in memo:
            memo[key] = S.symarray(f"{tag}@{len(memo)}_", n)
        return memo[key].copy()

    class Body:
        def __init__(self, name):
            self.name, self.nq, self.nu = name, 2, 2
            self.q0, self.u0 = np.zeros(2), np.zeros(2)

    class Contact:
        def __init__(self, name, body):
            self.name, self.body = name, body
            self.nla_N, self.nla_F = 1, 2
            self.e_N, self.e_F = S.symarray(f"eN_{name}", 1), S.symarray(f"eF_{name}", 2)
            self.friction_laws = []

        def assembler_callback(self):
            self.qDOF, self.uDOF = self.body.my_qDOF, self.body.my_uDOF

        def g_N(self, t, q):
            return atoms(f"gN_{self.name}", 1, t, q)

        def g_N_dot(self, t, q, u):
            return atoms(f"gNd_{self.name}", 1, t, q, u)

        def gamma_F(self, t, q, u):
            return atoms(f"gF_{self.name}", 2, t, q, u)

    with npshim.active(True), k.spec():
        sysm = csys.System()
        b1, b2 = Body("b1"), Body("b2")
        c1, c2 = Contact("c1", b1), Contact("c2", b2)
        sysm.add(b1, c1, b2, c2)
        saved = csys.consistent_initial_conditions
        csys.consistent_initial_conditions = lambda system, *a_, **kw: (system.t0, system.q0, system.u0, None, None, None, None, None, None, None)
        try:
            sysm.assemble()
        finally:
            csys.consistent_initial_conditions = saved
        tp, tq = 0.25, 0.5
        qa, qb, ua, ub = S.symarray("q_pre", sysm.nq), S.symarray("q_post", sysm.nq), S.symarray("u_pre", sysm.nu), S.symarray("u_post", sysm.nu)
        xiN = sysm.xi_N(tp, tq, qa, qb, ua, ub)
        xiF = sysm.xi_F(tp, tq, qa, qb, ua, ub)
        k.prove("one normal row per contact, two tangential rows per contact", len(xiN) == 2 and len(xiF) == 4)
        for c in (c1, c2):
            k.prove_eq(f"System.e_N holds contact {c.name}'s restitution coefficient at its own la_NDOF (Moreau reads it there)", np.asarray(sysm.e_N, dtype=object)[c.la_NDOF], c.e_N)
            k.prove_eq(f"System.e_F holds contact {c.name}'s coefficients at its own la_FDOF", np.asarray(sysm.e_F, dtype=object)[c.la_FDOF], c.e_F)
            k.prove_eq(f"xi_N of contact {c.name} = g_N_dot(post) + e_N g_N_dot(pre) with its own e_N", xiN[c.la_NDOF], c.g_N_dot(tq, qb[c.qDOF], ub[c.uDOF]) + c.e_N * c.g_N_dot(tp, qa[c.qDOF], ua[c.uDOF]))
            k.prove_eq(f"xi_F of contact {c.name} = gamma_F(post) + e_F gamma_F(pre) with its own e_F", xiF[c.la_FDOF], c.gamma_F(tq, qb[c.qDOF], ub[c.uDOF]) + c.e_F * c.gamma_F(tp, qa[c.qDOF], ua[c.uDOF]))
