"""C16 - Consistent initial conditions solve the initial equations of motion.

`cardillo.solver._base.consistent_initial_conditions` is executed symbolically against the
System callee contract (contracts/sysstub.py: every System quantity an uninterpreted
function of its arguments + the structural relations proved in C04-C14) and the assumed
contract of the sparse linear solver (A x = b).  Its fixed-point loop is cut at the
invariant `converged_fixed_point is False` (vk/loopcut.py), so the obligations hold for
every number of iterations:

  no closed contact   the returned u_dot0, la_g0, la_gamma0, la_c0 satisfy
                        M u_dot = h + W_tau la_tau + W_c la_c + W_g la_g + W_gamma la_gamma   (exactly)
                        g_ddot = 0, gamma_dot = 0
  closed contact      the linear system solved in the converging iteration is the equations of motion
                        with the returned contact forces; la_N >= 0; friction force inside the Coulomb
                        disk; if the last projection left the contact forces unchanged (fixed point):
                        0 <= la_N  _|_  g_N_ddot >= 0
  rejection           every path that returns has |g|, |g_dot|, |gamma|, |g_S| <= atol, g_N >= -atol and
                        g_N_dot >= -atol on closed contacts (position/velocity level consistency)
  exhaustion          a fixed-point loop that does not converge raises (also C21)

Bounded stand-in (native): real mechanisms with joints, force laws, actuators, compliance
and resting / sliding contacts; consistent states give residual-free initial accelerations,
deliberately inconsistent ones are rejected.
"""

import warnings

import numpy as np

import cardillo.solver._base as base
from cardillo.solver import SolverOptions
from contracts.sysstub import Lin, SysStub, patched
from vk import kit as K
from vk import loopcut, npshim
from vk import sym as S
from vk.registry import bounded, contract, static

LEVEL = "proof"
TRUSTED = [
    "System callee contract (contracts/sysstub.py): uninterpreted functions of the arguments with the affine-in-velocity/acceleration structure proved in C04-C06, C11, C14",
    "assumed contract of scipy's splu/spsolve: A x = b; estimate_prox_parameter > 0 (C27)",
    "loop cut (vk/loopcut.py): AST rewrite of the current source dropping only the back edge; termination not proved",
    "the equations of motion hold exactly for the iterate x1 of the converging iteration; the function returns the previous iterate x0 with ||x1 - x0||_inf < fixed_point_atol (stated, not a finding)",
]
EXPLANATION = "loop-cut symbolic execution of the real consistent_initial_conditions against the System callee contract; QF_NRA obligations; bounded native mechanisms"

ATOL = base.IS_CLOSE_ATOL


def _havoc(name, old):
    if old is None:
        return None
    if isinstance(old, np.ndarray) and (old.dtype == object or old.dtype.kind == "f"):
        return S.symarray(name + "_h", old.shape)
    if isinstance(old, (S.Sym, float, np.floating)):
        return S.var(name + "_h")
    return old


class _Helper(loopcut.Helper):
    def __init__(self, mode, k):
        super().__init__(mode)
        self.k = k
        self.prev = {}

    def at_entry(self, loc):
        self.k.prove("Inv at loop entry: not converged", loc["converged_fixed_point"] is False)

    def havoc(self, name, old):
        if name in ("i_fixed_point",):
            return 0
        if name == "converged_fixed_point":
            return False  # invariant
        v = _havoc(name, old)
        self.prev[name] = v.copy() if isinstance(v, np.ndarray) else v  # the loop body updates la_F1 in place
        return v

    def assume_inv(self, loc):
        if getattr(self, "extra_inv", None) is not None:
            self.extra_inv(loc, self.prev)

    def back_edge(self, loc):
        c = loc["converged_fixed_point"]
        self.k.prove("Inv at the back edge: not converged", (not bool(c)) if not isinstance(c, S.SymBool) else ~c)

    def element(self, it):
        return 0

    def last(self, it):
        return len(it) - 1


def _spec(sysm, lin, q0, u0):
    """matrix and right-hand side of the equations of motion on acceleration level, from the callee contract"""
    t0 = sysm.t0
    with npshim.active(True):
        M = sysm.M(t0, q0)
        Wg, Wgam = sysm.W_g(t0, q0), sysm.W_gamma(t0, q0)
        A = lin.bmat([[M, -Wg, -Wgam], [Wg.T, None, None], [Wgam.T, None, None]])
        f = sysm.h(t0, q0, u0) + sysm.W_c(t0, q0) @ sysm.la_c(t0, q0, u0) + sysm.W_tau(t0, q0) @ sysm.la_tau(t0, q0, u0)
        rhs_c = np.concatenate([-sysm.zeta_g(t0, q0, u0), -sysm.zeta_gamma(t0, q0, u0)])
    return np.asarray(A).view(np.ndarray), f, rhs_c


def _cic(mode, friction, nF=2, layout=None, both_closed=False):
    """layout = (1, 1): an OPEN frictional contact assembled before a CLOSED frictional one (one friction direction each):
    the index bookkeeping between the active sets and the global arrays is exercised"""

    def c(k):
        if not k.sym:
            raise K.Reject("symbolic only")
        k.covers(base.consistent_initial_conditions, base.compute_I_F)
        lin = Lin(k)
        # the frictional variant is kept small (one velocity, one bilateral constraint): the block structure is covered by the frictionless one
        sysm = SysStub(k, friction=friction, sizes=dict(nq=1, nu=1, nla_gamma=0, nla_c=0, nla_tau=1, nla_F=nF) if friction else None, layout=layout)
        opts = SolverOptions()
        opts.fixed_point_atol = S.var("fp_atol")
        k.assume(opts.fixed_point_atol > 0)

        def prox_par(alpha, W, M):
            W = np.asarray(W, dtype=object)
            r = sysm.fn("prox_r", W.shape[1], *[x for x in W.ravel()])
            for v in np.atleast_1d(r):
                k.axiom(v > 0, "estimate_prox_parameter returns positive numbers (C27)")
            return r

        if mode != "entry":
            # the loop is only reachable with a closed, persistent contact (B_N non-empty): fix that case up front
            # instead of re-discovering it by forking (all other cases are covered by the `entry` contract)
            qc, uc = sysm.step_callback(sysm.t0, sysm.q0, sysm.u0)
            with npshim.active(True):
                closed = list(sysm.g_N(sysm.t0, qc)) + list(sysm.g_N_dot(sysm.t0, qc, uc))
                if layout is not None and not both_closed:
                    k.assume(sysm.g_N(sysm.t0, qc)[0] > 1)  # contact 0 is open
                    closed = [sysm.g_N(sysm.t0, qc)[1], sysm.g_N_dot(sysm.t0, qc, uc)[1]]
                if both_closed:
                    gF0 = sysm.gamma_F(sysm.t0, qc, uc)
                    k.assume(gF0[0] > 1)  # contact 0 slides
                    k.assume(S._coerce(gF0[1]) == 0)  # contact 1 sticks
                for v in closed:
                    k.assume(v <= ATOL)
                    k.assume(v >= -ATOL)
        helper = _Helper(mode, k)
        if both_closed:
            # this variant is about the friction projection of two closed contacts; to keep the number of paths small it is
            # restricted to states that pass the final consistency checks (their rejection is proved by the other variants)
            # and to contacts that both carry a normal force (the Signorini branches are proved by the other variants)
            def extra_inv(loc, prev):
                with npshim.active(True):
                    ud = prev["x0"][: sysm.nu]
                    for v in list(sysm.g(sysm.t0, qc)) + list(sysm.g_dot(sysm.t0, qc, uc)) + list(sysm.g_ddot(sysm.t0, qc, uc, ud)):
                        k.assume(v <= ATOL)
                        k.assume(v >= -ATOL)
                    gNdd = sysm.g_N_ddot(sysm.t0, qc, uc, prev["x1"][: sysm.nu])
                    r = sysm.fn("prox_r", 2, *[x for x in np.asarray(sysm.W_N(sysm.t0, qc), dtype=object).ravel()])
                    for i in range(2):
                        k.assume(S._coerce(r[i] * gNdd[i] - prev["la_N1"][i]) < 0)

            helper.extra_inv = extra_inv
        run = loopcut.cut(base.consistent_initial_conditions, loop=0)
        k.loop_info = run.info
        printed = []
        with patched(base, bmat=lin.bmat, splu=lin.splu, estimate_prox_parameter=prox_par, print=lambda *a, **kw: printed.append(a)):
            try:
                if mode == "exhausted":
                    raised = None
                    try:
                        run(helper, sysm, options=opts)
                    except AssertionError as e:
                        raised = e
                    if not helper.prev:
                        raise K.PathInfeasible()  # the loop was not reached on this path
                    k.prove("exhausted fixed-point loop raises", raised is not None)
                    return
                ret = run(helper, sysm, options=opts)
            except loopcut.Stop:
                return
            except AssertionError:
                # a rejected initial state: allowed outcome (the rejection clause is proved on the returning paths)
                k.run.exec_discharged.append(k._name("rejecting path raises AssertionError"))
                return
        if mode == "entry" and helper.prev:
            return
        t0, q0, u0, q_dot0, u_dot0, la_g0, la_gamma0, la_c0, la_N0, la_F0 = ret
        A, f, rhs_c = _spec(sysm, lin, q0, u0)
        nu = sysm.nu
        in_loop = bool(helper.prev)
        with npshim.active(True):
            # ---- rejection clause (holds on every returning path)
            for nm, val in (("g", sysm.g(t0, q0)), ("g_dot", sysm.g_dot(t0, q0, u0)), ("gamma", sysm.gamma(t0, q0, u0))):
                for i, v in enumerate(np.atleast_1d(val)):
                    k.prove_le(f"returning path: {nm}[{i}] <= atol", v, ATOL)
                    k.prove_le(f"returning path: {nm}[{i}] >= -atol", -ATOL, v)
            gN = sysm.g_N(t0, q0)
            gNd = sysm.g_N_dot(t0, q0, u0)
            for i in range(sysm.nla_N):
                k.prove_le(f"returning path: no penetration g_N[{i}] >= -atol", -ATOL, gN[i])
                k.prove(f"returning path: closed contact {i} does not approach", (S._coerce(gN[i]) > ATOL) | (S._coerce(gNd[i]) >= -ATOL))
            # ---- constraint rows
            k.prove_eq("g_ddot(t0, q0, u0, u_dot0) = 0", sysm.g_ddot(t0, q0, u0, u_dot0), np.zeros(sysm.nla_g), tol=1e-7) if not in_loop else None
            k.prove_eq("la_c0 = la_c(t0, q0, u0)", la_c0, sysm.la_c(t0, q0, u0))
            k.prove_eq("q_dot0 = q_dot(t0, q0, u0)", q_dot0, sysm.q_dot(t0, q0, u0))
            if not in_loop:
                res = sysm.M(t0, q0) @ u_dot0 - f - sysm.W_g(t0, q0) @ la_g0 - sysm.W_gamma(t0, q0) @ la_gamma0
                k.prove_eq("equations of motion (no closed contact): M u_dot = h + W_tau la_tau + W_c la_c + W_g la_g + W_gamma la_gamma", res, np.zeros(nu))
                k.prove_eq("gamma_dot(t0, q0, u0, u_dot0) = 0", sysm.gamma_dot(t0, q0, u0, u_dot0), np.zeros(sysm.nla_gamma))
                k.prove_eq("no closed contact: la_N0 = 0", la_N0, np.zeros(sysm.nla_N))
                k.prove_eq("no closed contact: la_F0 = 0", la_F0, np.zeros(sysm.nla_F))
                return
            # ---- converging iteration of the contact loop
            A_used, x1, b_used = lin.solves[-1]
            k.prove_eq("matrix of the solved system = [[M, -W_g, -W_gamma], [W_g^T, 0, 0], [W_gamma^T, 0, 0]]", A_used, A)
            WN, WF = sysm.W_N(t0, q0), sysm.W_F(t0, q0)
            b_spec = np.concatenate([f + WN @ la_N0 + (WF @ la_F0 if sysm.nla_F else 0), rhs_c])
            k.prove_eq("right-hand side of the solved system = h + W_tau la_tau + W_c la_c + W_N la_N0 + W_F la_F0 ; -zeta_g ; -zeta_gamma", b_used, b_spec)
            diff = x1[:nu] - u_dot0
            for i in range(nu):
                k.prove_lt(f"returned u_dot0[{i}] within fixed_point_atol of the solved iterate (upper)", diff[i], opts.fixed_point_atol)
                k.prove_lt(f"returned u_dot0[{i}] within fixed_point_atol of the solved iterate (lower)", -diff[i], opts.fixed_point_atol)
            for i in range(sysm.nla_N):
                k.prove_le(f"la_N0[{i}] >= 0", 0, la_N0[i])
            if sysm.nla_F and layout is None:
                k.prove_le("friction force inside the Coulomb disk: |la_F0|^2 <= (mu la_N0)^2", la_F0 @ la_F0, (sysm.mu * la_N0[0]) ** 2)
            if both_closed:
                gF = sysm.gamma_F(t0, q0, u0)
                gFd = sysm.gamma_F_dot(t0, q0, u0, helper.prev["x1"][:nu])  # slip acceleration the projection was evaluated with
                for i in (0, 1):
                    k.prove_le(f"contact {i}: friction force inside ITS Coulomb disk", la_F0[i] * la_F0[i], (sysm.mus[i] * la_N0[i]) ** 2)
                fixed0 = S._coerce(la_F0[0]) == S._coerce(helper.prev["la_F1"][0])
                fixed1 = S._coerce(la_F0[1]) == S._coerce(helper.prev["la_F1"][1])
                k.prove("sliding contact, projection fixed point => friction opposes ITS slip with |la_F| = mu la_N", fixed0.implies((S._coerce(la_F0[0] * gF[0]) <= 0) & (S._coerce(la_F0[0] * la_F0[0]) == S._coerce((sysm.mus[0] * la_N0[0]) ** 2))))
                accel = (S._coerce(gFd[1]) > ATOL) | (S._coerce(gFd[1]) < -ATOL)
                k.prove("STICKING contact next to a sliding one, projection fixed point, slip acceleration != 0 => friction opposes the slip acceleration with |la_F| = mu la_N (Coulomb on acceleration level)", (fixed1 & accel).implies((S._coerce(la_F0[1] * gFd[1]) <= 0) & (S._coerce(la_F0[1] * la_F0[1]) == S._coerce((sysm.mus[1] * la_N0[1]) ** 2))))
            elif layout is not None:
                k.prove_eq("the open contact carries no normal force", la_N0[0], 0)
                k.prove_eq("the open contact carries no friction force", la_F0[0], 0)
                k.prove_le("closed contact: friction force inside ITS Coulomb disk |la_F|^2 <= (mu_1 la_N[1])^2", la_F0[1] * la_F0[1], (sysm.mus[1] * la_N0[1]) ** 2)
                # slip of the closed contact itself decides between stick and slip and gives the direction
                gF = sysm.gamma_F(t0, q0, u0)
                slipping = (S._coerce(gF[1]) > ATOL) | (S._coerce(gF[1]) < -ATOL)
                fixedF = S._coerce(la_F0[1]) == S._coerce(helper.prev["la_F1"][0])
                k.prove("closed sliding contact, projection fixed point => friction force opposes ITS slip", (slipping & fixedF).implies(S._coerce(la_F0[1] * gF[1]) <= 0))
                k.prove("closed sliding contact, projection fixed point, la_N >= 0 => |la_F| = mu_1 la_N[1]", (slipping & fixedF).implies(S._coerce(la_F0[1] * la_F0[1]) == S._coerce((sysm.mus[1] * la_N0[1]) ** 2)))
            # fixed point of the projection: complementarity on acceleration level
            la_prev = helper.prev["la_N1"]
            ud_prev = helper.prev["x1"][:nu]
            gNdd = sysm.g_N_ddot(t0, q0, u0, ud_prev)
            active = list(range(sysm.nla_N)) if (layout is None or both_closed) else [1]  # global indices of the closed contacts; la_prev is indexed by position in this list
            fixed = S.conj([S._coerce(la_N0[i]) == la_prev[j] for j, i in enumerate(active)])
            for i in active:
                k.prove(f"projection fixed point => g_N_ddot[{i}] >= 0", fixed.implies(S._coerce(gNdd[i]) >= 0))
                k.prove(f"projection fixed point => la_N[{i}] g_N_ddot[{i}] = 0", fixed.implies(S._coerce(la_N0[i] * gNdd[i]) == 0))

    return c


for _mode in ("entry", "iter", "exhausted"):
    contract("C16", f"consistent_initial_conditions[friction=False]/{_mode}", samples=0, replayable=False, timeout=60, max_paths=4000)(_cic(_mode, False))
    # one friction direction in the quick tier, the Coulomb disk (two directions) in the thorough tier
    contract("C16", f"consistent_initial_conditions[friction=True,directions=1]/{_mode}", samples=0, replayable=False, timeout=60, max_paths=4000)(_cic(_mode, True, 1))
    contract("C16", f"consistent_initial_conditions[friction=True,directions=2]/{_mode}", samples=0, replayable=False, timeout=60, max_paths=6000, tiers=("thorough",))(_cic(_mode, True, 2))
contract("C16", "consistent_initial_conditions[open frictional contact before a closed one]/iter", samples=0, replayable=False, timeout=60, max_paths=6000)(_cic("iter", True, 1, layout=(1, 1)))
contract("C16", "consistent_initial_conditions[sliding contact next to a sticking one]/iter", samples=0, replayable=False, timeout=60, max_paths=20000, tiers=("thorough",))(_cic("iter", True, 1, layout=(1, 1), both_closed=True))


# --------------------------------------------------------------------------- bounded native mechanisms
def _residuals(system):
    """recomputed by the harness from the assembled system: equations of motion and acceleration-level conditions"""
    t0, q0, u0 = system.t0, system.q0, system.u0
    q0, u0 = system.step_callback(t0, q0.copy(), u0.copy())
    ud, lag, lagam, lac, laN, laF = system.u_dot0, system.la_g0, system.la_gamma0, system.la_c0, system.la_N0, system.la_F0
    M = system.M(t0, q0).toarray()
    rhs = (
        system.h(t0, q0, u0)
        + system.W_g(t0, q0) @ lag
        + system.W_gamma(t0, q0) @ lagam
        + system.W_c(t0, q0) @ lac
        + system.W_tau(t0, q0) @ system.la_tau(t0, q0, u0)
        + system.W_N(t0, q0) @ laN
        + system.W_F(t0, q0) @ laF
    )
    out = {"equations of motion": np.max(np.abs(M @ ud - rhs), initial=0.0) / (1 + np.max(np.abs(rhs), initial=0.0))}
    out["g_ddot = 0"] = np.max(np.abs(system.g_ddot(t0, q0, u0, ud)), initial=0.0)
    out["gamma_dot = 0"] = np.max(np.abs(system.gamma_dot(t0, q0, u0, ud)), initial=0.0)
    if system.nla_c:
        out["compliance c(q, u, la_c) = 0"] = np.max(np.abs(system.c(t0, q0, u0, lac)), initial=0.0)
    return out


def _contact_checks(system, tol=1e-6):
    t0, q0, u0 = system.t0, system.q0, system.u0
    out = {}
    gN = system.g_N(t0, q0)
    gNd = system.g_N_dot(t0, q0, u0)
    gNdd = system.g_N_ddot(t0, q0, u0, system.u_dot0)
    gF = system.gamma_F(t0, q0, u0)
    laN, laF = system.la_N0, system.la_F0
    for contr in system.get_contribution_list("g_N"):
        for i in contr.la_NDOF:
            closed = abs(gN[i]) <= 1e-8 and abs(gNd[i]) <= 1e-8
            if not closed:
                out[f"open/lifting contact {i} carries no force"] = abs(laN[i])
                continue
            out[f"closed contact {i}: la_N >= 0"] = max(0.0, -laN[i])
            out[f"closed contact {i}: g_N_ddot >= 0"] = max(0.0, -gNdd[i])
            out[f"closed contact {i}: la_N g_N_ddot = 0"] = abs(laN[i] * gNdd[i]) / (1 + abs(laN[i]))
        if hasattr(contr, "friction_laws"):
            for i_N, i_F, res in contr.friction_laws:
                if len(i_N) == 0:
                    continue
                n = contr.la_NDOF[i_N][0]
                f = contr.la_FDOF[i_F]
                closed = abs(gN[n]) <= 1e-8 and abs(gNd[n]) <= 1e-8
                if not closed:
                    out[f"friction of open contact {n} vanishes"] = float(np.max(np.abs(laF[f]), initial=0.0))
                    continue
                mu = res.r
                out[f"contact {n}: |la_F| <= mu la_N"] = max(0.0, float(np.linalg.norm(laF[f]) - mu * laN[n]))
                slip = np.linalg.norm(gF[f])
                if slip > 1e-6:
                    out[f"sliding contact {n}: la_F = -mu la_N gamma_F/|gamma_F|"] = float(np.linalg.norm(laF[f] + mu * laN[n] * gF[f] / slip)) / (1 + mu * laN[n])
                else:
                    # sticking contact: Coulomb's law on acceleration level - it stays stuck (gamma_F_dot = 0, force inside the
                    # disk) or starts to slide against the maximal friction force
                    gFd = system.gamma_F_dot(t0, q0, u0, system.u_dot0)[f]
                    acc = float(np.linalg.norm(gFd))
                    if acc > 1e-6:
                        out[f"sticking contact {n} starts to slide: la_F = -mu la_N gamma_F_dot/|gamma_F_dot|"] = float(np.linalg.norm(laF[f] + mu * laN[n] * gFd / acc)) / (1 + mu * laN[n])
    return out


def _scenes(rng):
    from cardillo import System
    from cardillo.actuators import Motor
    from cardillo.constraints import Revolute, RigidConnection, Spherical
    from cardillo.contacts import Sphere2Plane
    from cardillo.discrete import Frame, PointMass, RigidBody
    from cardillo.discrete import Sphere as Ball
    from cardillo.force_laws import KelvinVoigtElement as SpringDamper
    from cardillo.forces import Force
    from cardillo.math.rotations import Exp_SO3_quat

    def pendulum(actuated, compliance=False, inconsistent=None):
        sysm = System()
        phi = rng.uniform(-1.0, 1.0)
        om = rng.uniform(-2.0, 2.0)
        L = rng.uniform(0.5, 1.5)
        P = np.array([np.cos(phi / 2), 0, 0, np.sin(phi / 2)])
        A = Exp_SO3_quat(P)
        r = A @ np.array([L, 0, 0])
        Om = np.array([0, 0, om])
        v = A @ np.cross(Om, np.array([L, 0, 0]))
        q0 = np.concatenate([r, P])
        u0 = np.concatenate([v, Om])
        if inconsistent == "position":
            q0[0] += 0.1
        if inconsistent == "velocity":
            u0[1] += 0.3
        rb = RigidBody(rng.uniform(0.5, 2.0), np.diag(rng.uniform(0.1, 0.4, 3)), q0=q0, u0=u0)
        joint = Revolute(sysm.origin, rb, axis=2, r_OJ0=np.zeros(3), angle0=phi)
        parts = [rb, joint, Force(np.array([0, -9.81 * rb.mass, 0]), rb)]
        if actuated:
            parts.append(Motor(joint, rng.uniform(1.0, 5.0)))
        if compliance:
            parts.append(SpringDamper(joint, rng.uniform(1, 5), rng.uniform(0.1, 1), l_ref=0.0, compliance_form=True))
        sysm.add(*parts)
        return sysm

    def balls(kinds, mu=0.3):
        """kinds: list of 'open' | 'rest' | 'pushed' (at rest, pushed sideways with less than the friction limit: friction has
        to hold it) | 'slide' | 'penetrating' | 'approaching'"""
        sysm = System()
        parts = []
        for i, kind in enumerate(kinds):
            R = rng.uniform(0.1, 0.3)
            x = 2.0 * i
            z = {"open": R + 0.5, "rest": R, "pushed": R, "slide": R, "penetrating": R - 0.05, "approaching": R}[kind]
            v = np.zeros(3)
            if kind == "slide":
                v[:2] = rng.normal(size=2)
            if kind == "approaching":
                v[2] = -0.5
            m = rng.uniform(0.5, 2.0)
            body = Ball(RigidBody)(radius=R, density=m / (4 / 3 * np.pi * R**3), subdivisions=1, q0=np.array([x, 0, z, 1, 0, 0, 0.0]), u0=np.concatenate([v, np.zeros(3)]), name=f"ball{i}")
            parts += [body, Force(np.array([0, 0, -9.81 * m]), body, name=f"grav{i}"), Sphere2Plane(sysm.origin, body, mu=mu, r=R, e_N=0, e_F=0, name=f"contact{i}")]
            if kind == "pushed":
                parts.append(Force(0.5 * mu * 9.81 * m * np.array([np.cos(0.7 * i + 0.3), np.sin(0.7 * i + 0.3), 0.0]), body, name=f"push{i}"))
        sysm.add(*parts)
        return sysm

    yield "pendulum with gravity", lambda: pendulum(False), True
    yield "pendulum with motor (actuator force)", lambda: pendulum(True), True
    yield "pendulum with motor and spring-damper in compliance form", lambda: pendulum(True, True), True
    yield "ball resting on a plane (stick)", lambda: balls(["rest"]), True
    yield "ball sliding on a plane", lambda: balls(["slide"]), True
    yield "open contact listed before a sliding one", lambda: balls(["open", "slide"]), True
    yield "sliding contact listed before an open one and a resting one", lambda: balls(["slide", "open", "rest"]), True
    yield "sliding contact next to a contact that friction has to hold at rest", lambda: balls(["slide", "pushed"]), True
    yield "contact held at rest by friction next to a sliding one and an open one", lambda: balls(["pushed", "open", "slide"]), True
    yield "joint violated on position level", lambda: pendulum(False, inconsistent="position"), False
    yield "joint violated on velocity level", lambda: pendulum(False, inconsistent="velocity"), False
    yield "penetrating contact", lambda: balls(["penetrating"]), False
    yield "closed contact with approaching velocity", lambda: balls(["rest", "approaching"]), False


@bounded("C16", "native/real-mechanisms")
def b_native(tier, seed):
    import contextlib
    import io

    rng = np.random.default_rng(seed + 160)
    cases, failures = 0, []
    reps = 2 if tier == "quick" else 6
    for _ in range(reps):
        for name, build, consistent in _scenes(rng):
            cases += 1
            try:
                with warnings.catch_warnings(), contextlib.redirect_stdout(io.StringIO()):
                    warnings.simplefilter("ignore")
                    sysm = build()
                    err = None
                    try:
                        sysm.assemble()
                    except AssertionError as e:
                        err = e
            except Exception as e:  # noqa: BLE001
                failures.append({"what": f"{name}: building/assembling raised {type(e).__name__}", "input": {"seed": seed}, "detail": str(e)[:300]})
                continue
            if not consistent:
                if err is None:
                    failures.append({"what": f"{name}: inconsistent initial state is not rejected", "input": {"seed": seed}, "detail": ""})
                continue
            if err is not None:
                failures.append({"what": f"{name}: consistent initial state rejected", "input": {"seed": seed}, "detail": str(err)[:200]})
                continue
            checks = dict(_residuals(sysm))
            checks.update(_contact_checks(sysm))
            for what, val in checks.items():
                cases += 1
                if not val <= 1e-6:
                    failures.append({"what": f"{name}: {what}", "input": {"seed": seed}, "detail": f"residual {val:.3e}"})
    seen, out = set(), []
    for f in failures:
        if f["what"] not in seen:
            seen.add(f["what"])
            out.append(f)
    return {"cases": cases, "distinct": cases, "failures": out[:12], "bound": f"{reps} random instances of 13 real mechanisms (pendulum with joint/actuator/compliance, balls on a plane: open, resting, sliding, penetrating, approaching), residual tolerance 1e-6"}


# --------------------------------------------------------------------------- several contacts: index bookkeeping
@static("C16", "compute_I_F/exhaustive")
def s_compute_I_F(tier):
    from contracts.multicontact import exhaustive_compute_I_F

    return exhaustive_compute_I_F(tier)
