"""C05 - Joint constraints obey the kinematic hierarchy.

Client side of the kinematic-subsystem contract: the real joint classes
(PositionOrientationBase via Spherical/RigidConnection/Revolute,
ProjectedPositionOrientationBase via Prismatic/Cylindrical/Planarizer,
FixedDistance) and the real glue `auxiliary_functions` are executed against
stub subsystems (contracts/subsys.py).  Joint placement (B1_r_P1J0, B2_r_P2J0,
A_K1J0, A_K2J0) are fresh symbolic constants, so every placement is covered;
the state (q, u, u_dot, la_g, t) is symbolic and need not satisfy the joint.
Pairings (rigid bodies, point masses, frames, rod cross-sections) are covered
by transitivity through C04 / C11 (provider side).

"Satisfied where defined" is proved on real RigidBody / PointMass / Frame
pairs through the real `assembler_callback` with symbolic q0.
"""

import numpy as np

import cardillo.constraints._base as cb
from cardillo.constraints import Cylindrical, FixedDistance, Planarizer, Prismatic, Revolute, RigidConnection, Spherical
from cardillo.discrete.frame import Frame
from cardillo.discrete.point_mass import PointMass
from cardillo.discrete.rigid_body import RigidBody
import cardillo.math.rotations as rot
from contracts.subsys import stub_pair
from vk import kit as K
from vk import sym as S
from vk.registry import contract

LEVEL = "proof"
TRUSTED = [
    "kinematic-subsystem contract (contracts/subsys.py): proved for RigidBody/PointMass/Frame in C04 and for rod cross-sections in C11; joints are verified against it, pairings follow by transitivity",
    "g_q_T_mu_q is numerical by declaration (it warns) and is out of scope",
]
EXPLANATION = "client side of the kinematic-subsystem contract; SMT obligations from symbolic execution of the real joint code against stub subsystems"

JOINTS = {
    "Spherical": (lambda s1, s2, ax: Spherical(s1, s2, r_OJ0=None), (None,), cb.PositionOrientationBase),
    "RigidConnection": (lambda s1, s2, ax: RigidConnection(s1, s2), (None,), cb.PositionOrientationBase),
    "Revolute": (lambda s1, s2, ax: Revolute(s1, s2, axis=ax), (0, 1, 2), cb.PositionOrientationBase),
    "Prismatic": (lambda s1, s2, ax: Prismatic(s1, s2, axis=ax), (0, 1, 2), cb.ProjectedPositionOrientationBase),
    "Cylindrical": (lambda s1, s2, ax: Cylindrical(s1, s2, axis=ax), (0, 1, 2), cb.ProjectedPositionOrientationBase),
    "Planarizer": (lambda s1, s2, ax: Planarizer(s1, s2, axis=ax), (0, 1, 2), cb.ProjectedPositionOrientationBase),
}


def _glue(joint, k):
    B1 = S.symarray("B1", 3)
    B2 = S.symarray("B2", 3)
    AK1 = S.symarray("AK1", (3, 3))
    AK2 = S.symarray("AK2", (3, 3))
    cb.concatenate_qDOF(joint)
    cb.concatenate_uDOF(joint)
    cb.auxiliary_functions(joint, B1, B2, AK1, AK2)
    return B1, B2, AK1, AK2


def _hierarchy(k, joint, pair):
    t, q, u, ud = pair.t, pair.q, pair.u, pair.u_dot
    la = k.reals("la", joint.nla_g)
    A1, A2 = np.atleast_1d, np.atleast_2d
    gd = A1(joint.g_dot(t, q, u))
    k.prove_eq("g_dot=D_t g", gd, pair.D_t(lambda t_, q_: joint.g(t_, q_)))
    W = joint.W_g(t, q)
    dgd_du = pair.d_u(lambda t_, q_, u_: joint.g_dot(t_, q_, u_))
    k.prove_eq("W_g=(d g_dot/du)^T", W, dgd_du.T)
    k.prove_eq("g_dot_u=d g_dot/du", joint.g_dot_u(t, q), dgd_du)
    k.prove_eq("g_ddot=D_t g_dot", A1(joint.g_ddot(t, q, u, ud)), pair.D_t(lambda t_, q_, u_: joint.g_dot(t_, q_, u_)))
    k.prove_eq("g_q=d g/dq", A2(joint.g_q(t, q)), pair.d_q(lambda t_, q_: joint.g(t_, q_)))
    k.prove_eq("g_dot_q=d g_dot/dq", A2(joint.g_dot_q(t, q, u)), pair.d_q(lambda t_, q_, u_: joint.g_dot(t_, q_, u_)))
    la_arg = la[0] if isinstance(joint, FixedDistance) else la
    k.prove_eq("Wla_g_q=d(W_g la)/dq", joint.Wla_g_q(t, q, la_arg), pair.d_q(lambda t_, q_: joint.W_g(t_, q_) @ la))


def _stub_contract(jname, axis, kinds):
    make, _, base = JOINTS[jname]

    def c(k):
        if not k.sym:
            raise K.Reject("stub contract is symbolic only")
        k.covers(cb.auxiliary_functions, cb.concatenate_qDOF, cb.concatenate_uDOF, base.g, base.g_dot, base.g_ddot, base.W_g, base.g_q, base.g_dot_q, base.g_dot_u, base.Wla_g_q)
        pair = stub_pair(kinds)
        joint = make(pair.s1, pair.s2, axis)
        _glue(joint, k)
        _hierarchy(k, joint, pair)

    return c


def _real_pair_run(jname, axis, kinds):
    """The same hierarchy obligations on REAL subsystems (conc: finite differences)."""

    def c(k):
        t = k.real("t")
        subs = []
        for kind, tag in zip(kinds, ("a", "b")):
            s, q0 = _real_sub(k, kind, tag, 0.0)
            if kind == "rigid":
                st = (k.reals(tag + "q", 7, sample=lambda r: np.concatenate([r.normal(size=3), r.normal(size=4)])), k.reals(tag + "u", 6), k.reals(tag + "ud", 6))
                k.assume(st[0][3:] @ st[0][3:] > 1e-2)
            elif kind == "point":
                st = (k.reals(tag + "q", 3), k.reals(tag + "u", 3), k.reals(tag + "ud", 3))
            else:
                st = (np.array([]), np.array([]), np.array([]))
            subs.append((s, st))
        (s1, st1), (s2, st2) = subs
        if jname == "FixedDistance":
            joint = FixedDistance(s1, s2, B1_r_P1J1=k.reals("B1", 3) if kinds[0] != "point" else np.zeros(3), B2_r_P2J2=k.reals("B2", 3) if kinds[1] != "point" else np.zeros(3))
        else:
            joint = JOINTS[jname][0](s1, s2, axis)
            if kinds[0] == "point":
                joint.r_OJ0 = s1.q0[:3]
            elif kinds[1] == "point":
                joint.r_OJ0 = s2.q0[:3]
            else:
                joint.r_OJ0 = k.reals("rJ", 3)
        joint.assembler_callback()
        from contracts.subsys import RealPair

        pair = RealPair(k, s1, s2, t, st1[0], st1[1], st1[2], st2[0], st2[1], st2[2])
        _hierarchy(k, joint, pair)

    return c


def _witness(jname, axis, kinds_list):
    def w(rng, label):
        base = label.split("[")[0]
        for kinds in kinds_list:
            fn = _real_pair_run(jname, axis, kinds)
            for _ in range(6):
                r = K.run_conc(fn, "witness", rng=rng)
                if r is None:
                    continue
                kk, err = r
                for res in kk.results:
                    if res["label"] == base and not res["ok"]:
                        return {
                            "inputs": {a: float(b) for a, b in kk.values.items()},
                            "detail": f"real {kinds[0]}-{kinds[1]} pair, {jname} axis={axis}: '{base}' fails natively (finite differences), max scaled error {res['err']:.3e}",
                            "native_lhs": np.asarray(res["lhs"]).tolist(),
                            "native_rhs": np.asarray(res["rhs"]).tolist(),
                        }
        return None

    return w


_WK = {"Spherical": [("rigid", "rigid"), ("point", "rigid")], "FixedDistance": [("rigid", "rigid"), ("point", "point")]}

for _j, (_mk, _axes, _b) in JOINTS.items():
    for _ax in _axes:
        _tiers = ("quick", "thorough") if _ax in (None, 0) else ("thorough",)
        if _j == "Revolute" and _ax == 2:
            _tiers = ("quick", "thorough")
        _nm = f"{_j}" + (f"[axis={_ax}]" if _ax is not None else "")
        contract("C05", _nm + "/stub-pair", tiers=_tiers, samples=0, replayable=False, timeout=120, witness=_witness(_j, _ax, _WK.get(_j, [("rigid", "rigid"), ("frame", "rigid")])))(
            _stub_contract(_j, _ax, ("body", "body"))
        )

# pairings with subsystems without orientation / without coordinates (structure of the glue differs)
contract("C05", "Spherical/stub-point-body", samples=0, replayable=False, timeout=120, witness=_witness("Spherical", None, [("point", "rigid")]))(_stub_contract("Spherical", None, ("point", "body")))
contract("C05", "Spherical/stub-body-point", tiers=("thorough",), samples=0, replayable=False, timeout=120, witness=_witness("Spherical", None, [("rigid", "point")]))(_stub_contract("Spherical", None, ("body", "point")))
contract("C05", "Revolute[axis=1]/stub-frame-body", samples=0, replayable=False, timeout=120, witness=_witness("Revolute", 1, [("frame", "rigid")]))(_stub_contract("Revolute", 1, ("frame", "body")))
contract("C05", "Prismatic[axis=1]/stub-body-frame", samples=0, replayable=False, timeout=120, witness=_witness("Prismatic", 1, [("rigid", "frame"), ("rigid", "rigid")]))(_stub_contract("Prismatic", 1, ("body", "frame")))


def _fixed_distance(kinds):
    def c(k):
        if not k.sym:
            raise K.Reject("stub contract is symbolic only")
        k.covers(FixedDistance.g, FixedDistance.g_dot, FixedDistance.g_ddot, FixedDistance.W_g, FixedDistance.g_q, FixedDistance.g_dot_q, FixedDistance.g_dot_u, FixedDistance.Wla_g_q)
        pair = stub_pair(kinds)
        B1 = S.symarray("B1", 3)
        B2 = S.symarray("B2", 3)
        joint = FixedDistance(pair.s1, pair.s2, B1_r_P1J1=B1, B2_r_P2J2=B2)
        cb.concatenate_qDOF(joint)
        cb.concatenate_uDOF(joint)
        cb.auxiliary_functions(joint, B1, B2, np.eye(3), np.eye(3))
        joint.dist = S.var("dist")
        _hierarchy(k, joint, pair)

    return c


contract("C05", "FixedDistance/stub-pair", samples=0, replayable=False, timeout=120, witness=_witness("FixedDistance", None, [("rigid", "rigid")]))(_fixed_distance(("body", "body")))
contract("C05", "FixedDistance/stub-point-point", samples=0, replayable=False, timeout=120, witness=_witness("FixedDistance", None, [("point", "point")]))(_fixed_distance(("point", "point")))


# --------------------------------------------- satisfied where defined (real bodies, real assembler_callback)
class _Embedded:
    """A real RigidBody seen through a subsystem whose coordinates are a strict SUPERSET of what the point needs - what a
    rod is for a joint on one of its cross-sections: local_qDOF_P / local_uDOF_P select the body's coordinates out of
    q0 = (pre, body q0, post); every kinematic routine takes the LOCAL coordinates, as the rod's do."""

    def __init__(self, body, pre, post):
        self._body = body
        self._npre = len(pre)
        self.q0 = np.concatenate([pre, body.q0, post])
        self.u0 = np.zeros(body.nu + 3)
        self.nq, self.nu = len(self.q0), body.nu + 3

    def local_qDOF_P(self, xi=None):
        return np.arange(7) + self._npre

    def local_uDOF_P(self, xi=None):
        return np.arange(6) + 2

    def __getattr__(self, name):  # r_OP, A_IB, v_P, J_P, ... of the body (they are given local coordinates)
        return getattr(self.__dict__["_body"], name)


def _real_sub(k, kind, tag, t0):
    if kind == "embedded":
        body, q0 = _real_sub(k, "rigid", tag, t0)
        pre = k.reals(tag + "pre", 3)  # coordinates of other cross-sections, arbitrary
        post = k.reals(tag + "post", 2)
        s = _Embedded(body, pre, post)
        s.t0 = t0
        s.qDOF = np.arange(s.nq) + 100
        s.uDOF = np.arange(s.nu) + 50
        return s, q0
    if kind == "rigid":
        q0 = k.reals(tag + "q0", 7, sample=lambda r: np.concatenate([r.normal(size=3), r.normal(size=4)]))
        k.assume(q0[3:] @ q0[3:] > 0)
        s = RigidBody(1.0, np.eye(3), q0=np.zeros(7) + np.array([0, 0, 0, 1, 0, 0, 0.0]))
        s.q0 = q0
    elif kind == "point":
        q0 = k.reals(tag + "q0", 3)
        s = PointMass(1.0)
        s.q0 = q0
    else:
        r0 = k.reals(tag + "r0", 3)
        Ph = k.reals(tag + "Ph", 4)
        k.assume(Ph @ Ph > 0)
        s = Frame(r_OP=r0, A_IB=rot.Exp_SO3_quat(Ph))
        q0 = np.array([])
        s.q0 = q0
    s.t0 = t0
    s.qDOF = np.arange(len(q0))
    s.uDOF = np.arange(s.nu)
    return s, q0


def _defined(jname, axis, kinds, user_frame):
    make = JOINTS[jname][0] if jname in JOINTS else None

    def c(k):
        t0 = k.real("t0")
        s1, q10 = _real_sub(k, kinds[0], "a", t0)
        s2, q20 = _real_sub(k, kinds[1], "b", t0)
        if jname == "FixedDistance":
            B1 = k.reals("B1", 3)
            B2 = k.reals("B2", 3)
            joint = FixedDistance(s1, s2, B1_r_P1J1=B1 if kinds[0] != "point" else np.zeros(3), B2_r_P2J2=B2 if kinds[1] != "point" else np.zeros(3))
            k.covers(FixedDistance.assembler_callback, FixedDistance.g)
            # the constructor refuses coincident points: exclude them (requires)
            q0 = np.concatenate([q10, q20])
            # coincident points are rejected by the constructor (explicit ValueError): allowed outcome
            ok, _ = k.no_raise("assembler_callback returns or rejects coincident points", joint.assembler_callback, allowed=(ValueError,))
            if ok:
                k.prove_eq("g(t0,q0)=0", joint.g(t0, q0), 0, tol=1e-9)
            return
        joint = make(s1, s2, axis)
        k.covers(type(joint).assembler_callback, cb.PositionOrientationBase.assembler_callback, cb.ProjectedPositionOrientationBase.assembler_callback)
        if user_frame:
            # a point mass has no extent: a joint on it can only be located at the point (requires)
            joint.r_OJ0 = q10[:3] if kinds[0] == "point" else q20[:3] if kinds[1] == "point" else k.reals("rJ", 3)
            Pj = k.reals("Pj", 4)
            k.assume(Pj @ Pj > 0)
            joint.A_IJ0 = rot.Exp_SO3_quat(Pj)
        joint.assembler_callback()
        q0 = np.concatenate([q10, q20])
        k.prove_eq("g(t0,q0)=0", joint.g(t0, q0), np.zeros(joint.nla_g), tol=1e-9)

    return c


_DEF = [
    ("Spherical", None, ("rigid", "rigid"), True),
    ("Spherical", None, ("point", "rigid"), True),
    ("RigidConnection", None, ("rigid", "rigid"), False),
    ("RigidConnection", None, ("frame", "rigid"), True),
    ("Revolute", 2, ("rigid", "rigid"), True),
    ("Revolute", 0, ("frame", "rigid"), False),
    ("Prismatic", 0, ("rigid", "rigid"), True),
    ("Cylindrical", 1, ("rigid", "rigid"), True),
    ("Planarizer", 2, ("rigid", "frame"), True),
    ("FixedDistance", None, ("rigid", "rigid"), False),
    ("FixedDistance", None, ("point", "frame"), False),
    # a subsystem of which the point uses only part of the coordinates (a rod cross-section): first, second, both
    ("FixedDistance", None, ("embedded", "point"), False),
    ("FixedDistance", None, ("point", "embedded"), False),
    ("Spherical", None, ("embedded", "rigid"), True),
    ("RigidConnection", None, ("rigid", "embedded"), False),
    ("Revolute", 1, ("embedded", "embedded"), True),
    ("Prismatic", 2, ("frame", "embedded"), True),
]
for _j, _ax, _kinds, _uf in _DEF:
    contract("C05", f"{_j}/defined-satisfied[{_kinds[0]}-{_kinds[1]}{',user-frame' if _uf else ''}]", timeout=180, samples=2)(_defined(_j, _ax, _kinds, _uf))


# ------------------------------------------------------------------ bounded cross-check on real pairs
from vk.registry import bounded  # noqa: E402


@bounded("C05", "real-pairs/finite-difference-crosscheck")
def b_real_pairs(tier, seed):
    """Bounded stand-in (NOT proof): the same hierarchy on real RigidBody / PointMass / Frame
    pairs at random states with central differences; closes the loop stub -> real pairing."""
    rng = np.random.default_rng(seed + 5)
    combos = []
    for j, (_m, axes, _b) in JOINTS.items():
        for ax in axes:
            kinds = [("rigid", "rigid"), ("frame", "rigid"), ("rigid", "frame")]
            if j == "Spherical":
                kinds += [("point", "rigid"), ("point", "point"), ("frame", "point")]
            for kk in kinds:
                combos.append((j, ax, kk))
    for kk in [("rigid", "rigid"), ("point", "point"), ("point", "rigid"), ("frame", "point")]:
        combos.append(("FixedDistance", None, kk))
    n_pts = 1 if tier == "quick" else 5
    cases = 0
    failures = []
    for j, ax, kk in combos:
        fn = _real_pair_run(j, ax, kk)
        got = 0
        tries = 0
        while got < n_pts and tries < 20:
            tries += 1
            r = K.run_conc(fn, "bounded", rng=rng)
            if r is None:
                continue
            got += 1
            kit_, err = r
            cases += 1
            if err is not None:
                failures.append({"what": f"{j}[axis={ax}] {kk[0]}-{kk[1]}: raised {err[0]}", "input": {a: float(b) for a, b in kit_.values.items()}, "detail": err[1]})
                continue
            for res in kit_.results:
                if not res["ok"]:
                    failures.append({"what": f"{j}[axis={ax}] {kk[0]}-{kk[1]}: {res['label']}", "input": {a: float(b) for a, b in kit_.values.items()}, "detail": f"max scaled error {res['err']:.3e}"})
    return {"cases": cases, "distinct": cases, "failures": failures[:20], "bound": f"{len(combos)} joint x axis x pairing combinations, {n_pts} random state(s) each, central differences h=1e-6, tolerance 2e-4"}
