"""C12 - Rod material laws are hyperelastic with exact tangents.

Functions under contract: Simo1986.{__init__, potential, complementary_potential,
B_n, B_m, B_n_B_Gamma, B_n_B_Kappa, B_m_B_Gamma, B_m_B_Kappa} and the same for
Harsch2021 (cardillo/rods/_material_models.py).  Inputs: all strains and
reference strains in R^3, all positive stiffness vectors (symbolic).
"""

import numpy as np

import cardillo.rods._material_models as mm
from vk.registry import contract

LEVEL = "proof"
TRUSTED = []
EXPLANATION = "SMT obligations from symbolic execution of the real material-law methods; derivatives are the kit's symbolic derivative of the term returned by the real potential / force method"


def _inputs(k, nonzero_gamma=False):
    Ei = k.reals("E", 3, sample=lambda r: r.uniform(0.5, 5, 3))
    Fi = k.reals("F", 3, sample=lambda r: r.uniform(0.5, 5, 3))
    for i in range(3):
        k.assume(Ei[i] > 0)
        k.assume(Fi[i] > 0)
    G = k.reals("G", 3)
    G0 = k.reals("G0", 3, sample=lambda r: r.normal(size=3) * 1.7)
    K = k.reals("K", 3)
    K0 = k.reals("K0", 3)
    if nonzero_gamma:
        k.assume(G @ G > 0)
    return Ei, Fi, G, G0, K, K0


def _hyper(k, mat, G, G0, K, K0):
    W_G = k.jac(lambda G_: mat.potential(G_, G0, K, K0), G)
    W_K = k.jac(lambda K_: mat.potential(G, G0, K_, K0), K)
    k.prove_eq("B_n=dW/dGamma", mat.B_n(G, G0, K, K0), W_G)
    k.prove_eq("B_m=dW/dKappa", mat.B_m(G, G0, K, K0), W_K)
    k.prove_eq("B_n_B_Gamma=dB_n/dGamma", mat.B_n_B_Gamma(G, G0, K, K0), k.jac(lambda G_: mat.B_n(G_, G0, K, K0), G))
    k.prove_eq("B_n_B_Kappa=dB_n/dKappa", mat.B_n_B_Kappa(G, G0, K, K0), k.jac(lambda K_: mat.B_n(G, G0, K_, K0), K))
    k.prove_eq("B_m_B_Gamma=dB_m/dGamma", mat.B_m_B_Gamma(G, G0, K, K0), k.jac(lambda G_: mat.B_m(G_, G0, K, K0), G))
    k.prove_eq("B_m_B_Kappa=dB_m/dKappa", mat.B_m_B_Kappa(G, G0, K, K0), k.jac(lambda K_: mat.B_m(G, G0, K_, K0), K))
    k.prove_eq("W(reference)=0", mat.potential(G0, G0, K0, K0), 0)


@contract("C12", "Simo1986/hyperelastic-tangents-dual")
def c_simo(k):
    k.covers(
        mm.Simo1986.__init__,
        mm.Simo1986.potential,
        mm.Simo1986.complementary_potential,
        mm.Simo1986.B_n,
        mm.Simo1986.B_m,
        mm.Simo1986.B_n_B_Gamma,
        mm.Simo1986.B_n_B_Kappa,
        mm.Simo1986.B_m_B_Gamma,
        mm.Simo1986.B_m_B_Kappa,
    )
    Ei, Fi, G, G0, K, K0 = _inputs(k)
    mat = mm.Simo1986(Ei, Fi)
    _hyper(k, mat, G, G0, K, K0)
    # compliance matrices are the inverses
    k.prove_eq("C_n_inv.C_n=I", mat.C_n_inv @ mat.C_n, np.eye(3))
    k.prove_eq("C_m_inv.C_m=I", mat.C_m_inv @ mat.C_m, np.eye(3))
    # Legendre duality: at n = dW/dGamma, m = dW/dKappa
    n = mat.B_n(G, G0, K, K0)
    m = mat.B_m(G, G0, K, K0)
    W = mat.potential(G, G0, K, K0)
    Wc = mat.complementary_potential(n, m)
    k.prove_eq("W*+W=n.dG+m.dK (Fenchel equality)", Wc + W, n @ (G - G0) + m @ (K - K0))
    nn = k.reals("n", 3)
    mm_ = k.reals("m", 3)
    k.prove_eq("dW*/dn=C_n_inv n (strain from force)", k.jac(lambda n_: mat.complementary_potential(n_, mm_), nn), mat.C_n_inv @ nn)
    k.prove_eq("dW*/dm=C_m_inv m", k.jac(lambda m_: mat.complementary_potential(nn, m_), mm_), mat.C_m_inv @ mm_)
    k.prove_eq("strain recovered", mat.C_n_inv @ n, G - G0)
    k.prove_eq("curvature recovered", mat.C_m_inv @ m, K - K0)


@contract("C12", "Harsch2021/hyperelastic-tangents")
def c_harsch(k):
    k.covers(
        mm.Harsch2021.__init__,
        mm.Harsch2021.potential,
        mm.Harsch2021.B_n,
        mm.Harsch2021.B_m,
        mm.Harsch2021.B_n_B_Gamma,
        mm.Harsch2021.B_n_B_Kappa,
        mm.Harsch2021.B_m_B_Gamma,
        mm.Harsch2021.B_m_B_Kappa,
    )
    Ei, Fi, G, G0, K, K0 = _inputs(k, nonzero_gamma=True)
    mat = mm.Harsch2021(Ei, Fi)
    _hyper(k, mat, G, G0, K, K0)


_METHODS = ("potential", "B_n", "B_m", "B_n_B_Gamma", "B_n_B_Kappa", "B_m_B_Gamma", "B_m_B_Kappa")


def _values_only(cls):
    """History obligation: a law evaluates the strains it is GIVEN.  The same law object is asked twice with the same four
    array objects, whose contents were overwritten in place in between (how a caller that keeps work arrays uses it); every
    method must return what a fresh law object returns for fresh arrays holding the second values.  A memo keyed on the
    identity of an argument, or any other state carried from call to call, fails here."""

    def c(k):
        k.covers(*[getattr(cls, m) for m in _METHODS])
        Ei, Fi, G1, G01, K1, K01 = _inputs(k, nonzero_gamma=True)
        G2 = k.reals("G2", 3)
        G02 = k.reals("G02", 3, sample=lambda r: r.normal(size=3) * 1.7)
        K2, K02 = k.reals("K2", 3), k.reals("K02", 3)
        k.assume(G2 @ G2 > 0)
        if cls is mm.Harsch2021:
            k.assume(G01 @ G01 > 0)
            k.assume(G02 @ G02 > 0)
        mat = cls(Ei, Fi)
        bufs = [np.array(list(a), dtype=object) for a in (G1, G01, K1, K01)]
        for m in _METHODS:  # first round: whatever the object remembers, it remembers now
            getattr(mat, m)(*bufs)
        for buf, second in zip(bufs, (G2, G02, K2, K02)):
            buf[:] = second
        fresh = cls(Ei, Fi)
        for m in reversed(_METHODS):
            got = getattr(mat, m)(*bufs)
            want = getattr(fresh, m)(*[np.array(list(a), dtype=object) for a in (G2, G02, K2, K02)])
            k.prove_eq(f"{m}: second call with the same array objects, overwritten in place, evaluates the new values", got, want)
        for buf, second in zip(bufs, (G2, G02, K2, K02)):
            k.prove_eq("the arguments are not modified", buf, second)
        # one argument at a time: a memo keyed on PART of the arguments (say the current strain only) keeps the value that
        # belongs to the previous reference strain - every argument is changed alone, the others keep their values
        current = [G2, G02, K2, K02]
        third = [k.reals("G3", 3), k.reals("G03", 3, sample=lambda r: r.normal(size=3) * 1.7), k.reals("K3", 3), k.reals("K03", 3)]
        k.assume(third[0] @ third[0] > 0)
        if cls is mm.Harsch2021:
            k.assume(third[1] @ third[1] > 0)
        for i, which in enumerate(("B_Gamma", "B_Gamma0", "B_Kappa", "B_Kappa0")):
            for m in _METHODS:
                getattr(mat, m)(*[np.array(list(a), dtype=object) for a in current])
            changed = list(current)
            changed[i] = third[i]
            for m in _METHODS:
                got = getattr(mat, m)(*[np.array(list(a), dtype=object) for a in changed])
                want = getattr(cls(Ei, Fi), m)(*[np.array(list(a), dtype=object) for a in changed])
                k.prove_eq(f"{m}: after a call with other values of {which} only, the result belongs to the new {which}", got, want)
                getattr(mat, m)(*[np.array(list(a), dtype=object) for a in current])  # back to the previous values before the next method

    return c


contract("C12", "Simo1986/results depend on the values of the arguments only", samples=2, timeout=60)(_values_only(mm.Simo1986))
contract("C12", "Harsch2021/results depend on the values of the arguments only", samples=2, timeout=60)(_values_only(mm.Harsch2021))


@contract("C12", "material laws/stiffnesses of any numeric type", samples=0, replayable=False, timeout=30)
def c_dtypes(k):
    """stiffness vectors given as integer arrays or Python lists (test_cantilever.py itself passes np.array([5, 1, 1])) describe
    the same material as their float values: compliance matrices are the inverses, the complementary energy is the
    Legendre dual, forces and tangents agree with the float-typed material (executed natively)"""
    from vk import kit as K
    from vk import npshim

    if not k.sym:
        raise K.Reject("decided by native execution")
    k.covers(mm.Simo1986.__init__, mm.Harsch2021.__init__)
    rng = np.random.default_rng(12)
    with npshim.active(False):
        G, G0, Kp, K0 = rng.normal(size=3) + np.array([1, 0, 0]), np.array([1.0, 0, 0]) + 0.1 * rng.normal(size=3), 0.3 * rng.normal(size=3), 0.2 * rng.normal(size=3)
        for tag, Ei, Fi in (("int64 arrays", np.array([5, 2, 3]), np.array([4, 7, 2])), ("python lists of ints", [5, 2, 3], [4, 7, 2]), ("float32 arrays", np.array([5, 2, 3], dtype=np.float32), np.array([4, 7, 2], dtype=np.float32))):
            ref = mm.Simo1986(np.array([5.0, 2, 3]), np.array([4.0, 7, 2]))
            m = mm.Simo1986(Ei, Fi)
            k.prove(f"Simo1986 [{tag}]: C_n_inv C_n = 1 and C_m_inv C_m = 1", bool(np.allclose(np.asarray(m.C_n_inv, dtype=float) @ np.asarray(m.C_n, dtype=float), np.eye(3)) and np.allclose(np.asarray(m.C_m_inv, dtype=float) @ np.asarray(m.C_m, dtype=float), np.eye(3))))
            n, mo = m.B_n(G, G0, Kp, K0), m.B_m(G, G0, Kp, K0)
            k.prove(f"Simo1986 [{tag}]: forces and couples equal those of the float-typed material", bool(np.allclose(n, ref.B_n(G, G0, Kp, K0)) and np.allclose(mo, ref.B_m(G, G0, Kp, K0))))
            k.prove(f"Simo1986 [{tag}]: Fenchel equality W + W* = n . dGamma + m . dKappa", bool(np.isclose(m.potential(G, G0, Kp, K0) + m.complementary_potential(n, mo), n @ (G - G0) + mo @ (Kp - K0))))
            h = mm.Harsch2021(Ei, Fi)
            href = mm.Harsch2021(np.array([5.0, 2, 3]), np.array([4.0, 7, 2]))
            k.prove(f"Harsch2021 [{tag}]: potential, forces and tangent equal those of the float-typed material", bool(np.isclose(h.potential(G, G0, Kp, K0), href.potential(G, G0, Kp, K0)) and np.allclose(h.B_n(G, G0, Kp, K0), href.B_n(G, G0, Kp, K0)) and np.allclose(h.B_n_B_Gamma(G, G0, Kp, K0), href.B_n_B_Gamma(G, G0, Kp, K0))))
