"""C10 - Cosserat rod internal forces are stress-free, objective and self-equilibrated.

Layered, as far as the solvers reach:
  provider (symbolic, Quaternion interpolation, degree 1/2): the real `_eval` is executed on symbolic element
      coordinates (non-unit nodal quaternions) and shown objective: under r_i -> c + R(Q) r_i, p_i -> Q o p_i
      the strains B_Gamma_bar, B_Kappa_bar are unchanged, A_IB -> R(Q) A_IB, r_OP -> c + R(Q) r_OP;
  client (symbolic, all three formulations share this code): the real element routines E_pot_el, f_int_el,
      c_el, g_el, W_c_el, W_g_el are executed with `_eval` replaced by its contract (uninterpreted strains,
      orientation and position): they depend on the element coordinates only through the strains (energy,
      compliance and constraint residuals) or strains and orientation (forces) - a frame obligation on the
      terms - their centreline resultant vanishes given sum_i N_i' = 0 (C13), and at the reference
      configuration energy, forces and residuals vanish;
  SE3 / R12 interpolations and the assembled level: bounded stand-in (real rods of every formulation,
      random curved non-unit reference configurations, random rigid motions).
"""

import numpy as np

import cardillo.math.rotations as rot
from cardillo.rods import Simo1986
from contracts.rods import FORMULATIONS, dense, make_rod, perturb, relerr, rigid_motion
from vk import kit as K
from vk import sym as S
from vk.registry import bounded, contract

LEVEL = "proof"
TRUSTED = [
    "mesh tables N, N_xi are abstracted by their contract from C13 (sum N_i = 1, sum N_i' = 0) in the symbolic obligations; quadrature weights and reference Jacobians are positive atoms",
    "SE3 and R12 `_eval` objectivity and every assembled-level statement are covered by the bounded stand-in only (Log/Exp chains are beyond the solvers)",
    "material law: Simo1986 with symbolic positive stiffnesses (its own contract is C12)",
]
EXPLANATION = "provider/client contracts around the rod `_eval`; QF_NRA obligations + frame obligations on terms; bounded stand-in for SE3/R12 and assembled rods"


# --------------------------------------------------------------------------- provider: Quaternion _eval objectivity
def _quat_rod(degree):
    rng = np.random.default_rng(1)
    rod, Q = make_rod("Quaternion", False, None, degree, 1, rng)
    return rod


def _objectivity(degree):
    def c(k):
        rod = _quat_rod(degree)
        k.covers(type(rod)._eval)
        nn = degree + 1
        qe = k.reals("qe", 7 * nn, sample=lambda g: np.concatenate([g.normal(size=3 * nn), g.normal(size=4 * nn)]))
        N = k.reals("N", nn, sample=lambda g: (lambda v: v / v.sum())(g.uniform(0.1, 1, nn)))
        Nx = k.reals("Nx", nn, sample=lambda g: (lambda v: v - v.mean())(g.normal(size=nn)))
        if k.sym:
            k.assume(S._cmp("eq", S._coerce(sum(N)) - 1))
            k.assume(S._cmp("eq", S._coerce(sum(Nx))))
        else:
            k.assume(abs(sum(N) - 1) < 1e-12 and abs(sum(Nx)) < 1e-12)
        Pq = k.reals("Pq", 4)
        k.assume(Pq @ Pq > 0)
        cvec = k.reals("c", 3)
        p = sum(N[i] * qe[rod.nodalDOF_element_p[i]] for i in range(nn))
        k.assume(p @ p > 0)  # interpolated quaternion must not vanish (requires of Exp_SO3_quat)
        R = rot.Exp_SO3_quat(Pq)
        qe2 = np.array(qe, dtype=object if k.sym else float).copy()
        for i in range(nn):
            qe2[rod.nodalDOF_element_r[i]] = cvec + R @ qe[rod.nodalDOF_element_r[i]]
            qe2[rod.nodalDOF_element_p[i]] = rot.quatprod(Pq, qe[rod.nodalDOF_element_p[i]])
        xi = 0.3
        rod._eval_cache.clear()
        r1, A1, G1, K1 = type(rod)._eval.__wrapped__(rod, qe, xi, N, Nx)
        r2, A2, G2, K2 = type(rod)._eval.__wrapped__(rod, qe2, xi, N, Nx)
        k.prove_eq("B_Gamma_bar invariant under rigid motion", G2, G1, tol=1e-9)
        k.prove_eq("B_Kappa_bar invariant under rigid motion", K2, K1, tol=1e-9)
        k.prove_eq("A_IB -> R A_IB", A2, R @ A1, tol=1e-9)
        k.prove_eq("r_OP -> c + R r_OP", r2, cvec + R @ r1, tol=1e-9)
        k.prove_eq("A_IB orthonormal", A1.T @ A1, np.eye(3), tol=1e-9)

    return c


contract("C10", "Quaternion._eval/objective[degree=1]", timeout=180, samples=3)(_objectivity(1))
contract("C10", "Quaternion._eval/objective[degree=2]", timeout=240, samples=3, tiers=("thorough",))(_objectivity(2))


# --------------------------------------------------------------------------- client: element routines against the _eval contract
def _client(mixed, constraints, degree):
    def c(k):
        if not k.sym:
            raise K.Reject("symbolic only")
        rng = np.random.default_rng(2)
        rod, Q = make_rod("Quaternion", mixed, constraints, degree, 1, rng)
        cls = type(rod)
        k.covers(*[getattr(cls, n) for n in ("E_pot_el", "f_int_el", "c_el", "W_c_el", "g_el", "W_g_el", "set_reference_strains") if hasattr(cls, n)])
        nn = degree + 1
        nq = rod.nquadrature
        # symbolic material and mesh tables
        Ei, Fi = S.symarray("E", 3), S.symarray("F", 3)
        for v in list(Ei) + list(Fi):
            k.assume(v > 0)
        rod.material_model = Simo1986(Ei, Fi)
        rod.qw = S.symarray("qw", (1, nq))
        for v in rod.qw.ravel():
            k.assume(v > 0)
        Nx = S.symarray("Nx", (1, nq, nn))
        for i in range(nq):
            k.assume(S._cmp("eq", S._coerce(sum(Nx[0, i]))))  # C13: derivatives of the basis sum to zero
        rod.N_r_xi = Nx
        rod.N_p_xi = Nx
        # contract of _eval: uninterpreted smooth functions of the element coordinates per quadrature point
        qe = S.symarray("qe", rod.nq_element)
        qref = S.symarray("Qe", rod.nq_element)
        store = {}

        def eval_stub(q_, xi, N=None, N_xi=None):
            tag = "ref" if q_ is qref or all(a is b for a, b in zip(q_, qref)) else "cur"
            key = (tag, float(xi))
            if key not in store:
                i = len([1 for kk in store if kk[0] == tag])
                nm = f"{tag}{i}"
                store[key] = (S.symarray(nm + "r", 3), S.symarray(nm + "A", (3, 3)), S.symarray(nm + "G", 3), S.symarray(nm + "K", 3))
            return store[key]

        rod._eval = eval_stub
        # non-degenerate reference configuration: |B_Gamma_bar0| > 0 at every quadrature point (requires)
        for xi in rod.qp[0]:
            r_, A_, G_, K_ = eval_stub(qref, xi)
            k.assume(G_ @ G_ > 0)
        rod.Q = qref
        # reference strains through the real routine (J, B_Gamma0, B_Kappa0)
        for key_i in range(nq):
            pass
        # |B_Gamma_bar0| > 0 (non-degenerate reference configuration)
        rod.nquadrature_dyn = 0
        rod.set_reference_strains(qref)
        rod.Q = qref
        for (tag, xi), (r_, A_, G_, K_) in store.items():
            if tag == "ref":
                k.assume(G_ @ G_ > 0)
        strain_atoms = set()
        orient_atoms = set()
        pos_atoms = set()

        def cur_atoms():
            for (tag, xi), (r_, A_, G_, K_) in store.items():
                if tag == "cur":
                    strain_atoms.update(list(G_) + list(K_))
                    orient_atoms.update(A_.ravel())
                    pos_atoms.update(r_)

        def atoms_of(arr):
            return set(S.free_atoms([S._coerce(x) for x in np.asarray(arr, dtype=object).ravel()]))

        la = None
        # ---- current configuration
        if hasattr(rod, "E_pot_el"):
            E = rod.E_pot_el(qe, 0)
            cur_atoms()
            k.prove("E_pot_el depends on the coordinates only through the strains", not (atoms_of(E) & (orient_atoms | pos_atoms | set(qe))), show="frame obligation on the term")
            if nq == 1:
                k.prove_le("E_pot_el >= 0", 0, E)
        if hasattr(rod, "f_int_el"):
            f = rod.f_int_el(qe, 0)
            cur_atoms()
            k.prove("f_int_el depends only on strains and orientation (translation invariant)", not (atoms_of(f) & (pos_atoms | set(qe))), show="frame obligation on the term")
            res = sum(f[rod.nodalDOF_element_r_u[i]] for i in range(nn))
            k.prove_eq("f_int_el: centreline resultant vanishes", res, np.zeros(3))
        if mixed:
            la = S.symarray("la_c", rod.nla_c_element)
            cc = rod.c_el(qe, la, 0)
            cur_atoms()
            k.prove("c_el depends on the coordinates only through the strains", not (atoms_of(cc) & (orient_atoms | pos_atoms | set(qe))), show="frame obligation on the term")
            W = rod.W_c_el(qe, 0)
            k.prove("W_c_el is translation invariant", not (atoms_of(W) & (pos_atoms | set(qe))), show="frame obligation on the term")
            fW = W @ la
            res = sum(fW[rod.nodalDOF_element_r_u[i]] for i in range(nn))
            k.prove_eq("W_c_el la_c: centreline resultant vanishes", res, np.zeros(3))
        if constraints is not None:
            g = rod.g_el(qe, 0)
            cur_atoms()
            k.prove("g_el depends on the coordinates only through the strains", not (atoms_of(g) & (orient_atoms | pos_atoms | set(qe))), show="frame obligation on the term")
            Wg = rod.W_g_el(qe, 0)
            lag = S.symarray("la_g", rod.nla_g_element)
            fW = Wg @ lag
            res = sum(fW[rod.nodalDOF_element_r_u[i]] for i in range(nn))
            k.prove_eq("W_g_el la_g: centreline resultant vanishes", res, np.zeros(3))
        # ---- reference configuration: evaluate the same routines at q = Q
        if hasattr(rod, "E_pot_el"):
            k.prove_eq("E_pot_el(Q) = 0", rod.E_pot_el(qref, 0), 0)
        if hasattr(rod, "f_int_el"):
            k.prove_eq("f_int_el(Q) = 0", rod.f_int_el(qref, 0), np.zeros(rod.nu_element))
        if mixed:
            k.prove_eq("c_el(Q, 0) = 0", rod.c_el(qref, np.zeros(rod.nla_c_element), 0), np.zeros(rod.nla_c_element))
        if constraints is not None:
            k.prove_eq("g_el(Q) = 0", rod.g_el(qref, 0), np.zeros(rod.nla_g_element))

    return c


for _mixed, _constraints, _deg, _t in (
    (False, None, 1, ("quick", "thorough")),
    (True, None, 1, ("quick", "thorough")),
    (False, (1, 2), 1, ("quick", "thorough")),
    (True, (0, 1, 2), 2, ("quick", "thorough")),
    (False, None, 2, ("thorough",)),
    (True, None, 2, ("thorough",)),
    (False, (0, 1, 2, 3, 4, 5), 1, ("thorough",)),
):
    contract("C10", f"element-routines/eval-contract[mixed={_mixed},constraints={_constraints},degree={_deg}]", samples=0, replayable=False, timeout=120, tiers=_t)(_client(_mixed, _constraints, _deg))


# --------------------------------------------------------------------------- bounded: all formulations, assembled level
@bounded("C10", "all-formulations/reference-objectivity-resultant")
def b_rods(tier, seed):
    rng = np.random.default_rng(seed + 40)
    cases, failures = 0, []
    forms = FORMULATIONS if tier == "thorough" else [f for f in FORMULATIONS if f[3] == (1 if f[0] == "SE3" else 2) or f[1:3] == (False, None)]
    for interp, mixed, constraints, degree in forms:
        for nel in ((2,) if tier == "quick" else (1, 2, 3)):
            name = f"{interp}[mixed={mixed},constraints={constraints},degree={degree},nel={nel}]"
            try:
                rod, Q = make_rod(interp, mixed, constraints, degree, nel, rng)
            except Exception as e:  # noqa: BLE001
                failures.append({"what": f"{name}: construction raised {type(e).__name__}", "input": {}, "detail": str(e)[:200]})
                continue
            nn = len(Q) // 7
            t = 0.0
            u0 = np.zeros(rod.nu)
            q = perturb(Q, rng)
            cvec = rng.normal(size=3)
            Pq = rng.normal(size=4)
            q2 = rigid_motion(q, cvec, Pq)
            q3 = q.copy()
            q3[: 3 * nn] = (q[: 3 * nn].reshape(3, nn) + cvec[:, None]).reshape(-1)
            rdofs = rod.nodalDOF_r_u
            checks = []
            if hasattr(rod, "E_pot"):
                checks.append(("E_pot(Q) = 0", abs(rod.E_pot(t, Q))))
                checks.append(("E_pot invariant under rigid motion", abs(rod.E_pot(t, q2) - rod.E_pot(t, q)) / (1 + abs(rod.E_pot(t, q)))))
            if hasattr(rod, "f_int_el"):
                fint = lambda qq: rod.h(t, qq, u0)
                checks.append(("f_int(Q) = 0", np.max(np.abs(fint(Q)))))
                checks.append(("f_int invariant under translation", relerr(fint(q3), fint(q))))
                f = fint(q)
                checks.append(("f_int: zero centreline resultant", np.max(np.abs(sum(f[rdofs[i]] for i in range(nn)))) / (1 + np.max(np.abs(f)))))
            if hasattr(rod, "c"):
                la = rng.normal(size=rod.nla_c)
                checks.append(("c(Q, 0) = 0", np.max(np.abs(rod.c(t, Q, u0, np.zeros(rod.nla_c))))))
                checks.append(("la_c(Q) = 0", np.max(np.abs(rod.la_c(t, Q, u0)))))
                checks.append(("c invariant under rigid motion", relerr(rod.c(t, q2, u0, la), rod.c(t, q, u0, la))))
                fW = dense(rod.W_c(t, q)) @ la
                checks.append(("W_c la_c: zero centreline resultant", np.max(np.abs(sum(fW[rdofs[i]] for i in range(nn)))) / (1 + np.max(np.abs(fW)))))
                fW3 = dense(rod.W_c(t, q3)) @ la
                checks.append(("W_c la_c invariant under translation", relerr(fW3, fW)))
            if hasattr(rod, "g"):
                lag = rng.normal(size=rod.nla_g)
                checks.append(("g(Q) = 0", np.max(np.abs(rod.g(t, Q)))))
                checks.append(("g invariant under rigid motion", relerr(rod.g(t, q2), rod.g(t, q))))
                fW = dense(rod.W_g(t, q)) @ lag
                checks.append(("W_g la_g: zero centreline resultant", np.max(np.abs(sum(fW[rdofs[i]] for i in range(nn)))) / (1 + np.max(np.abs(fW)))))
            for what, err in checks:
                cases += 1
                if not err <= 1e-9:
                    failures.append({"what": f"{name}: {what}", "input": {"seed": seed}, "detail": f"error {err:.3e}"})
    return {"cases": cases, "distinct": cases, "failures": failures[:12], "bound": f"{len(forms)} formulations x element counts, random curved non-unit reference configurations, one random state and rigid motion each, tolerance 1e-9"}


# --------------------------------------------------------------------------- changing the reference after construction
from vk.registry import contract as _contract  # noqa: E402


@_contract("C10", "set_reference_strains/leaves the rod in the state its constructor produces for that reference", samples=0, replayable=False, timeout=60)
def c_set_reference(k):
    """"every stress-free reference configuration" includes one set AFTER construction through the public
    set_reference_strains(Q): the rod built with Q1 and switched to Q2 (and back) must carry exactly the reference tables
    (Q, J, B_Gamma0, B_Kappa0, dynamic ones too) of a rod built with Q2 (Q1) directly, and its element routines vanish
    there.  Executed natively on real rods of every interpolation, displacement-based and mixed."""
    from vk import kit as K
    from vk import npshim

    if not k.sym:
        raise K.Reject("decided by native execution")
    import warnings

    from cardillo.rods import CircularCrossSection, Simo1986
    from cardillo.rods.cosseratRod import make_CosseratRod

    rng = np.random.default_rng(12)
    with npshim.active(False), warnings.catch_warnings():
        warnings.simplefilter("ignore")
        for interp, mixed in (("Quaternion", False), ("Quaternion", True), ("SE3", False), ("SE3", True), ("R12", False), ("R12", True)):
            Rod = make_CosseratRod(interpolation=interp, mixed=mixed)
            k.covers(Rod.set_reference_strains)
            Q1 = Rod.straight_configuration(2, 1.3)
            nn = len(Q1) // 7
            Q2 = Q1.copy()
            Q2[: 3 * nn] += 0.05 * rng.normal(size=3 * nn)
            Q2[3 * nn :] += 0.1 * rng.normal(size=4 * nn)
            mk = lambda Q: Rod(CircularCrossSection(0.1), Simo1986(np.array([5.0, 1.0, 1.5]), np.array([0.5, 0.1, 0.15])), 2, Q=Q.copy(), q0=Q.copy())  # noqa: E731
            direct = {1: mk(Q1), 2: mk(Q2)}
            rod = mk(Q1)
            tables = [a for a in ("Q", "J", "B_Gamma0", "B_Kappa0", "J_dyn", "B_Gamma0_dyn", "B_Kappa0_dyn") if hasattr(rod, a)]
            for step, (Qn, which) in enumerate(((Q2, 2), (Q1, 1), (Q2, 2))):
                rod.set_reference_strains(Qn.copy())
                tag = f"{interp}, mixed={mixed}, switch {step + 1} (to reference {which})"
                for a in tables:
                    k.prove(f"{tag}: table {a} equals the one of a rod constructed with that reference", bool(np.array_equal(np.asarray(getattr(rod, a)), np.asarray(getattr(direct[which], a)))))
                rod.assembler_callback()
                for el in range(rod.nelement):
                    qe = Qn[rod.elDOF[el]]
                    if mixed:
                        val = np.max(np.abs(rod.c_el(qe, np.zeros(rod.nla_c_element), el)))
                        k.prove(f"{tag}: compliance residual c_el(Q, 0) = 0 on element {el}", bool(val <= 1e-12), show=f"{val:.3e}")
                    else:
                        val = max(abs(rod.E_pot_el(qe, el)), np.max(np.abs(rod.f_int_el(qe, el))))
                        k.prove(f"{tag}: E_pot_el(Q) = 0 and f_int_el(Q) = 0 on element {el}", bool(val <= 1e-12), show=f"{val:.3e}")
